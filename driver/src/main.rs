//! okfacts — MIR fact extractor for the okane static checks (engine E1 of DESIGN.md).
//!
//! Used as RUSTC_WORKSPACE_WRAPPER under `cargo +nightly check`.  For every workspace
//! crate it compiles, it writes one JSON file into $OKFACTS_OUT describing every
//! fn / method / closure body (MIR at opt-level 0) with resolved callees, places with
//! field names, constants, assert terminators, plus an ADT table.  Nothing is decided
//! here; the rules live in /verif/analysis and /verif/rules.
#![feature(rustc_private)]
#![allow(clippy::all)]

extern crate rustc_abi;
extern crate rustc_driver;
extern crate rustc_hir;
extern crate rustc_interface;
extern crate rustc_middle;
extern crate rustc_span;

use std::fmt::Write as _;

use rustc_driver::{Callbacks, Compilation};
use rustc_hir::def::DefKind;
use rustc_hir::def_id::{DefId, LocalDefId, LOCAL_CRATE};
use rustc_interface::interface::Compiler;
use rustc_middle::mir::{
    self, AggregateKind, AssertKind, Body, Operand, Place, PlaceElem, Rvalue,
    StatementKind, TerminatorKind,
};
use rustc_middle::ty::print::{with_crate_prefix, with_no_trimmed_paths, PrintTraitRefExt};
use rustc_middle::ty::{self, Ty, TyCtxt};
use rustc_span::Span;

fn js(s: &str) -> String {
    let mut o = String::with_capacity(s.len() + 2);
    o.push('"');
    for c in s.chars() {
        match c {
            '"' => o.push_str("\\\""),
            '\\' => o.push_str("\\\\"),
            '\n' => o.push_str("\\n"),
            '\r' => o.push_str("\\r"),
            '\t' => o.push_str("\\t"),
            c if (c as u32) < 0x20 => {
                let _ = write!(o, "\\u{:04x}", c as u32);
            }
            c => o.push(c),
        }
    }
    o.push('"');
    o
}

fn opt_js(s: Option<String>) -> String {
    match s {
        Some(s) => js(&s),
        None => "null".to_string(),
    }
}

struct Ex<'tcx> {
    tcx: TyCtxt<'tcx>,
}

impl<'tcx> Ex<'tcx> {
    fn fixcrate(&self, s: String) -> String {
        if s.contains("crate::") {
            let k = self.tcx.crate_name(LOCAL_CRATE).to_string();
            s.replace("crate::", &format!("{}::", k))
        } else {
            s
        }
    }

    fn path(&self, d: DefId) -> String {
        self.fixcrate(with_crate_prefix!(with_no_trimmed_paths!(self.tcx.def_path_str(d))))
    }

    fn path_args(&self, d: DefId, args: &'tcx [ty::GenericArg<'tcx>]) -> String {
        self.fixcrate(with_crate_prefix!(with_no_trimmed_paths!(self
            .tcx
            .def_path_str_with_args(d, args))))
    }

    fn ty_str(&self, t: Ty<'tcx>) -> String {
        self.fixcrate(with_crate_prefix!(with_no_trimmed_paths!(format!("{}", t))))
    }

    /// file, line, expansion macro name, macro defining crate
    fn span_json(&self, span: Span) -> String {
        let sm = self.tcx.sess.source_map();
        let user = if span.from_expansion() { span.source_callsite() } else { span };
        let lo = sm.lookup_char_pos(user.lo());
        let file = match &lo.file.name {
            rustc_span::FileName::Real(r) => r
                .local_path()
                .map(|p| p.display().to_string())
                .unwrap_or_else(|| format!("{:?}", r)),
            other => format!("{:?}", other),
        };
        let mut exp = "null".to_string();
        let mut expcrate = "null".to_string();
        if span.from_expansion() {
            // outermost expansion that produced this span
            let mut data = span.ctxt().outer_expn_data();
            loop {
                let cs = data.call_site;
                if cs.from_expansion() {
                    data = cs.ctxt().outer_expn_data();
                } else {
                    break;
                }
            }
            let inner = span.ctxt().outer_expn_data();
            exp = js(&format!("{}|{}", inner.kind.descr(), data.kind.descr()));
            if let Some(md) = data.macro_def_id {
                expcrate = js(&self.tcx.crate_name(md.krate).to_string());
            }
        }
        format!(
            "{{\"file\":{},\"line\":{},\"col\":{},\"exp\":{},\"expcrate\":{}}}",
            js(&file),
            lo.line,
            lo.col.0 + 1,
            exp,
            expcrate
        )
    }

    fn place_json(&self, body: &Body<'tcx>, p: &Place<'tcx>) -> String {
        let tcx = self.tcx;
        let mut s = format!("{{\"l\":{},\"p\":[", p.local.as_usize());
        let mut pty = mir::PlaceTy::from_ty(body.local_decls[p.local].ty);
        let mut first = true;
        for elem in p.projection.iter() {
            if !first {
                s.push(',');
            }
            first = false;
            match elem {
                PlaceElem::Deref => s.push_str("{\"k\":\"deref\"}"),
                PlaceElem::Field(f, _) => {
                    let mut name = format!("{}", f.as_usize());
                    let mut adt = "null".to_string();
                    match pty.ty.kind() {
                        ty::Adt(def, _) => {
                            let vi = pty.variant_index.unwrap_or(rustc_abi::FIRST_VARIANT);
                            let v = def.variant(vi);
                            if let Some(fd) = v.fields.get(f) {
                                name = fd.name.to_string();
                            }
                            adt = js(&self.path(def.did()));
                        }
                        ty::Closure(cdef, _) => {
                            if let Some(ld) = cdef.as_local() {
                                let caps = tcx.closure_captures(ld);
                                if let Some(c) = caps.get(f.as_usize()) {
                                    name = c.to_symbol().to_string();
                                }
                            }
                            adt = js("{closure}");
                        }
                        _ => {}
                    }
                    let _ = write!(
                        s,
                        "{{\"k\":\"field\",\"i\":{},\"name\":{},\"adt\":{}}}",
                        f.as_usize(),
                        js(&name),
                        adt
                    );
                }
                PlaceElem::Index(l) => {
                    let _ = write!(s, "{{\"k\":\"index\",\"l\":{}}}", l.as_usize());
                }
                PlaceElem::ConstantIndex { offset, from_end, .. } => {
                    let _ = write!(
                        s,
                        "{{\"k\":\"constindex\",\"off\":{},\"from_end\":{}}}",
                        offset, from_end
                    );
                }
                PlaceElem::Subslice { .. } => s.push_str("{\"k\":\"subslice\"}"),
                PlaceElem::Downcast(name, vi) => {
                    let mut vname = name.map(|n| n.to_string());
                    if vname.is_none() {
                        if let ty::Adt(def, _) = pty.ty.kind() {
                            vname = Some(def.variant(vi).name.to_string());
                        }
                    }
                    let _ = write!(
                        s,
                        "{{\"k\":\"downcast\",\"variant\":{},\"vi\":{}}}",
                        opt_js(vname),
                        vi.as_usize()
                    );
                }
                PlaceElem::OpaqueCast(_) => s.push_str("{\"k\":\"opaquecast\"}"),
                PlaceElem::UnwrapUnsafeBinder(_) => s.push_str("{\"k\":\"unwrapbinder\"}"),
            }
            pty = pty.projection_ty(tcx, elem);
        }
        s.push_str("]}");
        s
    }

    fn const_json(&self, body_def: DefId, c: &mir::ConstOperand<'tcx>) -> String {
        let tcx = self.tcx;
        let t = c.const_.ty();
        let mut s = format!("{{\"k\":\"const\",\"ty\":{}", js(&self.ty_str(t)));
        match t.kind() {
            ty::FnDef(d, args) => {
                let _ = write!(s, ",\"fn\":{}", js(&self.path(*d)));
                let _ = write!(
                    s,
                    ",\"fn_args\":{}",
                    js(&self.path_args(*d, args))
                );
                let env = ty::TypingEnv::post_analysis(tcx, body_def);
                if let Ok(Some(inst)) = ty::Instance::try_resolve(tcx, env, *d, args) {
                    let _ = write!(s, ",\"fn_resolved\":{}", js(&self.path(inst.def_id())));
                }
            }
            ty::Closure(d, _) => {
                let _ = write!(s, ",\"closure\":{}", js(&self.path(*d)));
            }
            _ => {
                let env = ty::TypingEnv::post_analysis(tcx, body_def);
                let is_scalar = t.is_integral() || t.is_bool() || t.is_char();
                if is_scalar {
                    if let Some(si) = c.const_.try_eval_scalar_int(tcx, env) {
                        let size = si.size();
                        let raw: u128 = si.to_bits(size);
                        if t.is_signed() {
                            let v: i128 = size.sign_extend(raw) as i128;
                            let _ = write!(s, ",\"int\":{}", v);
                        } else if t.is_char() {
                            let ch = char::from_u32(raw as u32).unwrap_or('\u{fffd}');
                            let _ = write!(s, ",\"int\":{},\"char\":{}", raw, js(&ch.to_string()));
                        } else {
                            let _ = write!(s, ",\"int\":{}", raw);
                        }
                    }
                }
                let repr = with_no_trimmed_paths!(format!("{}", c.const_));
                let _ = write!(s, ",\"repr\":{}", js(&repr));
                // promoted constant (`&ErrorKind::NotFound`, `&['a','b']`, ...): say what it is made of
                if let mir::Const::Unevaluated(uv, _) = c.const_ {
                    if let Some(pr) = uv.promoted {
                        if uv.def.is_local() {
                            let bodies = tcx.promoted_mir(uv.def);
                            if let Some(pb) = bodies.get(pr) {
                                let mut parts: Vec<String> = Vec::new();
                                for bbd in pb.basic_blocks.iter() {
                                    for st in bbd.statements.iter() {
                                        if let StatementKind::Assign(bx) = &st.kind {
                                            let (_, rv) = &**bx;
                                            match rv {
                                                Rvalue::Aggregate(ak, ops) => {
                                                    if let AggregateKind::Adt(ad, vi, _, _, _) = &**ak {
                                                        let adef = tcx.adt_def(*ad);
                                                        let v = adef.variant(*vi);
                                                        parts.push(format!("{}::{}", self.path(*ad), v.name));
                                                    } else {
                                                        parts.push(format!("{:?}", ak).chars().take(24).collect());
                                                    }
                                                    for o in ops.iter() {
                                                        if let Operand::Constant(cc) = o {
                                                            parts.push(with_no_trimmed_paths!(format!("{}", cc.const_)));
                                                        }
                                                    }
                                                }
                                                Rvalue::Use(Operand::Constant(cc), ..) => {
                                                    parts.push(with_no_trimmed_paths!(format!("{}", cc.const_)));
                                                }
                                                _ => {}
                                            }
                                        }
                                    }
                                }
                                let pj: Vec<String> = parts.iter().map(|x| js(x)).collect();
                                let _ = write!(s, ",\"promoted\":[{}]", pj.join(","));
                            }
                        }
                    }
                }
            }
        }
        s.push('}');
        s
    }

    fn operand_json(&self, body_def: DefId, body: &Body<'tcx>, o: &Operand<'tcx>) -> String {
        match o {
            Operand::Copy(p) => format!("{{\"k\":\"copy\",\"place\":{}}}", self.place_json(body, p)),
            Operand::Move(p) => format!("{{\"k\":\"move\",\"place\":{}}}", self.place_json(body, p)),
            Operand::Constant(c) => self.const_json(body_def, c),
            #[allow(unreachable_patterns)]
            _ => "{\"k\":\"other\"}".to_string(),
        }
    }

    fn adt_variants_json(&self, t: Ty<'tcx>) -> String {
        if let ty::Adt(def, _) = t.kind() {
            if def.is_enum() {
                let mut s = format!("\"adt\":{},\"variants\":{{", js(&self.path(def.did())));
                let mut first = true;
                for (vi, d) in def.discriminants(self.tcx) {
                    if !first {
                        s.push(',');
                    }
                    first = false;
                    let _ = write!(s, "\"{}\":{}", d.val, js(&def.variant(vi).name.to_string()));
                }
                s.push('}');
                return s;
            }
        }
        "\"adt\":null,\"variants\":null".to_string()
    }

    fn rvalue_json(&self, body_def: DefId, body: &Body<'tcx>, r: &Rvalue<'tcx>) -> String {
        let tcx = self.tcx;
        let op = |o: &Operand<'tcx>| self.operand_json(body_def, body, o);
        match r {
            Rvalue::Use(o, _) => format!("{{\"k\":\"use\",\"op\":{}}}", op(o)),
            Rvalue::Repeat(o, _) => format!("{{\"k\":\"repeat\",\"op\":{}}}", op(o)),
            Rvalue::Ref(_, bk, p) => format!(
                "{{\"k\":\"ref\",\"mut\":{},\"place\":{}}}",
                matches!(bk, mir::BorrowKind::Mut { .. }),
                self.place_json(body, p)
            ),
            Rvalue::ThreadLocalRef(d) => format!("{{\"k\":\"tls\",\"def\":{}}}", js(&self.path(*d))),
            Rvalue::RawPtr(_, p) => format!("{{\"k\":\"rawptr\",\"place\":{}}}", self.place_json(body, p)),
            Rvalue::Cast(kind, o, t) => format!(
                "{{\"k\":\"cast\",\"kind\":{},\"op\":{},\"ty\":{}}}",
                js(&format!("{:?}", kind)),
                op(o),
                js(&self.ty_str(*t))
            ),
            Rvalue::BinaryOp(b, ops) => {
                let (l, r) = &**ops;
                let lt = l.ty(&body.local_decls, tcx);
                format!(
                    "{{\"k\":\"binop\",\"op\":{},\"l\":{},\"r\":{},\"lty\":{}}}",
                    js(&format!("{:?}", b)),
                    op(l),
                    op(r),
                    js(&self.ty_str(lt))
                )
            }
            Rvalue::UnaryOp(u, o) => format!(
                "{{\"k\":\"unop\",\"op\":{},\"x\":{}}}",
                js(&format!("{:?}", u)),
                op(o)
            ),
            Rvalue::Discriminant(p) => {
                let pt = p.ty(&body.local_decls, tcx).ty;
                format!(
                    "{{\"k\":\"discriminant\",\"place\":{},{}}}",
                    self.place_json(body, p),
                    self.adt_variants_json(pt)
                )
            }
            Rvalue::Aggregate(kind, fields) => {
                let mut s = String::from("{\"k\":\"aggregate\"");
                let mut names: Vec<String> = Vec::new();
                match &**kind {
                    AggregateKind::Adt(did, vi, _, _, active) => {
                        let def = tcx.adt_def(*did);
                        let v = def.variant(*vi);
                        let _ = write!(
                            s,
                            ",\"agg\":\"adt\",\"adt\":{},\"variant\":{}",
                            js(&self.path(*did)),
                            js(&v.name.to_string())
                        );
                        if let Some(a) = active {
                            names.push(v.fields[*a].name.to_string());
                        } else {
                            for f in v.fields.iter() {
                                names.push(f.name.to_string());
                            }
                        }
                    }
                    AggregateKind::Tuple => s.push_str(",\"agg\":\"tuple\""),
                    AggregateKind::Array(_) => s.push_str(",\"agg\":\"array\""),
                    AggregateKind::Closure(d, _) => {
                        let _ = write!(s, ",\"agg\":\"closure\",\"closure\":{}", js(&self.path(*d)));
                        if let Some(ld) = d.as_local() {
                            for c in tcx.closure_captures(ld) {
                                names.push(c.to_symbol().to_string());
                            }
                        }
                    }
                    AggregateKind::Coroutine(d, _) | AggregateKind::CoroutineClosure(d, _) => {
                        let _ = write!(s, ",\"agg\":\"coroutine\",\"closure\":{}", js(&self.path(*d)));
                    }
                    AggregateKind::RawPtr(..) => s.push_str(",\"agg\":\"rawptr\""),
                }
                s.push_str(",\"fields\":[");
                for (i, f) in fields.iter().enumerate() {
                    if i > 0 {
                        s.push(',');
                    }
                    let name = names.get(i).cloned().unwrap_or_else(|| i.to_string());
                    let _ = write!(s, "{{\"name\":{},\"op\":{}}}", js(&name), op(f));
                }
                s.push_str("]}");
                s
            }
            Rvalue::CopyForDeref(p) => format!("{{\"k\":\"copyforderef\",\"place\":{}}}", self.place_json(body, p)),
            Rvalue::WrapUnsafeBinder(o, _) => format!("{{\"k\":\"use\",\"op\":{}}}", op(o)),
            #[allow(unreachable_patterns)]
            other => format!("{{\"k\":\"other\",\"dbg\":{}}}", js(&format!("{:?}", other))),
        }
    }

    fn assert_kind(&self, body_def: DefId, body: &Body<'tcx>, m: &AssertKind<Operand<'tcx>>) -> String {
        let op = |o: &Operand<'tcx>| self.operand_json(body_def, body, o);
        match m {
            AssertKind::BoundsCheck { len, index } => format!(
                "\"kind\":\"BoundsCheck\",\"ops\":[{},{}]",
                op(len),
                op(index)
            ),
            AssertKind::Overflow(b, l, r) => format!(
                "\"kind\":\"Overflow\",\"binop\":{},\"ops\":[{},{}]",
                js(&format!("{:?}", b)),
                op(l),
                op(r)
            ),
            AssertKind::OverflowNeg(o) => format!("\"kind\":\"OverflowNeg\",\"ops\":[{}]", op(o)),
            AssertKind::DivisionByZero(o) => format!("\"kind\":\"DivisionByZero\",\"ops\":[{}]", op(o)),
            AssertKind::RemainderByZero(o) => format!("\"kind\":\"RemainderByZero\",\"ops\":[{}]", op(o)),
            AssertKind::MisalignedPointerDereference { .. } => "\"kind\":\"Misaligned\",\"ops\":[]".to_string(),
            AssertKind::NullPointerDereference => "\"kind\":\"NullDeref\",\"ops\":[]".to_string(),
            other => format!("\"kind\":{},\"ops\":[]", js(&format!("{:?}", other).split('(').next().unwrap_or("Other").to_string())),
        }
    }

    fn body_json(&self, def: LocalDefId) -> Option<String> {
        let tcx = self.tcx;
        let did = def.to_def_id();
        let kind = tcx.def_kind(def);
        if !matches!(kind, DefKind::Fn | DefKind::AssocFn | DefKind::Closure) {
            return None;
        }
        let body: &Body<'tcx> = if kind != DefKind::Closure && tcx.is_const_fn(did) {
            tcx.mir_for_ctfe(def)
        } else {
            tcx.optimized_mir(def)
        };
        let mut s = String::new();
        let _ = write!(
            s,
            "{{\"path\":{},\"kind\":{}",
            js(&self.path(did)),
            js(&format!("{:?}", kind))
        );
        // impl context
        let mut owner = did;
        while tcx.def_kind(owner) == DefKind::Closure {
            owner = tcx.parent(owner);
        }
        let mut impl_self = None;
        let mut impl_trait = None;
        let mut derived = false;
        if tcx.def_kind(owner) == DefKind::AssocFn {
            let p = tcx.parent(owner);
            if let DefKind::Impl { of_trait } = tcx.def_kind(p) {
                impl_self = Some(self.ty_str(tcx.type_of(p).instantiate_identity().skip_norm_wip()));
                if of_trait {
                    let tr = tcx.impl_trait_ref(p).instantiate_identity().skip_norm_wip();
                    impl_trait = Some(self.fixcrate(with_crate_prefix!(with_no_trimmed_paths!(format!("{}", tr.print_only_trait_path())))));
                }
                derived = tcx.is_automatically_derived(p);
            } else if tcx.def_kind(p) == DefKind::Trait {
                impl_trait = Some(self.path(p));
            }
        }
        let _ = write!(
            s,
            ",\"impl_self\":{},\"impl_trait\":{},\"derived\":{}",
            opt_js(impl_self),
            opt_js(impl_trait),
            derived
        );
        if kind == DefKind::Closure {
            let _ = write!(s, ",\"parent\":{}", js(&self.path(tcx.parent(did))));
            let caps: Vec<String> = tcx
                .closure_captures(def)
                .iter()
                .map(|c| js(&c.to_symbol().to_string()))
                .collect();
            let _ = write!(s, ",\"captures\":[{}]", caps.join(","));
        } else {
            s.push_str(",\"parent\":null,\"captures\":[]");
        }
        let dspan = tcx.def_span(def);
        let _ = write!(s, ",\"span\":{}", self.span_json(dspan));
        let sm = tcx.sess.source_map();
        let hi = sm.lookup_char_pos(body.span.hi()).line;
        let _ = write!(s, ",\"line_hi\":{},\"argc\":{}", hi, body.arg_count);
        let _ = write!(s, ",\"const_fn\":{}", kind != DefKind::Closure && tcx.is_const_fn(did));

        // locals
        let mut names: Vec<Option<String>> = vec![None; body.local_decls.len()];
        let mut dbg_extra: Vec<String> = Vec::new();
        for vdi in body.var_debug_info.iter() {
            if let mir::VarDebugInfoContents::Place(p) = &vdi.value {
                if p.projection.is_empty() {
                    names[p.local.as_usize()] = Some(vdi.name.to_string());
                } else {
                    dbg_extra.push(format!(
                        "{{\"name\":{},\"place\":{}}}",
                        js(&vdi.name.to_string()),
                        self.place_json(body, p)
                    ));
                }
            }
        }
        s.push_str(",\"locals\":[");
        for (i, ld) in body.local_decls.iter().enumerate() {
            if i > 0 {
                s.push(',');
            }
            let _ = write!(
                s,
                "{{\"ty\":{},\"name\":{},\"user\":{}}}",
                js(&self.ty_str(ld.ty)),
                opt_js(names[i].clone()),
                names[i].is_some()
            );
        }
        let _ = write!(s, "],\"dbg\":[{}]", dbg_extra.join(","));

        // blocks
        s.push_str(",\"blocks\":[");
        for (bi, (_bb, data)) in body.basic_blocks.iter_enumerated().enumerate() {
            if bi > 0 {
                s.push(',');
            }
            let _ = write!(s, "{{\"cleanup\":{},\"stmts\":[", data.is_cleanup);
            let mut firsts = true;
            for st in data.statements.iter() {
                let j = match &st.kind {
                    StatementKind::Assign(b) => {
                        let (p, r) = &**b;
                        Some(format!(
                            "{{\"k\":\"assign\",\"place\":{},\"rv\":{},\"line\":{}}}",
                            self.place_json(body, p),
                            self.rvalue_json(did, body, r),
                            sm.lookup_char_pos(st.source_info.span.source_callsite().lo()).line
                        ))
                    }
                    StatementKind::SetDiscriminant { place, variant_index } => {
                        let pt = place.ty(&body.local_decls, tcx).ty;
                        let vname = if let ty::Adt(d, _) = pt.kind() {
                            d.variant(*variant_index).name.to_string()
                        } else {
                            String::new()
                        };
                        Some(format!(
                            "{{\"k\":\"setdiscr\",\"place\":{},\"variant\":{}}}",
                            self.place_json(body, place),
                            js(&vname)
                        ))
                    }
                    _ => None,
                };
                if let Some(j) = j {
                    if !firsts {
                        s.push(',');
                    }
                    firsts = false;
                    s.push_str(&j);
                }
            }
            s.push_str("],\"term\":");
            let term = data.terminator();
            let tspan = self.span_json(term.source_info.span);
            let bbn = |b: &mir::BasicBlock| b.as_usize();
            let optbb = |b: &Option<mir::BasicBlock>| match b {
                Some(b) => b.as_usize().to_string(),
                None => "null".to_string(),
            };
            let unwind_bb = |u: &mir::UnwindAction| match u {
                mir::UnwindAction::Cleanup(b) => b.as_usize().to_string(),
                _ => "null".to_string(),
            };
            match &term.kind {
                TerminatorKind::Goto { target } => {
                    let _ = write!(s, "{{\"k\":\"goto\",\"target\":{},\"span\":{}}}", bbn(target), tspan);
                }
                TerminatorKind::SwitchInt { discr, targets } => {
                    let dty = discr.ty(&body.local_decls, tcx);
                    let mut ts = String::new();
                    for (i, (v, b)) in targets.iter().enumerate() {
                        if i > 0 {
                            ts.push(',');
                        }
                        let _ = write!(ts, "[\"{}\",{}]", v, b.as_usize());
                    }
                    let _ = write!(
                        s,
                        "{{\"k\":\"switch\",\"discr\":{},\"dty\":{},\"targets\":[{}],\"otherwise\":{},\"span\":{}}}",
                        self.operand_json(did, body, discr),
                        js(&self.ty_str(dty)),
                        ts,
                        targets.otherwise().as_usize(),
                        tspan
                    );
                }
                TerminatorKind::Return => {
                    let _ = write!(s, "{{\"k\":\"return\",\"span\":{}}}", tspan);
                }
                TerminatorKind::Unreachable => {
                    let _ = write!(s, "{{\"k\":\"unreachable\",\"span\":{}}}", tspan);
                }
                TerminatorKind::UnwindResume => {
                    let _ = write!(s, "{{\"k\":\"resume\",\"span\":{}}}", tspan);
                }
                TerminatorKind::UnwindTerminate(_) => {
                    let _ = write!(s, "{{\"k\":\"terminate\",\"span\":{}}}", tspan);
                }
                TerminatorKind::Drop { place, target, unwind, .. } => {
                    let _ = write!(
                        s,
                        "{{\"k\":\"drop\",\"place\":{},\"target\":{},\"unwind\":{},\"span\":{}}}",
                        self.place_json(body, place),
                        bbn(target),
                        unwind_bb(unwind),
                        tspan
                    );
                }
                TerminatorKind::Call { func, args, destination, target, unwind, .. } => {
                    let fty = func.ty(&body.local_decls, tcx);
                    let mut f = String::new();
                    if let ty::FnDef(cd, cargs) = fty.kind() {
                        let env = ty::TypingEnv::post_analysis(tcx, did);
                        let resolved = ty::Instance::try_resolve(tcx, env, *cd, cargs).ok().flatten();
                        let (rp, rargs, rkind) = match resolved {
                            Some(i) => (
                                Some(self.path(i.def_id())),
                                Some(self.path_args(i.def_id(), i.args)),
                                Some(format!("{:?}", i.def).split('(').next().unwrap_or("").to_string()),
                            ),
                            None => (None, None, None),
                        };
                        let _ = write!(
                            f,
                            "{{\"def\":{},\"written\":{},\"resolved\":{},\"resolved_args\":{},\"ikind\":{},\"local\":{}}}",
                            js(&self.path(*cd)),
                            js(&self.path_args(*cd, cargs)),
                            opt_js(rp),
                            opt_js(rargs),
                            opt_js(rkind),
                            resolved.map(|i| i.def_id().is_local()).unwrap_or(cd.is_local())
                        );
                    } else {
                        let _ = write!(
                            f,
                            "{{\"def\":null,\"indirect\":{},\"fty\":{}}}",
                            self.operand_json(did, body, func),
                            js(&self.ty_str(fty))
                        );
                    }
                    let a: Vec<String> = args.iter().map(|a| self.operand_json(did, body, &a.node)).collect();
                    let _ = write!(
                        s,
                        "{{\"k\":\"call\",\"f\":{},\"args\":[{}],\"dest\":{},\"target\":{},\"unwind\":{},\"span\":{}}}",
                        f,
                        a.join(","),
                        self.place_json(body, destination),
                        optbb(target),
                        unwind_bb(unwind),
                        tspan
                    );
                }
                TerminatorKind::Assert { cond, expected, msg, target, unwind } => {
                    let _ = write!(
                        s,
                        "{{\"k\":\"assert\",\"cond\":{},\"expected\":{},{},\"target\":{},\"unwind\":{},\"span\":{}}}",
                        self.operand_json(did, body, cond),
                        expected,
                        self.assert_kind(did, body, msg),
                        bbn(target),
                        unwind_bb(unwind),
                        tspan
                    );
                }
                TerminatorKind::FalseEdge { real_target, .. } => {
                    let _ = write!(s, "{{\"k\":\"goto\",\"target\":{},\"span\":{}}}", bbn(real_target), tspan);
                }
                TerminatorKind::FalseUnwind { real_target, .. } => {
                    let _ = write!(s, "{{\"k\":\"goto\",\"target\":{},\"span\":{}}}", bbn(real_target), tspan);
                }
                other => {
                    let _ = write!(
                        s,
                        "{{\"k\":\"other\",\"dbg\":{},\"span\":{}}}",
                        js(&format!("{:?}", other).chars().take(80).collect::<String>()),
                        tspan
                    );
                }
            }
            s.push('}');
        }
        s.push_str("]}");
        Some(s)
    }

    fn adts_json(&self) -> String {
        let tcx = self.tcx;
        let mut out: Vec<String> = Vec::new();
        // trait impls by self adt
        let mut impls: std::collections::BTreeMap<String, Vec<String>> = Default::default();
        for (trait_did, impl_ids) in tcx.all_local_trait_impls(()).iter() {
            for imp in impl_ids.iter() {
                let st = tcx.type_of(imp.to_def_id()).instantiate_identity().skip_norm_wip();
                let key = match st.kind() {
                    ty::Adt(d, _) => self.path(d.did()),
                    _ => self.ty_str(st),
                };
                let derived = tcx.is_automatically_derived(imp.to_def_id());
                impls.entry(key).or_default().push(format!(
                    "{{\"trait\":{},\"derived\":{},\"self_ty\":{}}}",
                    js(&self.path(*trait_did)),
                    derived,
                    js(&self.ty_str(st))
                ));
            }
        }
        for id in tcx.hir_crate_items(()).definitions() {
            let k = tcx.def_kind(id);
            if !matches!(k, DefKind::Struct | DefKind::Enum) {
                continue;
            }
            let def = tcx.adt_def(id.to_def_id());
            let p = self.path(id.to_def_id());
            let mut s = format!(
                "{{\"path\":{},\"kind\":{},\"span\":{},\"variants\":[",
                js(&p),
                js(&format!("{:?}", k)),
                self.span_json(tcx.def_span(id))
            );
            let discrs: Vec<(rustc_abi::VariantIdx, String)> = if def.is_enum() {
                def.discriminants(tcx).map(|(vi, d)| (vi, d.val.to_string())).collect()
            } else {
                vec![(rustc_abi::FIRST_VARIANT, "0".to_string())]
            };
            for (i, (vi, d)) in discrs.iter().enumerate() {
                if i > 0 {
                    s.push(',');
                }
                let v = def.variant(*vi);
                let _ = write!(s, "{{\"name\":{},\"discr\":{},\"fields\":[", js(&v.name.to_string()), js(d));
                for (fi, f) in v.fields.iter().enumerate() {
                    if fi > 0 {
                        s.push(',');
                    }
                    let fty = tcx.type_of(f.did).instantiate_identity().skip_norm_wip();
                    let _ = write!(
                        s,
                        "{{\"name\":{},\"ty\":{}}}",
                        js(&f.name.to_string()),
                        js(&self.ty_str(fty))
                    );
                }
                s.push_str("]}");
            }
            s.push_str("],\"impls\":[");
            if let Some(v) = impls.get(&p) {
                s.push_str(&v.join(","));
            }
            s.push_str("]}");
            out.push(s);
        }
        format!("[{}]", out.join(","))
    }
}

struct Cb;

impl Callbacks for Cb {
    fn after_analysis<'tcx>(&mut self, _c: &Compiler, tcx: TyCtxt<'tcx>) -> Compilation {
        let krate = tcx.crate_name(LOCAL_CRATE).to_string();
        let outdir = match std::env::var("OKFACTS_OUT") {
            Ok(d) => d,
            Err(_) => return Compilation::Continue,
        };
        let want: Vec<String> = std::env::var("OKFACTS_CRATES")
            .unwrap_or_else(|_| "okane,okane_core,okane_golden".to_string())
            .split(',')
            .map(|s| s.to_string())
            .collect();
        if !want.contains(&krate) {
            return Compilation::Continue;
        }
        let ex = Ex { tcx };
        let ctypes: Vec<String> = tcx.crate_types().iter().map(|c| format!("{:?}", c)).collect();
        let mut bodies: Vec<String> = Vec::new();
        for def in tcx.hir_body_owners() {
            if let Some(b) = ex.body_json(def) {
                bodies.push(b);
            }
        }
        let n = bodies.len();
        let out = format!(
            "{{\"crate\":{},\"crate_types\":[{}],\"n_bodies\":{},\"adts\":{},\"bodies\":[\n{}\n]}}\n",
            js(&krate),
            ctypes.iter().map(|c| js(c)).collect::<Vec<_>>().join(","),
            n,
            ex.adts_json(),
            bodies.join(",\n")
        );
        let fname = format!("{}/{}-{}.json", outdir, krate, ctypes.join("_").to_lowercase());
        let tmp = format!("{}.tmp{}", fname, std::process::id());
        std::fs::write(&tmp, out).expect("okfacts: cannot write facts");
        std::fs::rename(&tmp, &fname).expect("okfacts: cannot rename facts");
        Compilation::Continue
    }
}

fn main() {
    let mut args: Vec<String> = std::env::args().collect();
    // As RUSTC_WORKSPACE_WRAPPER, argv[1] is the path of the real rustc: drop it.
    if args.len() > 1 && (args[1].ends_with("rustc") || args[1].ends_with("rustc.exe")) {
        args.remove(1);
    }
    rustc_driver::run_compiler(&args, &mut Cb);
}
