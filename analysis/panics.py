"""E3 — panic and divergence surface (DESIGN.md §3 E3) and E2 — recursion cycles.

Enumerates, over a set of bodies, every MIR construct that can panic or diverge by
contract, and tries to discharge each by a structural guard idiom.  What is left must be
in the reviewed table or the known-findings file, else it is a violation.
"""
from collections import namedtuple

from . import mir
from .mir import norm, callee, callee_def, callee_names, prov, guards_at

Inst = namedtuple("Inst", "body bb kind key detail operands")

# callees that panic by contract (normalised def names) -> class
PANIC_CALLS = {
    "std::option::Option::unwrap": "unwrap",
    "std::option::Option::expect": "unwrap",
    "std::result::Result::unwrap": "unwrap",
    "std::result::Result::expect": "unwrap",
    "std::result::Result::unwrap_err": "unwrap",
    "std::result::Result::expect_err": "unwrap",
    "std::option::Option::unwrap_unchecked": "unwrap",
    "core::panicking::panic": "panic",
    "core::panicking::panic_fmt": "panic",
    "core::panicking::panic_explicit": "panic",
    "core::panicking::panic_display": "panic",
    "core::panicking::panic_nounwind": "panic",
    "core::panicking::unreachable_display": "panic",
    "core::panicking::assert_failed": "panic",
    "core::panicking::panic_const::panic_const_div_by_zero": "panic",
    "std::rt::begin_panic": "panic",
    "std::rt::panic_fmt": "panic",
    "core::option::expect_failed": "panic",
    "core::option::unwrap_failed": "panic",
    "core::result::unwrap_failed": "panic",
    "std::ops::Index::index": "index",
    "std::ops::IndexMut::index_mut": "index",
    "core::slice::split_at": "split",
    "core::slice::split_at_mut": "split",
    "core::str::split_at": "split",
    "core::str::split_at_mut": "split",
    "std::cell::RefCell::borrow": "refcell",
    "std::cell::RefCell::borrow_mut": "refcell",
    "std::ops::Div::div": "div",
    "std::ops::Rem::rem": "div",
    "std::ops::DivAssign::div_assign": "div",
    "std::ops::RemAssign::rem_assign": "div",
    "std::vec::Vec::remove": "index",
    "std::vec::Vec::swap_remove": "index",
    "std::vec::Vec::insert": "index",
    "std::vec::Vec::drain": "index",
    "std::vec::Vec::split_off": "index",
    "std::string::String::remove": "index",
    "std::string::String::insert": "index",
    "std::string::String::insert_str": "index",
    "std::string::String::drain": "index",
    "std::string::String::truncate": "index",
    "std::string::String::split_off": "index",
    "std::string::String::replace_range": "index",
    "core::slice::copy_from_slice": "index",
    "core::slice::chunks": "index",
    "core::slice::windows": "index",
    "core::slice::swap": "index",
    "std::iter::Iterator::step_by": "index",
    "std::process::abort": "panic",
    "std::time::Instant::duration_since": "panic",
    "chrono::NaiveDate::from_ymd": "panic",
    "chrono::NaiveDate::succ": "panic",
    "chrono::NaiveDate::pred": "panic",
    "std::ops::Add::add": "arith",
    "std::ops::Sub::sub": "arith",
    "std::ops::Mul::mul": "arith",
    "std::ops::AddAssign::add_assign": "arith",
    "std::ops::SubAssign::sub_assign": "arith",
    "std::ops::MulAssign::mul_assign": "arith",
}
PANIC_CALLS = {norm(k): v for k, v in PANIC_CALLS.items()}


_QUAL = None


def short_callee(name):
    """`<X as a::Trait<U>>::m` -> `Trait::m`; `a::b::T::m` -> `T::m`"""
    global _QUAL
    import re
    if _QUAL is None:
        _QUAL = re.compile(r"^<(.+) as (.+)>::(\w+)$")
    name = name or "?"
    mi = re.search(r"::<impl (.+) for (.+)>::(\w+)$", name)
    if mi:
        tr = mi.group(1).split("<", 1)[0].rsplit("::", 1)[-1]
        return "%s::%s" % (tr, mi.group(3))
    m = _QUAL.match(name)
    if m:
        tr = m.group(2).split("<", 1)[0].rsplit("::", 1)[-1]
        out = "%s::%s" % (tr, m.group(3))
        return {"Ord::max": "cmp::max", "Ord::min": "cmp::min"}.get(out, out)
    segs = name.split("<", 1)[0].split("::") if name.startswith("<") is False else name.split("::")
    out = "::".join(segs[-2:])
    # a.max(b) and cmp::max(a, b) are the same function
    return {"Ord::max": "cmp::max", "Ord::min": "cmp::min"}.get(out, out)


def short_ty(ty):
    """head of a type without module paths: `&mut std::slice::Iter<T>` -> `Iter`"""
    import re
    ty = ty.lstrip("&").replace("mut ", "")
    heads = re.findall(r"([A-Za-z_][A-Za-z0-9_]*)(?=<|$|,|>|\s)", re.sub(r"[a-z_0-9]+::", "", ty))
    return "<".join(heads[:3]) if heads else ty[:30]


def short_root(r):
    if r.kind == "param":
        nm = r.name.split(":", 1)[1]
    elif r.kind == "capture":
        nm = r.name
    elif r.kind == "call":
        nm = short_callee(r.name) + "()"
    elif r.kind == "const":
        nm = str(r.name)
    elif r.kind == "op":
        nm = "op:" + r.name
    elif r.kind == "agg":
        nm = "agg:" + r.name.rsplit("::", 2)[-1] if "::" in r.name else "agg:" + r.name
    else:
        nm = r.kind
    flds = [f for f in r.fields]
    if flds:
        nm += "." + ".".join(flds)
    vias = [v for v in r.via if v not in ("φ",)]
    if vias:
        nm += "~" + "~".join(vias)
    return nm


def short_operand(body, o):
    """stable, line-free description of an operand: user variable name if any, else roots"""
    if o.get("k") == "const":
        if o.get("fn"):
            return "fn:" + norm(o["fn"]).rsplit("::", 1)[-1]
        return str(o.get("repr"))
    pl = o["place"] if "place" in o else o
    l = pl["l"]
    nm = body.local_name(l)
    if nm:
        f = mir.proj_fields(pl)
        return nm + ("." + ".".join(f) if f else "")
    rs = sorted(set(short_root(r) for r in prov(body, o)))
    return "|".join(rs) if rs else "_"


def rootkeys(body, o):
    rs = prov(body, o)
    if any("φ" in r.via for r in rs):
        return frozenset()
    return frozenset((r.kind, r.name, r.fields, r.site if r.kind in ("call", "op", "agg", "discr") else None)
                     for r in rs)


def same_value(body, a, b):
    ka, kb = rootkeys(body, a), rootkeys(body, b)
    return bool(ka) and ka == kb


def is_external_expansion(body):
    """bodies generated by a derive / macro of another crate (serde, strum, clap, thiserror)"""
    if body.derived:
        return True
    if body.exp and body.expcrate and not body.expcrate.startswith("okane"):
        return True
    return False


def term_external_expansion(t):
    sp = t["span"]
    return bool(sp.get("exp")) and bool(sp.get("expcrate")) and not sp["expcrate"].startswith("okane")


def enumerate_sources(P, bodies, include_arith_calls=False):
    """-> list of Inst for assert terminators, panic-capable calls and unbounded ranges"""
    out = []
    for body in bodies:
        if is_external_expansion(body):
            continue
        live = body.live_blocks()
        seen_keys = {}
        def add(bb, kind, desc, detail, operands):
            base = "%s|%s|%s" % (body.key, kind, desc)
            n = seen_keys.get(base, 0) + 1
            seen_keys[base] = n
            key = base if n == 1 else "%s#%d" % (base, n)
            out.append(Inst(body, bb, kind, key, detail, operands))
        for bb in sorted(live):
            t = body.term(bb)
            if t["k"] == "assert":
                kind = t["kind"]
                if kind in ("Misaligned", "NullDeref"):
                    continue  # debug-only pointer checks inserted by rustc
                ops = t.get("ops", [])
                if kind == "Overflow":
                    desc = "%s(%s,%s)" % (t["binop"], short_operand(body, ops[0]), short_operand(body, ops[1]))
                    k = "Overflow"
                elif kind == "BoundsCheck":
                    desc = "[%s]" % short_operand(body, ops[1])
                    k = "BoundsCheck"
                else:
                    desc = "(%s)" % ",".join(short_operand(body, o) for o in ops)
                    k = kind
                add(bb, k, desc, "assert %s at %s" % (kind, body.loc(bb)), ops)
            elif t["k"] == "call":
                names = callee_names(t)
                cls = None
                for n in names:
                    if n in PANIC_CALLS:
                        cls = PANIC_CALLS[n]
                        hit = n
                        break
                if cls is None:
                    continue
                if cls == "arith" and not include_arith_calls:
                    continue
                res = callee(t) or ""
                if cls in ("div", "arith"):
                    # primitive integer division is an Assert, not a call; keep Decimal & co
                    pass
                if cls == "panic":
                    sp = t["span"]
                    macro = (sp.get("exp") or "").split("|")[-1]
                    desc = macro or hit.rsplit("::", 1)[-1]
                else:
                    desc = "%s(%s)" % (hit.rsplit("::", 1)[-1],
                                       ",".join(short_operand(body, a) for a in t["args"]))
                    if cls in ("index", "div", "arith"):
                        a0ty = ""
                        if t["args"] and t["args"][0].get("k") in ("copy", "move"):
                            a0ty = short_ty(body.local_ty(t["args"][0]["place"]["l"]))
                        desc = "%s:%s" % (a0ty, desc)
                add(bb, cls, desc, "call %s at %s" % (res, body.loc(bb)), t["args"])
    return out


# ---------------------------------------------------------------------------
# guard idioms
# ---------------------------------------------------------------------------

ZERO_PREDS = set(norm(x) for x in (
    "rust_decimal::Decimal::is_zero",
    "okane_core::report::eval::amount::Amount::is_zero",
    "okane_core::report::eval::amount::Amount::is_absolute_zero",
    "okane_core::report::eval::evaluated::Evaluated::is_zero",
    "okane_core::report::eval::posting_amount::PostingAmount::is_zero",
))


def _const_int(o):
    if o.get("k") == "const" and "int" in o:
        return o["int"]
    return None


def _cmp_holds(op, label):
    """normalise (op,label) to the relation that holds between l and r"""
    neg = {"Lt": "Ge", "Le": "Gt", "Gt": "Le", "Ge": "Lt", "Eq": "Ne", "Ne": "Eq"}
    if label is True:
        return op
    if label is False:
        return neg[op]
    return None


RISKY_SIZE_WORDS = ("parse", "from_str", "from_str_radix", "try_from", "try_into", "from", "into", "pow",
                    "max_value", "unwrap_or_default", "default", "next_power_of_two", "abs_diff", "to_usize",
                    "to_u64", "to_u32", "mantissa", "scale", "trailing_zeros", "leading_zeros")


def _slice_has_int_cast(body, x, limit=200):
    """an integer-changing cast among the assignments that feed operand x"""
    work = []
    if x.get("k") in ("copy", "move"):
        work.append(x["place"]["l"])
    seen = set()
    while work and len(seen) < limit:
        l = work.pop()
        if l in seen:
            continue
        seen.add(l)
        for kind, bb, idx, dplace, payload in body.defs().get(l, []):
            if kind != "assign":
                continue
            rv = payload
            k = rv["k"]
            if k == "cast":
                if rv.get("kind", "").startswith(("IntToInt", "FloatToInt", "Transmute", "PointerExposeProvenance")):
                    return True
            for o in (rv.get("op"), rv.get("l"), rv.get("r"), rv.get("x")):
                if isinstance(o, dict) and o.get("k") in ("copy", "move"):
                    work.append(o["place"]["l"])
            if "place" in rv:
                work.append(rv["place"]["l"])
            for f in rv.get("fields", []):
                if f["op"].get("k") in ("copy", "move"):
                    work.append(f["op"]["place"]["l"])
    return False


POSITION_CALLS = ("find", "rfind", "position", "rposition", "find_map", "checked_sub")


def _adt_payload_defs(P, adt, variant, field):
    """[(body, operand)] that every construction of adt::variant stores in `field`"""
    out = []
    for b in P.bodies.values():
        for blk in b.blocks:
            if blk["cleanup"]:
                continue
            for st in blk["stmts"]:
                if st["k"] == "assign" and st["rv"]["k"] == "aggregate" and st["rv"].get("agg") == "adt":
                    rv = st["rv"]
                    if norm(rv["adt"]) == adt and rv["variant"] == variant:
                        for f in rv["fields"]:
                            if f["name"] == field:
                                out.append((b, f["op"]))
    return out


def _local_impls(P, name):
    """local impl bodies of an unresolved trait method `Trait::m` (class-hierarchy approximation)"""
    if "::" not in name:
        return []
    tr, m = name.rsplit("::", 1)
    tr = mir.strip_generics(tr)
    out = []
    for b in P.bodies.values():
        if b.impl_trait and not b.is_closure and b.key.rsplit("::", 1)[-1] == m and mir.strip_generics(b.impl_trait) == tr:
            out.append(b)
    return out


SIZE_TRACE = []


def size_like(P, body, x, depth=0, seen=None, suffix=()):
    r = _size_like(P, body, x, depth, seen, suffix)
    if not r and len(SIZE_TRACE) < 40:
        SIZE_TRACE.append("%s: %s %s" % (body.key[-60:], short_operand(body, x), list(suffix)))
    return r


def _size_like(P, body, x, depth=0, seen=None, suffix=()):
    """operand x (or its projection `suffix`) is a small constant or a size/position of in-memory data: the
    result of a length-like call (never of parsing, conversion, a cast or a multiplication), or sums of such
    values (counters, offsets, widths of pieces of one text).  Whole-program and optimistic on cycles: a
    parameter is size-like when every caller passes a size-like argument, the payload of an enum variant when
    every construction of that variant stores one, a local function's result when its return value is one."""
    if seen is None:
        seen = set()
    c = _const_int(x)
    if c is not None:
        return 0 <= c < 1 << 16
    if x.get("k") not in ("copy", "move"):
        return False
    if _slice_has_int_cast(body, x):
        return False
    roots = prov(body, x, suffix=tuple(suffix))
    if not roots:
        return False

    def variant_payload(owner_ty, fields):
        # fields == ('#Variant', 'n'): payload of an enum of the program
        if len(fields) != 2 or not fields[0].startswith("#"):
            return False
        ty = norm(str(owner_ty).lstrip("&").replace("mut ", "").strip())
        ty = ty.split("<")[0]
        if P.adts.get(ty) is None:
            return False
        key = ("adt", ty, fields)
        if key in seen:
            return True
        seen.add(key)
        defs = _adt_payload_defs(P, ty, fields[0][1:], fields[1])
        if not defs:
            return False
        return all(size_like(P, b2, o2, depth + 1, seen) for b2, o2 in defs)

    for r in roots:
        if "neg" in r.via or "not" in r.via:
            return False
        if r.kind == "const":
            v = const_root_int(r)
            if v is None or not (0 <= v < 1 << 16):
                return False
        elif r.kind == "call":
            last = str(r.name).rsplit("::", 1)[-1].split("<")[0]
            if last in RISKY_SIZE_WORDS or last.startswith(("wrapping_", "saturating_", "overflowing_", "unchecked_")):
                return False
            if last == "from_residual" and r.fields and r.fields[0] in ("#Ok", "#Some"):
                continue      # the early-return value of `?` is an Err / None: it has no such payload
            ct = body.term(r.site)
            cbs = [P.bodies[norm(r.name)]] if norm(r.name) in P.bodies else _local_impls(P, norm(r.name))
            if cbs:
                for cb in cbs:
                    key = ("ret", cb.key, r.fields, "?" in r.via)
                    if key in seen:
                        continue
                    seen.add(key)
                    rty = str(cb.local_ty(0))
                    sfx = tuple(r.fields)
                    if "?" in r.via or "unwrap" in r.via or "expect" in r.via:
                        sfx = (("#Some", "0") if "Option<" in rty.split("<")[0] + "<" else ("#Ok", "0")) + sfx
                    if not size_like(P, cb, {"k": "copy", "place": {"l": 0, "p": []}}, depth + 1, seen, sfx):
                        return False
                continue
            dty = short_ty(body.local_ty(ct["dest"]["l"])) if ct.get("dest") else ""
            if not r.fields:
                if dty == "usize":
                    continue
                if last in POSITION_CALLS and dty.startswith(("Option<usize>", "std::option::Option<usize>")):
                    continue
                return False
            if r.fields == ("#Some", "0") and last in POSITION_CALLS:
                continue
            a0 = ct["args"][0] if ct["args"] else None
            a0ty = str(body.local_ty(a0["place"]["l"])) if a0 and a0.get("k") in ("copy", "move") else ""
            if last == "next" and r.fields == ("#Some", "0", "0") and "Enumerate<" in a0ty:
                continue
            return False
        elif r.kind == "op" and r.name in ("Add", "AddWithOverflow") and r.fields in ((), ("0",)):
            key = (body.key, r.site, r.name)
            if key in seen:
                continue
            seen.add(key)
            okop = False
            for st in body.blocks[r.site]["stmts"]:
                if st["k"] == "assign" and st["rv"]["k"] == "binop" and st["rv"]["op"] == r.name:
                    if not (size_like(P, body, st["rv"]["l"], depth, seen) and size_like(P, body, st["rv"]["r"], depth, seen)):
                        return False
                    okop = True
            if not okop:
                return False
        elif r.kind == "param" and not body.is_closure:
            idx = int(str(r.name).split(":")[0])
            if r.fields:
                if not variant_payload(body.local_ty(idx), tuple(r.fields)):
                    return False
                continue
            key = ("param", body.key, idx)
            if key in seen:
                continue
            seen.add(key)
            from . import q as _q
            if _q.value_refs_of(P, body.key) or body.impl_trait:
                return False
            cs = _q.callers_of(P, body.key)
            if not cs:
                return False
            for cb, cbb, ct in cs:
                if len(ct["args"]) != body.argc:
                    return False
                if not size_like(P, cb, ct["args"][idx - 1], depth + 1, seen):
                    return False
        else:
            return False
    return True


def try_discharge(P, inst):
    """-> reason string if a structural guard idiom discharges the instance, else None"""
    body, bb = inst.body, inst.bb
    t = body.term(bb)
    atoms = None

    def get_atoms():
        nonlocal atoms
        if atoms is None:
            atoms = guards_at(body, bb)
        return atoms

    def relations():
        """yield (rel, lop, rop) comparison facts in force at the site"""
        for a in get_atoms():
            if a.kind == "cmp" and len(a.label) == 1:
                op, lr, rr, (lo, ro) = a.subject
                rel = _cmp_holds(op, a.label[0])
                if rel:
                    yield rel, lo, ro
            elif a.kind == "call" and len(a.label) == 1 and isinstance(a.label[0], bool):
                cn, args, site = a.subject
                m = {"std::cmp::PartialOrd::lt": "Lt", "std::cmp::PartialOrd::le": "Le",
                     "std::cmp::PartialOrd::gt": "Gt", "std::cmp::PartialOrd::ge": "Ge",
                     "std::cmp::PartialEq::eq": "Eq", "std::cmp::PartialEq::ne": "Ne"}
                ct = body.term(site)
                for n in callee_names(ct):
                    if n in m and len(ct["args"]) == 2:
                        rel = _cmp_holds(m[n], a.label[0])
                        yield rel, ct["args"][0], ct["args"][1]

    if inst.kind in ("DivisionByZero", "RemainderByZero"):
        # the assert message carries the dividend; the divisor is the lhs of the
        # `Eq(divisor, 0)` that defines the assert condition
        d = None
        cl = mir._operand_local(t["cond"])
        if cl is not None:
            dd = mir.single_def(body, cl)
            if dd and dd[0] == "assign" and dd[4]["k"] == "binop" and dd[4]["op"] == "Eq":
                d = dd[4]["l"]
        if d is None:
            return None
        c = _const_int(d)
        if c is not None and c != 0:
            return "constant non-zero divisor %s" % c
        rs = prov(body, d)
        vals = [const_root_int(r) for r in rs]
        if rs and all(v is not None and v != 0 for v in vals):
            return "constant non-zero divisor"
        for rel, lo, ro in relations():
            if rel == "Ne" and ((same_value(body, lo, d) and _const_int(ro) == 0) or
                                (same_value(body, ro, d) and _const_int(lo) == 0)):
                return "divisor tested != 0 on every path"
        return None

    if inst.kind == "Overflow":
        op = t["binop"]
        l, r = inst.operands
        if op in ("Add", "Sub", "Mul"):
            lv = [const_root_int(x) for x in prov(body, l)]
            rv = [const_root_int(x) for x in prov(body, r)]
            if lv and rv and all(v is not None and abs(v) < 1 << 20 for v in lv + rv):
                if op != "Sub" or min(lv) >= max(rv):
                    return "all reaching operands are small constants %s %s %s" % (sorted(set(lv)), op, sorted(set(rv)))
        if op == "Add" and t.get("lty", inst.lty if hasattr(inst, "lty") else None) in (None, "usize"):
            tyl = None
            for o in (l, r):
                if o.get("k") in ("copy", "move") and not o["place"]["p"]:
                    tyl = short_ty(body.local_ty(o["place"]["l"]))
            if tyl == "usize" and size_like(P, body, l) and size_like(P, body, r):
                return "sum of size-like values (lengths/positions/counters of in-memory data and small constants; no cast, parse or multiplication feeds it)"
        if op == "Sub":
            # max(a, b) - a  (and max(b, a) - a) cannot underflow
            lroots = prov(body, l)
            if lroots and all(x.kind == "call" and (x.name == "std::cmp::max" or str(x.name).endswith("Ord::max") or
                                                   str(x.name).endswith("Ord>::max")) and not x.fields for x in lroots):
                okm = True
                for x in lroots:
                    ct = body.term(x.site)
                    if not any(same_value(body, a, r) for a in ct["args"]):
                        okm = False
                if okm:
                    return "max(a, b) - a"
            # a - b is safe when b <= a holds, or b is const c and a >= c / a > c-1 / a != 0 (c==1)
            cb = _const_int(r)
            for rel, lo, ro in relations():
                if same_value(body, lo, l) and same_value(body, ro, r) and rel in ("Ge", "Gt", "Eq"):
                    return "guarded by %s %s %s" % (short_operand(body, l), rel, short_operand(body, r))
                if same_value(body, lo, r) and same_value(body, ro, l) and rel in ("Le", "Lt", "Eq"):
                    return "guarded by %s %s %s" % (short_operand(body, r), rel, short_operand(body, l))
                if cb is not None:
                    c2 = _const_int(ro)
                    if same_value(body, lo, l) and c2 is not None:
                        if (rel == "Ge" and c2 >= cb) or (rel == "Gt" and c2 >= cb - 1) or \
                           (rel == "Ne" and c2 == 0 and cb == 1) or (rel == "Eq" and c2 >= cb):
                            return "guarded by %s %s %s" % (short_operand(body, l), rel, c2)
                    c1 = _const_int(lo)
                    if same_value(body, ro, l) and c1 is not None:
                        if (rel == "Le" and c1 >= cb) or (rel == "Lt" and c1 >= cb - 1) or \
                           (rel == "Ne" and c1 == 0 and cb == 1):
                            return "guarded by %s %s %s" % (c1, rel, short_operand(body, l))
            # a + p < c guard for c - a  (get_column idiom): lhs of guard is an Add of a
            for rel, lo, ro in relations():
                if rel in ("Lt", "Le") and same_value(body, ro, l):
                    for rt in prov(body, lo):
                        pass
                    lroots = prov(body, lo)
                    if lroots and all(x.kind == "op" and x.name in ("Add", "AddWithOverflow") for x in lroots):
                        # find the Add statement and check one addend is r
                        for x in lroots:
                            blk = body.blocks[x.site]
                            for st in blk["stmts"]:
                                if st["k"] == "assign" and st["rv"]["k"] == "binop" and \
                                        st["rv"]["op"] in ("Add", "AddWithOverflow"):
                                    if same_value(body, st["rv"]["l"], r) or same_value(body, st["rv"]["r"], r):
                                        return "guarded by %s + _ %s %s" % (short_operand(body, r), rel, short_operand(body, l))
            return None
        return None

    if inst.kind == "BoundsCheck":
        ln, idx = inst.operands
        ci = _const_int(idx)
        for rel, lo, ro in relations():
            if same_value(body, lo, idx) and rel == "Lt" and same_value(body, ro, ln):
                return "index < len tested"
        return None

    if inst.kind == "index" and len(inst.operands) == 2:
        # x[..end] / x[start..] / x[a..b] with the bound tested against x.len() on every path
        recv, rng = inst.operands
        parts = None
        if rng.get("k") in ("copy", "move") and not rng["place"]["p"]:
            dd = mir.single_def(body, rng["place"]["l"])
            if dd and dd[0] == "assign" and dd[4]["k"] == "aggregate" and dd[4].get("agg") == "adt":
                nm = norm(dd[4]["adt"]).rsplit("::", 1)[-1].split("<")[0]
                if nm in ("RangeTo", "RangeFrom"):
                    parts = [f["op"] for f in dd[4]["fields"]]

        def strip_bytes(roots):
            return frozenset((r.kind, r.name, r.fields) for r in roots)

        def is_len_of_recv(o):
            if o.get("k") not in ("copy", "move"):
                return False
            d2 = mir.single_def(body, o["place"]["l"])
            if not d2 or d2[0] != "call":
                return False
            ct = d2[4]
            last = (callee(ct) or "").rsplit("::", 1)[-1]
            if last != "len" or not ct["args"]:
                return False
            ra = strip_bytes(r for r in prov(body, ct["args"][0]))
            rb = set()
            for r in prov(body, recv):
                if r.kind == "call" and str(r.name).endswith(("str::as_bytes", "String::as_bytes", "String::as_str")) and r.site is not None:
                    rb |= set(prov(body, body.term(r.site)["args"][0]))
                else:
                    rb.add(r)
            return bool(ra) and ra == strip_bytes(rb)

        if parts and len(parts) == 1:
            for rel, lo, ro in relations():
                if rel in ("Le", "Lt", "Eq") and same_value(body, lo, parts[0]) and is_len_of_recv(ro):
                    return "range bound tested <= len of the indexed value on every path"
                if rel in ("Ge", "Gt", "Eq") and same_value(body, ro, parts[0]) and is_len_of_recv(lo):
                    return "range bound tested <= len of the indexed value on every path"
        return None

    if inst.kind == "div":
        # Decimal (or other overloaded) division: divisor must be tested non-zero
        if len(inst.operands) < 2:
            return None
        d = inst.operands[1]
        for a in get_atoms():
            if a.kind == "call" and len(a.label) == 1 and a.label[0] is False:
                cn, args, site = a.subject
                if cn in ZERO_PREDS:
                    ct = body.term(site)
                    if ct["args"] and same_root_loose(body, ct["args"][0], d):
                        return "divisor tested !is_zero() on every path"
                    if ct["args"] and root_prefix(body, ct["args"][0], d):
                        return "value containing the divisor tested !%s() on every path" % cn.rsplit("::", 1)[-1]
        # the divisor is one of several values (`let (from, to) = if .. {(a, b)} else {(b, a)}`): each of them is tested
        droots = set((r.kind, r.name, r.fields) for r in prov(body, d))
        tested = set()
        for a in get_atoms():
            if a.kind == "call" and len(a.label) == 1 and a.label[0] is False and a.subject[0] in ZERO_PREDS:
                ct = body.term(a.subject[2])
                if ct["args"]:
                    rs = set((r.kind, r.name, r.fields) for r in prov(body, ct["args"][0]))
                    if len(rs) == 1:
                        tested |= rs
        if droots and droots <= tested:
            return "every value the divisor can be is tested !is_zero() on every path"
        return None

    if inst.kind == "unwrap":
        x = inst.operands[0]
        for a in get_atoms():
            if a.kind == "call" and len(a.label) == 1:
                cn, args, site = a.subject
                ct = body.term(site)
                if not ct["args"]:
                    continue
                if cn == "std::option::Option::is_some" and a.label[0] is True and same_root_loose(body, ct["args"][0], x):
                    return "is_some() tested"
                if cn == "std::option::Option::is_none" and a.label[0] is False and same_root_loose(body, ct["args"][0], x):
                    return "!is_none() tested"
                if cn == "std::result::Result::is_ok" and a.label[0] is True and same_root_loose(body, ct["args"][0], x):
                    return "is_ok() tested"
        return None
    return None


_CONST_INT = None


def const_root_int(r):
    """integer value of a const Root such as `3_usize`, `-1_i128`, `'0'`; None otherwise"""
    global _CONST_INT
    import re
    if _CONST_INT is None:
        _CONST_INT = re.compile(r"^(?:const )?(-?\d+)(?:_(?:[iu](?:size|\d+)))?$")
    if r.kind != "const" or r.fields:
        return None
    m = _CONST_INT.match(str(r.name))
    if not m:
        return None
    v = int(m.group(1))
    if "neg" in r.via:
        v = -v
    return v


def root_prefix(body, tested, part):
    """every root of `part` is a root of `tested` extended by further field projections"""
    kt = set((r.kind, r.name, r.fields) for r in prov(body, tested))
    kp = set((r.kind, r.name, r.fields) for r in prov(body, part))
    if not kt or not kp:
        return False
    for (k, n, f) in kp:
        if not any(k == k2 and n == n2 and f[:len(f2)] == f2 for (k2, n2, f2) in kt):
            return False
    return True


def same_root_loose(body, a, b):
    """same underlying object, ignoring reference/deref/clone transparency"""
    ka = frozenset((r.kind, r.name, r.fields) for r in prov(body, a))
    kb = frozenset((r.kind, r.name, r.fields) for r in prov(body, b))
    return bool(ka) and ka == kb


# ---------------------------------------------------------------------------
# divergence: unbounded ranges and loops
# ---------------------------------------------------------------------------

FINITE_ITER_MARKERS = (
    "std::slice::Iter", "std::slice::IterMut", "std::vec::IntoIter", "std::collections::hash_map::",
    "std::collections::hash_set::", "std::str::Chars", "std::str::Bytes", "std::str::Lines",
    "std::str::CharIndices", "std::ops::Range<", "std::ops::RangeInclusive<", "std::path::Components",
    "std::option::IntoIter", "std::option::Iter", "std::collections::btree_map::",
    "std::collections::btree_set::", "std::collections::binary_heap::", "std::str::Split",
    "std::str::SplitWhitespace", "std::iter::Once", "std::iter::Empty", "std::array::IntoIter",
    "bumpalo::collections::vec::IntoIter", "bumpalo::collections::vec::Drain", "std::vec::Drain",
    "csv::StringRecordsIter", "csv::StringRecordIter", "serde_yaml::Deserializer", "either::Either",
    "glob::Paths",          # a directory walk: finitely many entries
)
UNBOUNDED_ITER_MARKERS = ("std::ops::RangeFrom<", "std::iter::Repeat<", "std::iter::RepeatWith<",
                          "std::iter::Successors<", "std::iter::Cycle<", "std::iter::FromFn<")


def range_from_sources(P, bodies):
    """calls whose receiver type mentions an unbounded std iterator"""
    out = []
    for body in bodies:
        if is_external_expansion(body):
            continue
        for bb, t in body.calls():
            if not t["args"]:
                continue
            a0 = t["args"][0]
            if a0.get("k") not in ("copy", "move"):
                continue
            ty = body.local_ty(a0["place"]["l"])
            if any(m in ty for m in UNBOUNDED_ITER_MARKERS):
                cd = callee_def(t) or ""
                if not cd.startswith("std::iter::Iterator::") and "IntoIterator" not in cd:
                    continue
                meth = cd.rsplit("::", 1)[-1]
                if meth in ("into_iter", "map", "filter", "enumerate", "zip", "skip", "take_while", "by_ref", "rev"):
                    # adaptor: the result type still mentions the unbounded iterator; the
                    # consuming call is what matters
                    continue
                if meth in ("take",):
                    continue
                key = "%s|unbounded-iter|%s" % (body.key, meth)
                out.append(Inst(body, bb, "unbounded-iter", key,
                                "%s over %s at %s" % (meth, ty, body.loc(bb)), t["args"]))
    return out


def loop_sources(P, bodies):
    """natural loops; each classified by the exit condition.

    auto-discharged: every exit edge of the loop leaves on the `None` arm of a `next()` of
    an iterator whose type is built from finite std iterators only.
    """
    out = []
    for body in bodies:
        if is_external_expansion(body):
            continue
        loops = body.loops()
        seen_lk = {}
        for header in sorted(loops):
            blocks = loops[header]
            first_iter_ty = None
            # find next() calls inside the loop whose None arm exits the loop
            finite = False
            why = ""
            for bb in sorted(blocks):
                t = body.term(bb)
                if t["k"] != "call":
                    continue
                cd = callee_def(t)
                if cd != "std::iter::Iterator::next" or not t["args"]:
                    continue
                a0 = t["args"][0]
                if a0.get("k") not in ("copy", "move"):
                    continue
                ity = body.local_ty(a0["place"]["l"])
                # the switch on the result
                nxt = t["target"]
                if nxt is None:
                    continue
                # follow to the switch block (may be the next block)
                sw = nxt
                hops = 0
                while body.term(sw)["k"] == "goto" and hops < 3:
                    sw = body.term(sw)["target"]
                    hops += 1
                ds = mir.describe_switch(body, sw)
                if not ds or ds[0] != "variant":
                    continue
                exits_on_none = False
                for tb, labs in ds[2].items():
                    if "None" in labs and tb not in blocks:
                        exits_on_none = True
                if not exits_on_none:
                    continue
                if first_iter_ty is None:
                    first_iter_ty = ity
                if any(m in ity for m in UNBOUNDED_ITER_MARKERS):
                    why = "iterator type mentions an unbounded source: " + ity
                    continue
                if iter_type_finite(P, ity):
                    finite = True
                    why = "exits on None of next() over " + ity[:120]
                    break
                else:
                    why = "iterator type not known finite: " + ity[:160]
            lk = "next:" + short_ty(first_iter_ty) if first_iter_ty else "plain"
            seen_lk[lk] = seen_lk.get(lk, 0) + 1
            if seen_lk[lk] > 1:
                lk += "#%d" % seen_lk[lk]
            key = "%s|loop|%s" % (body.key, lk)
            out.append((Inst(body, header, "loop", key, "loop at %s: %s" % (body.loc(header), why), []),
                        why if finite else None))
    return out


def iter_type_finite(P, ty):
    ty = ty.lstrip("&").replace("mut ", "")
    if any(m in ty for m in UNBOUNDED_ITER_MARKERS):
        return False
    # every concrete iterator mentioned must be a finite std source or a std adaptor
    heads = ("std::iter::", "std::slice::", "std::vec::", "std::str::", "std::collections::",
             "std::ops::Range", "std::path::", "std::option::", "std::array::", "bumpalo::collections::",
             "csv::", "serde_yaml::", "either::", "glob::")
    if ty.startswith(heads):
        if ty.startswith("std::iter::"):
            return any(m in ty for m in FINITE_ITER_MARKERS)
        return any(ty.startswith(m) or m in ty for m in FINITE_ITER_MARKERS)
    # local iterator ADTs: finite if every field type that is an iterator is finite
    base = ty.split("<", 1)[0]
    adt = P.adts.get(base)
    if adt:
        for v in adt["variants"]:
            for f in v["fields"]:
                fty = norm(f["ty"])
                if any(m in fty for m in UNBOUNDED_ITER_MARKERS):
                    return False
        for v in adt["variants"]:
            for f in v["fields"]:
                fty = norm(f["ty"])
                if any(m in fty for m in FINITE_ITER_MARKERS):
                    return True
    return False
