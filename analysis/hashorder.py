"""E4 — hash-order flow (DESIGN.md §3 E4).

Finds every place where the iteration order of a std HashMap / HashSet enters the program
(an *origin*), follows the iterator value along the typed adaptor chain to its *consumer*,
and fingerprints the consumer (kind + the calls made per element), so that the rule file can
classify it as order-insensitive (checked idiom / reviewed table entry) or report it.
"""
import re
from collections import namedtuple

from . import mir
from .mir import norm, callee, callee_def, callee_names
from .panics import short_callee, short_ty, is_external_expansion

HASH_ITER_RE = re.compile(
    r"std::collections::hash_(map|set)::(Iter|IterMut|Keys|Values|ValuesMut|IntoIter|IntoKeys|IntoValues|Drain|"
    r"Difference|Intersection|Union|SymmetricDifference|ExtractIf)\b")

ADAPTORS = {
    "map", "filter", "filter_map", "enumerate", "zip", "skip", "take", "chain", "rev", "cloned",
    "copied", "by_ref", "peekable", "flat_map", "flatten", "inspect", "skip_while", "take_while",
    "map_while", "step_by", "fuse", "scan", "into_iter", "iter",
}
# consumers whose result cannot depend on the order of a finite sequence (pure closures assumed,
# and the closure's own calls are part of the fingerprint)
ORDER_FREE = {"all", "any", "count", "sum", "product", "min", "max", "len", "is_empty"}

Origin = namedtuple("Origin", "body bb callee_name dest_ty")
Consumer = namedtuple("Consumer", "kind bb detail fingerprint")


def hash_adts(P):
    """local ADTs that (transitively) contain a std hash iterator"""
    out = set()
    changed = True
    while changed:
        changed = False
        for key, a in P.adts.items():
            if key in out:
                continue
            for v in a["variants"]:
                for f in v["fields"]:
                    t = norm(f["ty"])
                    if HASH_ITER_RE.search(t) or any(k in t for k in out):
                        out.add(key)
                        changed = True
                        break
    return out


def is_hash_ty(ty, adts):
    if not ty:
        return False
    if HASH_ITER_RE.search(ty):
        return True
    return any(k in ty for k in adts)


def operand_ty(body, o):
    if o.get("k") in ("copy", "move"):
        if o["place"]["p"]:
            return ""
        return body.local_ty(o["place"]["l"])
    return norm(o.get("ty", ""))


def origins(P, bodies, adts):
    out = []
    for b in bodies:
        if is_external_expansion(b):
            continue
        for bb, t in b.calls():
            d = t["dest"]
            if d["p"]:
                continue
            dty = b.local_ty(d["l"])
            cd = callee_def(t) or ""
            if cd == "std::collections::HashMap::retain" or cd == "std::collections::HashSet::retain":
                out.append(Origin(b, bb, short_callee(callee(t)), "retain"))
                continue
            if not is_hash_ty(dty, adts):
                continue
            if any(is_hash_ty(operand_ty(b, a), adts) for a in t["args"]):
                continue  # adaptor over an already hash-ordered iterator
            out.append(Origin(b, bb, short_callee(callee(t)), dty))
    return out


TRIVIAL_CALLS = {
    "std::iter::Iterator::next", "std::iter::IntoIterator::into_iter", "std::ops::Deref::deref",
    "std::ops::DerefMut::deref_mut", "std::clone::Clone::clone", "std::convert::AsRef::as_ref",
    "std::borrow::Borrow::borrow", "std::convert::Into::into", "std::convert::From::from",
}


def effect_fingerprint(P, body, blocks, depth=0):
    """sorted set of short callee names invoked in `blocks` (+ closures they pass), plus
    '?' when the region can leave through a `?` / return"""
    fp = set()
    for bb in sorted(blocks):
        blk = body.blocks[bb]
        if blk["cleanup"]:
            continue
        t = blk["term"]
        if t["k"] == "call":
            cd = callee_def(t)
            if cd is None:
                fp.add("<indirect>")
            elif cd in TRIVIAL_CALLS:
                pass
            elif cd.startswith("core::fmt::rt::") or cd.startswith("std::fmt::Arguments"):
                fp.add("fmt")
            elif cd.startswith("log::") :
                fp.add("log")
            elif cd == "std::ops::Try::branch":
                pass
            elif cd == "std::ops::FromResidual::from_residual":
                fp.add("?")
            else:
                fp.add(short_callee(callee(t)))
            if depth < 2:
                for a in t["args"]:
                    if a.get("k") == "const" and a.get("closure"):
                        cb = P.bodies.get(norm(a["closure"]))
                        if cb:
                            fp |= set("λ" + x for x in effect_fingerprint(P, cb, cb.live_blocks(), depth + 1))
        elif t["k"] == "return":
            fp.add("return")
        for st in blk["stmts"]:
            if st["k"] == "assign" and st["rv"]["k"] == "aggregate" and st["rv"].get("agg") == "closure" and depth < 2:
                cb = P.bodies.get(norm(st["rv"]["closure"]))
                if cb:
                    fp |= set("λ" + x for x in effect_fingerprint(P, cb, cb.live_blocks(), depth + 1))
    return fp


def early_exits(body, blocks, next_bb):
    """markers for ways a loop can be left other than on the None of its controlling next():
    'exit' for any such edge, '?' when that exit runs a from_residual (error propagation),
    'return-in-loop' when it reaches Return without re-entering"""
    out = set()
    # the None exit: the switch block after next_bb
    sw = body.term(next_bb)["target"]
    hops = 0
    while sw is not None and body.term(sw)["k"] == "goto" and hops < 3:
        sw = body.term(sw)["target"]
        hops += 1
    none_targets = set()
    ds = mir.describe_switch(body, sw) if sw is not None else None
    if ds and ds[0] == "variant":
        for tb, labs in ds[2].items():
            if "None" in labs:
                none_targets.add((sw, tb))
    for u in blocks:
        for v in body.succs(u):
            if v in blocks or (u, v) in none_targets:
                continue
            if body.term(v)["k"] == "unreachable":
                continue
            out.add("exit")
            # what does the exit do before leaving the function / rejoining
            seen = set()
            stack = [v]
            while stack:
                x = stack.pop()
                if x in seen or x in blocks or len(seen) > 40:
                    continue
                seen.add(x)
                t = body.term(x)
                if t["k"] == "call" and callee_def(t) == "std::ops::FromResidual::from_residual":
                    out.add("?")
                stack.extend(body.succs(x))
    return out


def follow(P, body, origin_bb, adts):
    """-> list of Consumer for the iterator produced at origin_bb"""
    t0 = body.term(origin_bb)
    consumers = []
    carriers = set()
    work = []
    if t0["dest"]["p"]:
        return [Consumer("stored-in-place", origin_bb, "destination is a projection", ())]
    work.append(t0["dest"]["l"])
    loops = body.loops()
    seen_calls = set()
    while work:
        l = work.pop()
        if l in carriers:
            continue
        carriers.add(l)
        if l == 0:
            consumers.append(Consumer("returned", origin_bb, "returned to the caller as " + short_ty(body.local_ty(0)), ()))
            continue
        for i, blk in enumerate(body.blocks):
            if blk["cleanup"]:
                continue
            for st in blk["stmts"]:
                if st["k"] != "assign":
                    continue
                rv = st["rv"]
                src = None
                if rv["k"] in ("use", "cast") and rv["op"].get("k") in ("copy", "move"):
                    src = rv["op"]["place"]
                elif rv["k"] in ("ref", "copyforderef", "rawptr"):
                    src = rv["place"]
                if src is not None and src["l"] == l:
                    work.append(st["place"]["l"])
                if rv["k"] == "aggregate":
                    for f in rv["fields"]:
                        o = f["op"]
                        if o.get("k") in ("copy", "move") and o["place"]["l"] == l:
                            work.append(st["place"]["l"])
            t = blk["term"]
            if t["k"] != "call" or i == origin_bb and l == t0["dest"]["l"] and False:
                continue
            uses = [k for k, a in enumerate(t["args"]) if a.get("k") in ("copy", "move") and a["place"]["l"] == l]
            if not uses or (i, l) in seen_calls:
                continue
            seen_calls.add((i, l))
            cd = callee_def(t) or "<indirect>"
            meth = cd.rsplit("::", 1)[-1]
            is_iter_trait = cd.startswith("std::iter::Iterator::") or cd.startswith("std::iter::IntoIterator::") \
                or cd.startswith("std::iter::DoubleEndedIterator::")
            dty = body.local_ty(t["dest"]["l"]) if not t["dest"]["p"] else ""
            if is_iter_trait and meth in ADAPTORS and meth != "next":
                work.append(t["dest"]["l"])
                if meth in ("enumerate", "zip", "skip", "take", "rev", "step_by", "skip_while", "take_while", "scan", "peekable"):
                    consumers.append(Consumer("positional-adaptor", i, meth, (meth,)))
                continue
            if cd == "std::iter::Iterator::next":
                # for-loop?  the loop containing this block that is left on None
                inloop = [h for h, blks in loops.items() if i in blks]
                if inloop:
                    h = max(inloop, key=lambda h: -len(loops[h]))  # innermost = smallest
                    h = min(inloop, key=lambda h: len(loops[h]))
                    fp = effect_fingerprint(P, body, loops[h])
                    fp |= early_exits(body, loops[h], i)
                    consumers.append(Consumer("for", i, "for-loop at " + body.loc(h), tuple(sorted(fp))))
                else:
                    consumers.append(Consumer("next-once", i, "first element taken", ()))
                continue
            if is_hash_ty(dty, adts) and not is_iter_trait:
                # wrapper constructor / local adaptor: keep following
                work.append(t["dest"]["l"])
                continue
            # a real consumer
            fp = set()
            for a in t["args"]:
                if a.get("k") == "const" and a.get("closure"):
                    cb = P.bodies.get(norm(a["closure"]))
                    if cb:
                        fp |= effect_fingerprint(P, cb, cb.live_blocks(), 1)
                elif a.get("k") in ("copy", "move") and not a["place"]["p"]:
                    # closure stored in a local
                    d = mir.single_def(body, a["place"]["l"])
                    if d and d[0] == "assign" and d[4]["k"] == "aggregate" and d[4].get("agg") == "closure":
                        cb = P.bodies.get(norm(d[4]["closure"]))
                        if cb:
                            fp |= effect_fingerprint(P, cb, cb.live_blocks(), 1)
            detail = meth
            if meth == "collect" or meth == "from_iter" or meth == "extend":
                detail = "%s->%s" % (meth, short_ty(dty) if dty else "?")
            consumers.append(Consumer("call:" + short_callee(callee(t) or cd), i, detail, tuple(sorted(fp))))
    if not consumers:
        consumers.append(Consumer("unused", origin_bb, "iterator never consumed", ()))
    return consumers
