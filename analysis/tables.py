"""E5 — decision tables over finite domains (DESIGN.md §3 E5).

A small function's loop-free paths are enumerated with the decisions (switch atoms) each one
took; a rule supplies (a) the finite domain, (b) how to evaluate an atom at a domain point and
(c) the specified outcome.  Every point must be covered by paths that all give the specified
outcome; an atom the rule cannot interpret fails closed.
"""
import itertools

from . import mir
from .mir import prov

FREE = object()      # atom does not constrain the point (drop flags etc.)
UNKNOWN = None       # atom cannot be interpreted by the rule -> fail closed


def weak_orderings(symbols):
    """all weak orderings of symbols as dicts symbol -> dense rank"""
    n = len(symbols)
    seen = set()
    out = []
    for ranks in itertools.product(range(n), repeat=n):
        dense = {r: i for i, r in enumerate(sorted(set(ranks)))}
        canon = tuple(dense[r] for r in ranks)
        if canon in seen:
            continue
        seen.add(canon)
        out.append(dict(zip(symbols, canon)))
    return out


def is_flag_atom(atom):
    """switch on a compiler-made flag (all reaching definitions are boolean constants)"""
    if atom.kind == "const":
        return True
    if atom.kind in ("bool", "int"):
        rs = atom.subject
        return bool(rs) and all(r.kind == "const" and str(r.name) in ("true", "false") for r in rs)
    return False


def outcome_const(body, path):
    sh = path.shape
    if sh is None:
        return "unit"
    return mir.shape_str(body, sh)


class TableResult:
    def __init__(self):
        self.points = 0
        self.bad = []          # (point, message)
        self.paths = 0


def decide(body, points, value_of, spec, outcome_of=None, limit=4000, max_visits=1):
    """value_of(atom, point) -> actual label (e.g. 'Some', True), FREE, or UNKNOWN
    spec(point) -> expected outcome, or a set of allowed outcomes, or None for don't-care"""
    res = TableResult()
    try:
        paths = mir.enumerate_paths(body, limit=limit, max_visits=max_visits)
    except mir.TooManyPaths:
        res.bad.append((None, "function not analysable: more than %d paths" % limit))
        return res
    res.paths = len(paths)
    outcome_of = outcome_of or (lambda p: outcome_const(body, p))
    for pt in points:
        res.points += 1
        want = spec(pt)
        if want is None:
            continue
        matching = []
        unknown = None
        for p in paths:
            ok = True
            for a in p.atoms:
                if is_flag_atom(a):
                    continue
                v = value_of(a, pt)
                if v is FREE:
                    continue
                if v is UNKNOWN:
                    unknown = a
                    ok = False
                    break
                if v not in a.label:
                    ok = False
                    break
            if unknown is not None:
                break
            if ok:
                matching.append(p)
        if unknown is not None:
            res.bad.append((pt, "unrecognised decision in %s at %s: %s %s"
                            % (body.key.rsplit("::", 1)[-1], body.loc(unknown.bb), unknown.kind, describe_subject(unknown))))
            break
        if not matching:
            res.bad.append((pt, "no path covers this case"))
            continue
        outs = set(outcome_of(p) for p in matching)
        allowed = want if isinstance(want, (set, frozenset)) else {want}
        if not outs <= allowed:
            res.bad.append((pt, "outcome %s, specified %s" % (sorted(outs), sorted(allowed))))
    return res


def describe_subject(atom):
    s = atom.subject
    if atom.kind == "variant":
        return "|".join(sorted(mir.show_root(r) for r in s))
    if atom.kind == "call":
        return "%s(%s)" % (s[0], ", ".join("|".join(sorted(mir.show_root(r) for r in a)) for a in s[1]))
    if atom.kind == "cmp":
        return "%s(%s, %s)" % (s[0], "|".join(sorted(mir.show_root(r) for r in s[1])),
                               "|".join(sorted(mir.show_root(r) for r in s[2])))
    try:
        return "|".join(sorted(mir.show_root(r) for r in s))
    except Exception:
        return str(s)


def sym_of(roots, mapping):
    """map a root set to a symbol via mapping: list of (predicate(root) -> bool, symbol)"""
    syms = set()
    for r in roots:
        hit = None
        for pred, s in mapping:
            if pred(r):
                hit = s
                break
        if hit is None:
            return None
        syms.add(hit)
    if len(syms) == 1:
        return syms.pop()
    return None


CMP_CALLS = {
    "std::cmp::PartialOrd::lt": lambda a, b: a < b,
    "std::cmp::PartialOrd::le": lambda a, b: a <= b,
    "std::cmp::PartialOrd::gt": lambda a, b: a > b,
    "std::cmp::PartialOrd::ge": lambda a, b: a >= b,
    "std::cmp::PartialEq::eq": lambda a, b: a == b,
    "std::cmp::PartialEq::ne": lambda a, b: a != b,
}
CMP_OPS = {
    "Lt": lambda a, b: a < b, "Le": lambda a, b: a <= b, "Gt": lambda a, b: a > b,
    "Ge": lambda a, b: a >= b, "Eq": lambda a, b: a == b, "Ne": lambda a, b: a != b,
}


def cmp_value(body, atom, sym, rank):
    """evaluate a comparison atom given sym(rootset)->symbol and rank(symbol)->int; UNKNOWN if not a
    comparison of two known symbols"""
    if atom.kind == "call":
        cn, args, site = atom.subject
        t = body.term(site)
        f = None
        for n in mir.callee_names(t):
            if n in CMP_CALLS:
                f = CMP_CALLS[n]
        # a trait-resolved impl (e.g. <NaiveDate as PartialOrd>::lt) still has the trait def name
        if f is None:
            return UNKNOWN
        if len(args) != 2:
            return UNKNOWN
        a, b = sym(args[0]), sym(args[1])
        if a is None or b is None:
            return UNKNOWN
        ra, rb = rank(a), rank(b)
        if ra is None or rb is None:
            return UNKNOWN
        return f(ra, rb)
    if atom.kind == "cmp":
        op, lr, rr, _ = atom.subject
        a, b = sym(lr), sym(rr)
        if a is None or b is None:
            return UNKNOWN
        ra, rb = rank(a), rank(b)
        if ra is None or rb is None:
            return UNKNOWN
        return CMP_OPS[op](ra, rb)
    return UNKNOWN


# ---------------------------------------------------------------------------
# boolean store tables: value of a bool operand per finite valuation of symbols
# ---------------------------------------------------------------------------

class Unknown(Exception):
    pass


def eval_bool(body, x, env, sym, at_bb=None, depth=0):
    """Value (True/False) of boolean operand/place `x` under env (symbol -> bool), where
    sym(root) names the symbolic inputs.  A local with several definitions takes the definition
    whose guards (switch decisions that dominate it) are consistent with env; inconsistent or
    uninterpretable shapes raise Unknown (callers fail closed)."""
    if depth > 20:
        raise Unknown("too deep")
    if x.get("k") == "const":
        if "int" in x:
            return bool(x["int"])
        raise Unknown("non-integer constant")
    place = x["place"] if x.get("k") in ("copy", "move") else x
    rs = prov(body, place)
    if rs and all(sym(r) is not None for r in rs) and len(set(sym(r) for r in rs)) == 1 and \
            not any(set(r.via) - {"φ"} for r in rs):
        s = sym(next(iter(rs)))
        if s in env:
            return env[s]
    l = place["l"]
    if place["p"]:
        raise Unknown("projection on a computed place: %s" % sorted(mir.show_root(r) for r in rs))
    defs = [d for d in body.defs().get(l, []) if not d[3]["p"]]
    vals = set()
    for dk, dbb, di, dpl, payload in defs:
        if not guards_consistent(body, dbb, env, sym):
            continue
        if dk != "assign":
            raise Unknown("value produced by a call: %s" % (mir.callee(payload) or "?"))
        vals.add(eval_rvalue(body, payload, env, sym, dbb, depth + 1))
    if len(vals) != 1:
        raise Unknown("no single consistent definition (%d candidates)" % len(vals))
    return vals.pop()


def eval_rvalue(body, rv, env, sym, at_bb=None, depth=0):
    k = rv["k"]
    if k == "use":
        return eval_bool(body, rv["op"], env, sym, at_bb, depth + 1)
    if k == "unop" and rv["op"] == "Not":
        return not eval_bool(body, rv["x"], env, sym, at_bb, depth + 1)
    if k == "binop" and rv["op"] in ("BitOr", "BitAnd", "BitXor", "Eq", "Ne"):
        a = eval_bool(body, rv["l"], env, sym, at_bb, depth + 1)
        b = eval_bool(body, rv["r"], env, sym, at_bb, depth + 1)
        return {"BitOr": a or b, "BitAnd": a and b, "BitXor": a != b, "Eq": a == b, "Ne": a != b}[rv["op"]]
    raise Unknown("unrecognised boolean rvalue %s" % k)


def guards_consistent(body, bb, env, sym):
    """every *interpretable* switch decision that dominates bb agrees with env"""
    for a in mir.guards_at(body, bb):
        if is_flag_atom(a):
            continue
        if a.kind == "bool":
            ss = set(sym(r) for r in a.subject)
            if len(ss) == 1 and None not in ss:
                s = ss.pop()
                if s in env and env[s] not in a.label:
                    return False
    return True
