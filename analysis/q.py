"""Small query helpers shared by the rule files (E6 / E7 templates)."""
from . import mir
from .mir import norm, callee, callee_def, callee_names, prov, guards_at


def not_test(b):
    return "::tests::" not in b.key and "::testing::" not in b.key


def aggregates_of(P, adt, variant=None):
    """[(body, bb, stmt_index, rvalue)] building a value of ADT (normalised path)"""
    out = []
    for b in P.bodies.values():
        for i, blk in enumerate(b.blocks):
            if blk["cleanup"]:
                continue
            for j, st in enumerate(blk["stmts"]):
                if st["k"] == "assign" and st["rv"]["k"] == "aggregate" and st["rv"].get("agg") == "adt":
                    if norm(st["rv"]["adt"]) == adt and (variant is None or st["rv"]["variant"] == variant):
                        out.append((b, i, j, st["rv"]))
    return out


def ctor_value_refs(P, adt):
    """[(body, bb, variant name)]: bodies that mention a tuple-variant / tuple-struct constructor of ADT as a function
    value (`Exchange::Rate` handed on as `fn(..) -> Exchange`): calling that value builds the ADT, so a who-may-construct
    rule has to count the mention as a construction site."""
    a = P.adts.get(adt)
    if not a:
        return []
    names = {adt + "::" + v["name"]: v["name"] for v in a.get("variants", []) if v.get("name")}
    names[adt] = None
    out = []
    for b in P.bodies.values():
        for bb, o in b.iter_operands():
            if o.get("k") == "const" and (o.get("fn") or o.get("fn_resolved")):
                for n in (norm(o.get("fn")), norm(o.get("fn_resolved"))):
                    if n in names:
                        out.append((b, bb, names[n]))
                        break
    return out


def callers_of(P, key):
    """[(body, bb, term)] of direct calls resolved (or declared) to key"""
    out = []
    for b in P.bodies.values():
        for bb, t in b.calls(live_only=False):
            if key in callee_names(t):
                out.append((b, bb, t))
    return out


def value_refs_of(P, key):
    """bodies that mention fn `key` as a value (passed as a function item)"""
    out = []
    for b in P.bodies.values():
        for bb, o in b.iter_operands():
            if o.get("k") == "const" and key in (norm(o.get("fn")), norm(o.get("fn_resolved"))):
                out.append((b, bb))
    return out


def rel_in_force(body, bb):
    """comparison facts [(rel, lop, rop)] that hold on every path to bb"""
    from .panics import _cmp_holds
    out = []
    for a in guards_at(body, bb):
        if a.kind == "cmp" and len(a.label) == 1:
            op, lr, rr, (lo, ro) = a.subject
            rel = _cmp_holds(op, a.label[0])
            if rel:
                out.append((rel, lo, ro))
        elif a.kind == "call" and len(a.label) == 1 and isinstance(a.label[0], bool):
            cn, args, site = a.subject
            m = {"std::cmp::PartialOrd::lt": "Lt", "std::cmp::PartialOrd::le": "Le",
                 "std::cmp::PartialOrd::gt": "Gt", "std::cmp::PartialOrd::ge": "Ge",
                 "std::cmp::PartialEq::eq": "Eq", "std::cmp::PartialEq::ne": "Ne"}
            ct = body.term(site)
            for n in callee_names(ct):
                if n in m and len(ct["args"]) == 2:
                    out.append((_cmp_holds(m[n], a.label[0]), ct["args"][0], ct["args"][1]))
    return out


def guard_calls(body, bb):
    """[(callee, label, call_term)] boolean-call atoms in force at bb"""
    out = []
    for a in guards_at(body, bb):
        if a.kind == "call" and len(a.label) == 1 and isinstance(a.label[0], bool):
            cn, args, site = a.subject
            out.append((cn, a.label[0], body.term(site)))
    return out


def variant_guards(body, bb):
    """[(roots_of_scrutinee, labels)] discriminant atoms in force at bb"""
    return [(a.subject, a.label) for a in guards_at(body, bb) if a.kind == "variant"]


def root_names(body, x):
    return set((r.kind, r.name, r.fields) for r in prov(body, x))


def has_root(body, x, kind, name=None, fields=None):
    for r in prov(body, x):
        if r.kind != kind:
            continue
        if name is not None and r.name != name and not (kind == "param" and r.name.split(":", 1)[-1] == name):
            continue
        if fields is not None and tuple(r.fields) != tuple(fields):
            continue
        return True
    return False


def all_roots(body, x, pred):
    rs = prov(body, x)
    return bool(rs) and all(pred(r) for r in rs)


def is_param(r, name, fields=None):
    if r.kind != "param":
        return False
    if r.name.split(":", 1)[-1] != name:
        return False
    if fields is not None and tuple(r.fields) != tuple(fields):
        return False
    return True


def blocks_calling(body, names):
    names = set(norm(n) for n in names)
    return [bb for bb, t in body.calls() if callee_names(t) & names]


def every_return_passes(body, blocks, start=0):
    """every normal path start -> Return goes through one of `blocks`"""
    reach = body.reach_from(start, without_blocks=tuple(blocks))
    return not any(body.term(b)["k"] == "return" for b in reach)


def ok_err_assignments(body):
    """[(bb, 'Ok'|'Err', rvalue)] aggregate assignments of Result variants to the return place,
    plus calls writing _0 reported as ('call', callee)."""
    out = []
    for i in sorted(body.live_blocks()):
        blk = body.blocks[i]
        for st in blk["stmts"]:
            if st["k"] == "assign" and st["place"]["l"] == 0 and not st["place"]["p"]:
                rv = st["rv"]
                if rv["k"] == "aggregate" and rv.get("agg") == "adt" and \
                        norm(rv["adt"]) in ("std::result::Result", "std::option::Option"):
                    out.append((i, rv["variant"], rv))
                else:
                    out.append((i, "other", rv))
        t = blk["term"]
        if t["k"] == "call" and t["dest"]["l"] == 0 and not t["dest"]["p"]:
            out.append((i, "call:" + (callee(t) or "?"), t))
    return out


def chains(body, operand, arg=0, depth=0, _acc=None, stop=None):
    """Follow every root of `operand`; for `call` roots continue into argument `arg` of that call.
    -> list of (tuple_of_callee_names_passed, terminal_root) -- one per root path."""
    out = []
    acc = _acc or ()
    for r in prov(body, operand):
        if stop is not None and stop(r):
            out.append((acc, r))
            continue
        if r.kind == "call" and r.site is not None and depth < 12:
            t = body.term(r.site)
            if len(t["args"]) > arg:
                sub = chains(body, t["args"][arg], arg, depth + 1, acc + (r.name,), stop)
                if sub:
                    out.extend(sub)
                    continue
            out.append((acc + (r.name,), r))
        elif r.kind == "agg" and r.site is not None and depth < 12 and body.raw.get("desugared") is not None and \
                str(r.name) in ("std::result::Result::Ok", "std::option::Option::Some", "std::result::Result::Err") and not r.fields:
            # written-out combinator: Ok(x) / Some(x) / Err(e) built from the payload of the value it was matched on
            sub = []
            for st in body.blocks[r.site]["stmts"]:
                if st["k"] == "assign" and st["rv"]["k"] == "aggregate" and mir.agg_name(st["rv"]) == r.name and st["rv"]["fields"]:
                    sub.extend(chains(body, st["rv"]["fields"][0]["op"], arg, depth + 1, acc, stop))
            if sub:
                out.extend(sub)
            else:
                out.append((acc, r))
        else:
            out.append((acc, r))
    return out


def chain_ok(body, operand, terminal, allowed=None, required=(), forbidden=(), stop=False):
    """every root path of operand ends in a root satisfying `terminal`, passes only callees whose
    short name is in `allowed` (if given), passes every name in `required`, none in `forbidden`"""
    cs = chains(body, operand, stop=terminal if stop else None)
    if not cs:
        return False
    for names, root in cs:
        shorts = [n.rsplit("::", 1)[-1] for n in names]
        if not terminal(root):
            return False
        if allowed is not None and any(s not in allowed for s in shorts):
            return False
        if any(r not in shorts for r in required):
            return False
        if any(f in shorts for f in forbidden):
            return False
    return True


def switch_edges(body):
    """[(switch_bb, target_bb, kind, subject, labels)] for every live switch edge"""
    out = []
    for s in sorted(body.live_blocks()):
        ds = mir.describe_switch(body, s)
        if not ds:
            continue
        kind, subject, labels = ds
        for tb, labs in labels.items():
            out.append((s, tb, kind, subject, tuple(labs)))
    return out


def must_pass_any_edge(body, site, edges):
    """every normal path entry -> site uses at least one of the (s, t) edges"""
    if site not in body.live_blocks():
        return False
    if not edges:
        return False
    return site not in body.reach_from(0, without_edges=tuple(sorted(set(edges))))


# ---------------------------------------------------------------------------
# arithmetic expression trees (integer layout rules: C19, C07)
# ---------------------------------------------------------------------------

_ARITH = {"Add": "add", "AddWithOverflow": "add", "AddUnchecked": "add",
          "Sub": "sub", "SubWithOverflow": "sub", "SubUnchecked": "sub",
          "Mul": "mul", "MulWithOverflow": "mul", "MulUnchecked": "mul"}


def arith(body, x, depth=0):
    """Expression tree of an integer operand inside one body:
    ('param', name) | ('capture', name) | ('const', int) | ('add'|'sub'|'mul', l, r) |
    ('call', callee, site, [arg trees]) | ('phi', [trees]) | ('place', provenance strings)"""
    if depth > 24:
        return ("place", ("<deep>",))
    if x.get("k") == "const":
        if "int" in x:
            return ("const", x["int"])
        return ("constx", x.get("repr"))
    place = x["place"] if x.get("k") in ("copy", "move") else x
    l = place["l"]
    fields = mir.proj_fields(place)
    has_deref = any(p["k"] == "deref" for p in place["p"])
    if 1 <= l <= body.argc and not fields:
        if body.is_closure and l == 1:
            return ("capture", "<env>")
        return ("param", body.local_name(l) or "arg%d" % l)
    if 1 <= l <= body.argc or (has_deref and fields):
        return ("place", tuple(sorted(mir.show_root(r) for r in prov(body, place))))
    defs = [d for d in body.defs().get(l, []) if not d[3]["p"]]
    if not defs:
        return ("place", tuple(sorted(mir.show_root(r) for r in prov(body, place))))
    alts = []
    for dk, dbb, di, dpl, payload in defs:
        if dk == "call":
            t = payload
            if fields and not (callee_def(t) == "std::ops::Try::branch"):
                alts.append(("place", tuple(sorted(mir.show_root(r) for r in prov(body, place)))))
                continue
            if callee_names(t) & mir._transparent() and t["args"] and not fields:
                alts.append(arith(body, t["args"][0], depth + 1))
                continue
            if callee_def(t) == "std::ops::Try::branch" and fields[:2] == ["#Continue", "0"]:
                inner = arith(body, t["args"][0], depth + 1)
                alts.append(("try", inner))
                continue
            alts.append(("call", callee(t) or "<indirect>", dbb, [arith(body, a, depth + 1) for a in t["args"]]))
            continue
        if dk != "assign":
            alts.append(("place", ("setdiscr",)))
            continue
        rv = payload
        k = rv["k"]
        if k == "binop" and rv["op"] in _ARITH and (fields in ([], ["0"])):
            alts.append((_ARITH[rv["op"]], arith(body, rv["l"], depth + 1), arith(body, rv["r"], depth + 1)))
        elif k in ("use", "cast") and not fields:
            alts.append(arith(body, rv["op"], depth + 1))
        elif k in ("ref", "copyforderef") and not fields:
            alts.append(arith(body, rv["place"], depth + 1))
        elif k == "use" and fields and rv["op"].get("k") in ("copy", "move"):
            p2 = dict(rv["op"]["place"])
            p2 = {"l": p2["l"], "p": list(p2["p"]) + list(place["p"])}
            alts.append(arith(body, p2, depth + 1))
        else:
            alts.append(("place", tuple(sorted(mir.show_root(r) for r in prov(body, place)))))
    if len(alts) == 1:
        return alts[0]
    return ("phi", alts)


def arith_leaves(tree, through=("add", "sub", "mul", "phi", "try")):
    """leaves of an arithmetic tree, with the sign/op path: [(path_ops, leaf)]"""
    out = []

    def walk(t, path):
        if t[0] in ("add", "sub", "mul") and t[0] in through:
            walk(t[1], path + (t[0] + ".l",))
            walk(t[2], path + (t[0] + ".r",))
        elif t[0] == "phi" and "phi" in through:
            for a in t[1]:
                walk(a, path + ("phi",))
        elif t[0] == "try" and "try" in through:
            walk(t[1], path)
        else:
            out.append((path, t))
    walk(tree, ())
    return out


def arith_str(t):
    k = t[0]
    if k in ("add", "sub", "mul"):
        return "(%s %s %s)" % (arith_str(t[1]), {"add": "+", "sub": "-", "mul": "*"}[k], arith_str(t[2]))
    if k == "call":
        return "%s(%s)" % (t[1].rsplit("::", 1)[-1], ", ".join(arith_str(a) for a in t[3]))
    if k == "phi":
        return "phi(%s)" % " | ".join(arith_str(a) for a in t[1])
    if k == "try":
        return arith_str(t[1]) + "?"
    if k in ("param", "capture", "const", "constx"):
        return str(t[1])
    return "/".join(t[1])


def named_local(body, operand):
    """the user-named local that `operand` is (a borrow / copy / transparent view of), else the
    innermost local reached"""
    o = operand
    for _ in range(12):
        if o.get("k") not in ("copy", "move"):
            return None
        l = o["place"]["l"]
        if body.local_name(l):
            return l
        d = mir.single_def(body, l)
        if d is None:
            return l
        if d[0] == "call":
            t = d[4]
            if callee_names(t) & mir._transparent() and t["args"]:
                o = t["args"][0]
                continue
            return l
        rv = d[4]
        if rv["k"] in ("ref", "copyforderef"):
            o = {"k": "copy", "place": rv["place"]}
        elif rv["k"] in ("use", "cast"):
            o = rv["op"]
        else:
            return l
    return None


def local_by_name(body, name, ty_prefix=None):
    """the user variable `name`; when the name is declared more than once (shadowing: `let scale = match scale ..`)
    ty_prefix picks the one whose type starts with it"""
    ls = [i for i, l in enumerate(body.locals) if l["name"] == name]
    if len(ls) > 1 and ty_prefix is not None:
        ls = [i for i in ls if norm(str(body.locals[i]["ty"])).startswith(ty_prefix)]
    return ls[0] if len(ls) == 1 else None


def _reads_local(body, o, local, depth=0):
    """operand o is (a copy of) `local` or of a part of it (`(local as Some).0`)"""
    for _ in range(6):
        if o.get("k") not in ("copy", "move"):
            return False
        if o["place"]["l"] == local:
            return True
        d = mir.single_def(body, o["place"]["l"])
        if d is None or d[0] != "assign" or d[4]["k"] != "use":
            return False
        o = d[4]["op"]
    return False


def switch_local_tests(body, local):
    """switch blocks whose decision is a test of named local `local`:
    -> [(switch_bb, kind, {target: labels}, call_term_or_None)]"""
    out = []
    for s in sorted(body.live_blocks()):
        t = body.term(s)
        if t["k"] != "switch":
            continue
        ds = mir.describe_switch(body, s)
        if not ds:
            continue
        kind, subject, labels = ds
        if kind == "call":
            ct = body.term(subject[2])
            if ct["args"] and named_local(body, ct["args"][0]) == local:
                out.append((s, "call:" + (callee_def(ct) or "?").rsplit("::", 1)[-1], labels, ct))
        elif kind in ("variant", "bool", "int", "cmp"):
            # find the place the decision reads
            o = t["discr"]
            hit = False
            for _ in range(6):
                if o.get("k") not in ("copy", "move"):
                    break
                if o["place"]["l"] == local:
                    hit = True
                    break
                d = mir.single_def(body, o["place"]["l"])
                if d is None or d[0] != "assign":
                    break
                rv = d[4]
                if rv["k"] == "discriminant":
                    hit = rv["place"]["l"] == local
                    break
                if rv["k"] == "use":
                    o = rv["op"]
                elif rv["k"] == "unop":
                    o = rv["x"]
                elif rv["k"] == "binop":
                    hit = any(x.get("k") in ("copy", "move") and (named_local(body, x) == local or _reads_local(body, x, local))
                              for x in (rv["l"], rv["r"]))
                    break
                else:
                    break
            if hit:
                out.append((s, kind, labels, None))
    return out


def follow_flag(body, tb, depth=0):
    """`matches!` / `if let .. else` lowering: an arm that only stores a boolean constant into a temporary and
    jumps to a block switching on that temporary really continues at that switch's corresponding target.
    Returns the block where the arm's own code starts."""
    if depth > 4:
        return tb
    blk = body.blocks[tb]
    consts = {}
    for st in blk["stmts"]:
        if st["k"] == "assign" and not st["place"]["p"] and st["rv"]["k"] == "use" and st["rv"]["op"].get("k") == "const" and "int" in st["rv"]["op"]:
            consts[st["place"]["l"]] = st["rv"]["op"]["int"]
        elif st["k"] == "assign":
            return tb
    t = blk["term"]
    if t["k"] != "goto" or not consts:
        return tb
    m = t["target"]
    mb = body.blocks[m]
    if mb["stmts"] or mb["term"]["k"] != "switch":
        return tb
    d = mb["term"]["discr"]
    if d.get("k") not in ("copy", "move") or d["place"]["p"] or d["place"]["l"] not in consts:
        return tb
    v = consts[d["place"]["l"]]
    nxt = mb["term"]["otherwise"]
    for val, x in mb["term"]["targets"]:
        if str(val) == str(v):
            nxt = x
    return follow_flag(body, nxt, depth + 1)


def phi_defs(body, operand, depth=0):
    """Follow an operand back through single definitions (uses, borrows, transparent calls) to the first local that
    has several whole-value definitions; -> [(def_bb, operand_or_None)] of that local's definitions, or a single
    [(bb, operand)] when the chain ends in one definition / a parameter (bb None)."""
    o = operand
    for _ in range(24):
        if o.get("k") not in ("copy", "move"):
            return [(None, o)]
        l = o["place"]["l"]
        if 1 <= l <= body.argc:
            return [(None, o)]
        proj = [e for e in o["place"]["p"] if e["k"] != "deref"]
        if proj:
            # a field of a locally built tuple / struct: continue with what was stored there
            if proj[0]["k"] == "field" and len(proj) == 1:
                d1 = mir.single_def(body, l)
                if d1 is not None and d1[0] == "assign" and d1[4]["k"] == "aggregate":
                    hit = [f["op"] for f in d1[4]["fields"] if f["name"] == proj[0]["name"]]
                    if hit:
                        o = hit[0]
                        continue
            return [(None, o)]
        ds = [d for d in body.defs().get(l, []) if not d[3]["p"]]
        if len(ds) != 1:
            out = []
            for dk, dbb, di, dpl, payload in ds:
                if dk == "assign" and payload["k"] in ("use", "cast"):
                    out.append((dbb, payload["op"]))
                elif dk == "assign" and payload["k"] in ("ref", "copyforderef"):
                    out.append((dbb, {"k": "copy", "place": payload["place"]}))
                else:
                    out.append((dbb, None))
            return out
        dk, dbb, di, dpl, payload = ds[0]
        if dk == "call":
            t = payload
            if callee_names(t) & mir._transparent() and t["args"]:
                o = t["args"][0]
                continue
            return [(dbb, o)]
        if payload["k"] in ("use", "cast"):
            o = payload["op"]
        elif payload["k"] in ("ref", "copyforderef"):
            if payload["place"]["p"] and not all(e["k"] == "deref" for e in payload["place"]["p"]):
                return [(dbb, {"k": "copy", "place": payload["place"]})]
            o = {"k": "copy", "place": {"l": payload["place"]["l"], "p": []}}
        else:
            return [(dbb, o)]
    return [(None, o)]


def flows_to_return(body, start_local, extra_calls=()):
    """forward slice: does the value held by `start_local` reach the return place _0 through moves, copies,
    aggregate fields, references and the calls that merely hand a value on (?, From/Into, from_residual, map_err ..)"""
    HAND_ON = ("Try::branch", "FromResidual::from_residual", "From::from", "Into::into", "Result::map_err", "Box::new") + tuple(extra_calls)
    taint = {start_local}
    changed = True
    while changed:
        changed = False
        for i in body.live_blocks():
            blk = body.blocks[i]
            for st in blk["stmts"]:
                if st.get("k") != "assign":
                    continue
                rv = st["rv"]
                ops = []
                for k in ("op", "l", "r", "x"):
                    o = rv.get(k)
                    if isinstance(o, dict):
                        ops.append(o)
                for f in rv.get("fields", []):
                    ops.append(f["op"])
                src = [o["place"]["l"] for o in ops if o.get("k") in ("copy", "move")]
                if "place" in rv:
                    src.append(rv["place"]["l"])
                if any(x in taint for x in src) and st["place"]["l"] not in taint:
                    taint.add(st["place"]["l"])
                    changed = True
            t = blk["term"]
            if t["k"] == "call" and any((callee_def(t) or "").endswith(h) for h in HAND_ON):
                if any(a.get("k") in ("copy", "move") and a["place"]["l"] in taint for a in t["args"]) and t["dest"]["l"] not in taint:
                    taint.add(t["dest"]["l"])
                    changed = True
    return 0 in taint


def capture_operand(P, body, name):
    """(parent body, operand) stored in the captured variable `name` where the closure `body` is built; None if unknown"""
    par = (P.closure_parents(body) or [None])[0] if body.is_closure else None
    if par is None:
        return None
    for blk in par.blocks:
        for st in blk["stmts"]:
            if st["k"] == "assign" and st["rv"]["k"] == "aggregate" and st["rv"].get("agg") == "closure" and \
                    norm(st["rv"].get("closure")) == body.key:
                for f in st["rv"]["fields"]:
                    if f["name"] == name:
                        return par, f["op"]
    return None


def roots_x(P, body, op, suffix=(), depth=0):
    """prov() with captured variables resolved in the function that built the closure: [(body, root)]"""
    out = []
    for r in prov(body, op, suffix=tuple(suffix)):
        if r.kind == "capture" and depth < 4:
            co = capture_operand(P, body, r.name)
            if co is not None:
                out.extend(roots_x(P, co[0], co[1], r.fields, depth + 1))
                continue
        out.append((body, r))
    return out


def all_roots_x(P, body, op, pred):
    rs = roots_x(P, body, op)
    return bool(rs) and all(pred(r) for b2, r in rs)


def promoted_variant(body, op, depth=0):
    """name of the enum variant a (reference to a) promoted constant operand denotes, e.g. 'NewToOld'; None otherwise"""
    if op.get("k") == "const":
        pr = op.get("promoted") or []
        if len(pr) == 1:
            return str(pr[0]).rsplit("::", 1)[-1]
        return None
    if op.get("k") not in ("copy", "move") or depth > 4:
        return None
    d = mir.single_def(body, op["place"]["l"])
    if not d or d[0] != "assign":
        return None
    rv = d[4]
    if rv["k"] == "use":
        return promoted_variant(body, rv["op"], depth + 1)
    if rv["k"] == "ref" and not [e for e in rv["place"]["p"] if e.get("k") != "deref"]:
        return promoted_variant(body, {"k": "copy", "place": {"l": rv["place"]["l"], "p": []}}, depth + 1)
    return None


def enum_eq_tests(body):
    """switches of the form `x == Enum::Variant` / `x != Enum::Variant` (derived PartialEq against a constant):
    [(switch bb, roots of x, variant name, target when x is that variant, target when it is not)]"""
    out = []
    for s in sorted(body.live_blocks()):
        ds = mir.describe_switch(body, s)
        if not ds or ds[0] != "call":
            continue
        cn, args, site = ds[1]
        last = str(cn).rsplit("::", 1)[-1]
        if last not in ("eq", "ne") or "PartialEq" not in str(cn):
            continue
        ct = body.term(site)
        if len(ct["args"]) != 2:
            continue
        for i in (0, 1):
            v = promoted_variant(body, ct["args"][i])
            if v is None:
                continue
            other = frozenset(prov(body, ct["args"][1 - i]))
            t_true = [tb for tb, labs in ds[2].items() if True in labs]
            t_false = [tb for tb, labs in ds[2].items() if False in labs]
            if len(t_true) == 1 and len(t_false) == 1:
                is_v, not_v = (t_true[0], t_false[0]) if last == "eq" else (t_false[0], t_true[0])
                out.append((s, other, v, is_v, not_v))
    return out
