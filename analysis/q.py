"""Small query helpers shared by the rule files (E6 / E7 templates)."""
from . import mir
from .mir import norm, callee, callee_def, callee_names, prov, guards_at


def not_test(b):
    return "::tests::" not in b.key and "::testing::" not in b.key


def aggregates_of(P, adt, variant=None):
    """[(body, bb, stmt_index, rvalue)] building a value of ADT (normalised path)"""
    out = []
    for b in P.bodies.values():
        for i, blk in enumerate(b.blocks):
            if blk["cleanup"]:
                continue
            for j, st in enumerate(blk["stmts"]):
                if st["k"] == "assign" and st["rv"]["k"] == "aggregate" and st["rv"].get("agg") == "adt":
                    if norm(st["rv"]["adt"]) == adt and (variant is None or st["rv"]["variant"] == variant):
                        out.append((b, i, j, st["rv"]))
    return out


def callers_of(P, key):
    """[(body, bb, term)] of direct calls resolved (or declared) to key"""
    out = []
    for b in P.bodies.values():
        for bb, t in b.calls(live_only=False):
            if key in callee_names(t):
                out.append((b, bb, t))
    return out


def value_refs_of(P, key):
    """bodies that mention fn `key` as a value (passed as a function item)"""
    out = []
    for b in P.bodies.values():
        for bb, o in b.iter_operands():
            if o.get("k") == "const" and key in (norm(o.get("fn")), norm(o.get("fn_resolved"))):
                out.append((b, bb))
    return out


def rel_in_force(body, bb):
    """comparison facts [(rel, lop, rop)] that hold on every path to bb"""
    from .panics import _cmp_holds
    out = []
    for a in guards_at(body, bb):
        if a.kind == "cmp" and len(a.label) == 1:
            op, lr, rr, (lo, ro) = a.subject
            rel = _cmp_holds(op, a.label[0])
            if rel:
                out.append((rel, lo, ro))
        elif a.kind == "call" and len(a.label) == 1 and isinstance(a.label[0], bool):
            cn, args, site = a.subject
            m = {"std::cmp::PartialOrd::lt": "Lt", "std::cmp::PartialOrd::le": "Le",
                 "std::cmp::PartialOrd::gt": "Gt", "std::cmp::PartialOrd::ge": "Ge",
                 "std::cmp::PartialEq::eq": "Eq", "std::cmp::PartialEq::ne": "Ne"}
            ct = body.term(site)
            for n in callee_names(ct):
                if n in m and len(ct["args"]) == 2:
                    out.append((_cmp_holds(m[n], a.label[0]), ct["args"][0], ct["args"][1]))
    return out


def guard_calls(body, bb):
    """[(callee, label, call_term)] boolean-call atoms in force at bb"""
    out = []
    for a in guards_at(body, bb):
        if a.kind == "call" and len(a.label) == 1 and isinstance(a.label[0], bool):
            cn, args, site = a.subject
            out.append((cn, a.label[0], body.term(site)))
    return out


def variant_guards(body, bb):
    """[(roots_of_scrutinee, labels)] discriminant atoms in force at bb"""
    return [(a.subject, a.label) for a in guards_at(body, bb) if a.kind == "variant"]


def root_names(body, x):
    return set((r.kind, r.name, r.fields) for r in prov(body, x))


def has_root(body, x, kind, name=None, fields=None):
    for r in prov(body, x):
        if r.kind != kind:
            continue
        if name is not None and r.name != name and not (kind == "param" and r.name.split(":", 1)[-1] == name):
            continue
        if fields is not None and tuple(r.fields) != tuple(fields):
            continue
        return True
    return False


def all_roots(body, x, pred):
    rs = prov(body, x)
    return bool(rs) and all(pred(r) for r in rs)


def is_param(r, name, fields=None):
    if r.kind != "param":
        return False
    if r.name.split(":", 1)[-1] != name:
        return False
    if fields is not None and tuple(r.fields) != tuple(fields):
        return False
    return True


def blocks_calling(body, names):
    names = set(norm(n) for n in names)
    return [bb for bb, t in body.calls() if callee_names(t) & names]


def every_return_passes(body, blocks, start=0):
    """every normal path start -> Return goes through one of `blocks`"""
    reach = body.reach_from(start, without_blocks=tuple(blocks))
    return not any(body.term(b)["k"] == "return" for b in reach)


def ok_err_assignments(body):
    """[(bb, 'Ok'|'Err', rvalue)] aggregate assignments of Result variants to the return place,
    plus calls writing _0 reported as ('call', callee)."""
    out = []
    for i in sorted(body.live_blocks()):
        blk = body.blocks[i]
        for st in blk["stmts"]:
            if st["k"] == "assign" and st["place"]["l"] == 0 and not st["place"]["p"]:
                rv = st["rv"]
                if rv["k"] == "aggregate" and rv.get("agg") == "adt" and \
                        norm(rv["adt"]) in ("std::result::Result", "std::option::Option"):
                    out.append((i, rv["variant"], rv))
                else:
                    out.append((i, "other", rv))
        t = blk["term"]
        if t["k"] == "call" and t["dest"]["l"] == 0 and not t["dest"]["p"]:
            out.append((i, "call:" + (callee(t) or "?"), t))
    return out


def chains(body, operand, arg=0, depth=0, _acc=None, stop=None):
    """Follow every root of `operand`; for `call` roots continue into argument `arg` of that call.
    -> list of (tuple_of_callee_names_passed, terminal_root) -- one per root path."""
    out = []
    acc = _acc or ()
    for r in prov(body, operand):
        if stop is not None and stop(r):
            out.append((acc, r))
            continue
        if r.kind == "call" and r.site is not None and depth < 12:
            t = body.term(r.site)
            if len(t["args"]) > arg:
                sub = chains(body, t["args"][arg], arg, depth + 1, acc + (r.name,), stop)
                if sub:
                    out.extend(sub)
                    continue
            out.append((acc + (r.name,), r))
        else:
            out.append((acc, r))
    return out


def chain_ok(body, operand, terminal, allowed=None, required=(), forbidden=(), stop=False):
    """every root path of operand ends in a root satisfying `terminal`, passes only callees whose
    short name is in `allowed` (if given), passes every name in `required`, none in `forbidden`"""
    cs = chains(body, operand, stop=terminal if stop else None)
    if not cs:
        return False
    for names, root in cs:
        shorts = [n.rsplit("::", 1)[-1] for n in names]
        if not terminal(root):
            return False
        if allowed is not None and any(s not in allowed for s in shorts):
            return False
        if any(r not in shorts for r in required):
            return False
        if any(f in shorts for f in forbidden):
            return False
    return True


def switch_edges(body):
    """[(switch_bb, target_bb, kind, subject, labels)] for every live switch edge"""
    out = []
    for s in sorted(body.live_blocks()):
        ds = mir.describe_switch(body, s)
        if not ds:
            continue
        kind, subject, labels = ds
        for tb, labs in labels.items():
            out.append((s, tb, kind, subject, tuple(labs)))
    return out


def must_pass_any_edge(body, site, edges):
    """every normal path entry -> site uses at least one of the (s, t) edges"""
    if site not in body.live_blocks():
        return False
    if not edges:
        return False
    return site not in body.reach_from(0, without_edges=tuple(sorted(set(edges))))
