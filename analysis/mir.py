"""Shared analyses over the okfacts MIR facts (DESIGN.md §2.2).

Pure Python, no execution of okane code: CFG reachability / must-pass queries,
flow-insensitive operand provenance, switch ("guard") atoms in force at a site,
bounded path enumeration, call graph with function-value references.
"""
import os
import re
from collections import defaultdict, namedtuple

from . import facts as _facts


class AnchorMissing(Exception):
    """A function / field / call site a rule is anchored at cannot be found."""


_LT1 = re.compile(r"'[A-Za-z_][A-Za-z0-9_]*\s*,\s*")
_LT2 = re.compile(r",\s*'[A-Za-z_][A-Za-z0-9_]*(?![A-Za-z0-9_'])")
_LT3 = re.compile(r"'[A-Za-z_][A-Za-z0-9_]*\s*(?![A-Za-z0-9_'])")


def norm(s):
    """Normalise a def path / type string: drop lifetimes and empty generic lists."""
    if s is None:
        return None
    s = _LT1.sub("", s)
    s = _LT2.sub("", s)
    s = _LT3.sub("", s)
    s = s.replace("::<>", "").replace("<>", "")
    s = s.replace("& ", "&")
    if "::<" in s:
        s = _strip_turbofish(s)
    return s


def _strip_turbofish(s):
    """remove every balanced `::<...>` group (generic args of a path segment)"""
    out = []
    i = 0
    n = len(s)
    while i < n:
        if s.startswith("::<", i):
            depth = 0
            j = i + 2
            while j < n:
                c = s[j]
                if c == "<":
                    depth += 1
                elif c == ">" and s[j - 1] != "-":
                    depth -= 1
                    if depth == 0:
                        break
                j += 1
            grp = s[i:j + 1]
            if grp.startswith("::<impl ") and " for " in grp:
                # trait impl segment (`mod::<impl Trait for X>::m`): part of the identity
                out.append(grp)
            i = j + 1
            continue
        out.append(s[i])
        i += 1
    return "".join(out)


def strip_generics(s):
    """Remove every <...> group (used for loose matching of callee names)."""
    out = []
    depth = 0
    i = 0
    while i < len(s):
        c = s[i]
        if c == "<":
            depth += 1
        elif c == ">" and depth > 0 and not (i > 0 and s[i - 1] == "-"):
            depth -= 1
        elif depth == 0:
            out.append(c)
        i += 1
    r = "".join(out)
    while "::::" in r:
        r = r.replace("::::", "::")
    return r


Root = namedtuple("Root", "kind name fields via site")


def show_root(r):
    s = "%s:%s" % (r.kind, r.name)
    if r.fields:
        s += "." + ".".join(r.fields)
    if r.via:
        s += " via[" + ",".join(r.via) + "]"
    return s


TRANSPARENT = (
    "std::ops::Deref::deref", "std::ops::DerefMut::deref_mut",
    "std::convert::AsRef::as_ref", "std::borrow::Borrow::borrow",
    "std::borrow::BorrowMut::borrow_mut",
    "std::clone::Clone::clone", "std::borrow::ToOwned::to_owned",
    "std::convert::Into::into", "std::convert::From::from",
    "std::option::Option::as_ref", "std::option::Option::as_deref",
    "std::option::Option::as_mut", "std::option::Option::as_deref_mut",
    "std::option::Option::cloned", "std::option::Option::copied",
    "std::string::String::as_str", "std::path::PathBuf::as_path",
    "std::borrow::Cow::into_owned", "std::string::ToString::to_string",
    "okane_core::syntax::decoration::AsUndecorated::as_undecorated",
    "std::iter::IntoIterator::into_iter",
    "std::ops::Neg::neg",
)
_TRANSPARENT_N = None


def _transparent():
    global _TRANSPARENT_N
    if _TRANSPARENT_N is None:
        _TRANSPARENT_N = set(norm(x) for x in TRANSPARENT)
    return _TRANSPARENT_N


class Body:
    def __init__(self, raw, crate, factfile):
        self.raw = raw
        self.crate = crate
        self.factfile = factfile
        self.path = raw["path"]
        self.key = norm(raw["path"])
        self.kind = raw["kind"]
        self.impl_self = norm(raw["impl_self"])
        self.impl_trait = norm(raw["impl_trait"])
        self.derived = raw["derived"]
        self.parent = norm(raw["parent"])
        self.captures = raw["captures"]
        self.file = raw["span"]["file"]
        self.line = raw["span"]["line"]
        self.line_hi = raw["line_hi"]
        self.exp = raw["span"]["exp"]
        self.expcrate = raw["span"]["expcrate"]
        self.argc = raw["argc"]
        self.locals = raw["locals"]
        self.blocks = raw["blocks"]
        self.is_closure = self.kind == "Closure"
        self._succ = None
        self._pred = None
        self._defs = None
        self._reach_cache = {}

    def __repr__(self):
        return "<Body %s>" % self.key

    @property
    def module(self):
        """module path of the (outermost) item, e.g. okane_core::report::book_keeping"""
        return self.key

    def loc(self, bb=None):
        if bb is None:
            return "%s:%d" % (self.file, self.line)
        sp = self.blocks[bb]["term"]["span"]
        if sp["line"] == 1 and sp["file"] != self.file:
            # synthetic terminator (dummy span): fall back to the block's last statement
            for st in reversed(self.blocks[bb]["stmts"]):
                if st.get("line"):
                    return "%s:%d" % (self.file, st["line"])
            return "%s:%d" % (self.file, self.line)
        return "%s:%d" % (sp["file"], sp["line"])

    # ---------------- CFG ----------------
    def term(self, bb):
        return self.blocks[bb]["term"]

    def succs(self, bb):
        if self._succ is None:
            self._succ = [self._succs(i) for i in range(len(self.blocks))]
        return self._succ[bb]

    def _succs(self, bb):
        t = self.blocks[bb]["term"]
        k = t["k"]
        if k == "goto":
            return [t["target"]]
        if k == "switch":
            out = []
            for _, b in t["targets"]:
                if b not in out:
                    out.append(b)
            if t["otherwise"] not in out:
                out.append(t["otherwise"])
            return out
        if k in ("call", "assert", "drop"):
            return [t["target"]] if t["target"] is not None else []
        return []

    def preds(self, bb):
        if self._pred is None:
            p = defaultdict(list)
            for i in range(len(self.blocks)):
                for s in self.succs(i):
                    p[s].append(i)
            self._pred = p
        return self._pred[bb]

    def live_blocks(self):
        """blocks reachable from entry through normal (non-unwind) edges"""
        return self.reach_from(0)

    def reach_from(self, start, without_blocks=(), without_edges=()):
        key = (start, tuple(sorted(without_blocks)), tuple(sorted(without_edges)))
        r = self._reach_cache.get(key)
        if r is not None:
            return r
        wb = set(without_blocks)
        we = set(without_edges)
        seen = set()
        if start in wb:
            self._reach_cache[key] = seen
            return seen
        stack = [start]
        seen.add(start)
        while stack:
            b = stack.pop()
            for s in self.succs(b):
                if s in wb or (b, s) in we or s in seen:
                    continue
                seen.add(s)
                stack.append(s)
        self._reach_cache[key] = seen
        return seen

    def must_pass_edge(self, site, s, t):
        """every normal path entry -> site uses edge (s,t)"""
        if site not in self.live_blocks():
            return False
        return site not in self.reach_from(0, without_edges=((s, t),))

    def must_pass_block(self, site, b):
        if site == b:
            return True
        if site not in self.live_blocks():
            return False
        return site not in self.reach_from(0, without_blocks=(b,))

    def return_blocks(self):
        live = self.live_blocks()
        return [i for i in sorted(live) if self.blocks[i]["term"]["k"] == "return"]

    def back_edges(self):
        """(u,v) with v on the DFS stack when u->v is explored"""
        out = []
        color = {}
        def dfs(root):
            stack = [(root, iter(self.succs(root)))]
            color[root] = 1
            while stack:
                n, it = stack[-1]
                adv = False
                for s in it:
                    c = color.get(s, 0)
                    if c == 0:
                        color[s] = 1
                        stack.append((s, iter(self.succs(s))))
                        adv = True
                        break
                    elif c == 1:
                        out.append((n, s))
                if not adv:
                    color[n] = 2
                    stack.pop()
        dfs(0)
        return out

    def loops(self):
        """natural loops: header -> set of blocks"""
        res = {}
        for (u, v) in self.back_edges():
            body = res.setdefault(v, set([v]))
            stack = [u]
            while stack:
                n = stack.pop()
                if n in body:
                    continue
                body.add(n)
                stack.extend(self.preds(n))
        return res

    # ---------------- statements / operands ----------------
    def calls(self, live_only=True):
        live = self.live_blocks() if live_only else range(len(self.blocks))
        for i in sorted(live):
            t = self.blocks[i]["term"]
            if t["k"] == "call":
                yield i, t

    def iter_operands(self):
        """all operands in the body (statements + terminators) of non-cleanup blocks"""
        for i, b in enumerate(self.blocks):
            if b["cleanup"]:
                continue
            for st in b["stmts"]:
                if st["k"] != "assign":
                    continue
                rv = st["rv"]
                for o in rvalue_operands(rv):
                    yield i, o
                if rv["k"] == "aggregate" and rv.get("agg") == "closure":
                    yield i, {"k": "const", "closure": rv["closure"], "ty": ""}
            t = b["term"]
            if t["k"] == "call":
                if t["f"].get("def") is None:
                    yield i, t["f"]["indirect"]
                for a in t["args"]:
                    yield i, a
            elif t["k"] == "switch":
                yield i, t["discr"]
            elif t["k"] == "assert":
                yield i, t["cond"]

    def defs(self):
        """local -> list of definition records"""
        if self._defs is None:
            d = defaultdict(list)
            for i, b in enumerate(self.blocks):
                if b["cleanup"]:
                    continue
                for j, st in enumerate(b["stmts"]):
                    if st["k"] == "assign":
                        d[st["place"]["l"]].append(("assign", i, j, st["place"], st["rv"]))
                    elif st["k"] == "setdiscr":
                        d[st["place"]["l"]].append(("setdiscr", i, j, st["place"], st))
                t = b["term"]
                if t["k"] == "call":
                    d[t["dest"]["l"]].append(("call", i, None, t["dest"], t))
            self._defs = d
        return self._defs

    def local_name(self, l):
        return self.locals[l]["name"]

    def local_ty(self, l):
        return norm(self.locals[l]["ty"])

    def place_ty_hint(self, place):
        return self.local_ty(place["l"])


def rvalue_operands(rv):
    k = rv["k"]
    if k in ("use", "repeat", "cast"):
        yield rv["op"]
    elif k == "binop":
        yield rv["l"]
        yield rv["r"]
    elif k == "unop":
        yield rv["x"]
    elif k == "aggregate":
        for f in rv["fields"]:
            yield f["op"]


def callee(t):
    """best normalised name of a call terminator's callee: resolved impl if known"""
    f = t["f"]
    if f.get("def") is None:
        return None
    return norm(f.get("resolved") or f["def"])


def callee_def(t):
    f = t["f"]
    if f.get("def") is None:
        return None
    return norm(f["def"])


def callee_names(t):
    f = t["f"]
    if f.get("def") is None:
        return set()
    s = {norm(f["def"])}
    if f.get("resolved"):
        s.add(norm(f["resolved"]))
    return s


def callee_written(t):
    f = t["f"]
    return norm(f.get("resolved_args") or f.get("written") or "")


def call_matches(t, names):
    """names: iterable of normalised def paths; matches trait def or resolved impl"""
    cn = callee_names(t)
    for n in names:
        if n in cn:
            return True
    return False


def proj_fields(place):
    out = []
    for p in place["p"]:
        k = p["k"]
        if k == "field":
            out.append(p["name"])
        elif k == "downcast":
            out.append("#" + (p["variant"] or str(p["vi"])))
        elif k in ("index", "constindex", "subslice"):
            out.append("[]")
    return out


class Program:
    def __init__(self, raw):
        self.bodies = {}
        self.adts = {}
        self.by_file = defaultdict(list)
        self.counts = {}
        for ff, data in raw.items():
            crate = data["crate"]
            self.counts[ff] = data["n_bodies"]
            for b in data["bodies"]:
                body = Body(b, crate, ff)
                if body.key in self.bodies and ff == "okane-executable.json":
                    continue
                if body.key in self.bodies:
                    raise AnchorMissing("duplicate body key after normalisation: " + body.key)
                self.bodies[body.key] = body
                self.by_file[body.file].append(body)
            for a in data["adts"]:
                a["npath"] = norm(a["path"])
                self.adts[a["npath"]] = a
        self._callgraph = None
        self._children = None

    @classmethod
    def load(cls, repo=None, variant="dev", normalize=True, view="primary"):
        """view 'primary': the program as compiled, helpers that are not on the pinned tree inlined into their callers;
        view 'desugared': additionally std combinators replaced by the match / loop they abbreviate and the closures
        handed to them inlined (analysis/desugar.py).  Both are behaviour-preserving pictures of the same code."""
        raw = _facts.load_raw(repo or _facts.REPO, variant)
        P = cls(raw)
        P.view = view
        if view == "asis":
            # the program exactly as compiled: helpers that are not on the pinned tree stay functions of their own
            normalize = False
        if normalize and not os.environ.get("VERIF_NO_NORMALIZE"):
            from . import inline
            inline.normalize_program(P)
        if view in ("desugared", "closures", "tries"):
            # 'closures': only the combinators that take a closure; 'desugared': every combinator; 'tries': also `?`
            from . import desugar
            desugar.desugar_program(P, closures_only=(view == "closures"), expand_try=(view == "tries"))
        return P

    def body(self, key):
        b = self.bodies.get(key)
        if b is None:
            raise AnchorMissing("function not found: " + key)
        return b

    def maybe_body(self, key):
        return self.bodies.get(key)

    def adt(self, key):
        a = self.adts.get(key)
        if a is None:
            raise AnchorMissing("type not found: " + key)
        return a

    def closures_of(self, key, recursive=True):
        """closure bodies whose (transitive) parent is key"""
        if self._children is None:
            ch = defaultdict(list)
            for b in self.bodies.values():
                if b.parent:
                    ch[b.parent].append(b)
            # closures of helpers that were inlined into a known function belong to that function's view
            for b in list(self.bodies.values()):
                for c in getattr(b, "inlined_callees", []) or []:
                    for x in ch.get(c, []):
                        if x not in ch[b.key]:
                            ch[b.key].append(x)
            self._children = ch
        out = []
        stack = [key]
        while stack:
            k = stack.pop()
            for c in sorted(self._children.get(k, []), key=lambda b: b.key):
                out.append(c)
                if recursive:
                    stack.append(c.key)
        return out

    def closure_parents(self, body):
        """the function(s) a closure body belongs to: its parent, or - when that parent was a helper folded into its
        callers (analysis/inline.normalize_program) - every function that now contains the helper's code"""
        if not body.is_closure:
            return []
        p = self.bodies.get(body.parent)
        if p is not None:
            return [p]
        return [b for b in self.bodies.values() if body.parent in (getattr(b, "inlined_callees", None) or [])]

    def with_closures(self, key):
        return [self.body(key)] + self.closures_of(key)

    def in_module(self, prefix):
        """bodies whose file-based module matches prefix (by def path prefix, incl. impls)"""
        out = []
        for b in self.bodies.values():
            if body_module(b).startswith(prefix):
                out.append(b)
        return sorted(out, key=lambda b: b.key)

    # ---------------- call graph ----------------
    def callgraph(self):
        if self._callgraph is not None:
            return self._callgraph
        g = {}
        # trait method def -> local impl bodies (class-hierarchy approximation)
        impls = defaultdict(list)
        for b in self.bodies.values():
            if b.impl_trait and not b.is_closure:
                mname = b.key.rsplit("::", 1)[-1]
                impls[(strip_generics(b.impl_trait), mname)].append(b.key)
        for b in self.bodies.values():
            out = set()
            for _, t in b.calls(live_only=False):
                f = t["f"]
                if f.get("def") is None:
                    continue
                r = norm(f.get("resolved") or "")
                d = norm(f["def"])
                if r in self.bodies:
                    out.add(r)
                elif d in self.bodies:
                    out.add(d)
                else:
                    # unresolved trait method: all local impls
                    if "::" in d:
                        tr, m = d.rsplit("::", 1)
                        for k in impls.get((strip_generics(tr), m), []):
                            if f.get("resolved") is None or f.get("ikind") == "Virtual":
                                out.add(k)
            for _, o in b.iter_operands():
                if o.get("k") != "const":
                    continue
                for fld in ("fn_resolved", "fn", "closure"):
                    v = norm(o.get(fld))
                    if v and v in self.bodies:
                        out.add(v)
                        break
                else:
                    v = norm(o.get("fn"))
                    if v and "::" in v:
                        tr, m = v.rsplit("::", 1)
                        for k in impls.get((strip_generics(tr), m), []):
                            out.add(k)
            g[b.key] = out
        self._callgraph = g
        return g

    def reachable(self, roots):
        g = self.callgraph()
        seen = set()
        stack = list(roots)
        while stack:
            k = stack.pop()
            if k in seen or k not in g:
                continue
            seen.add(k)
            stack.extend(g[k])
        return seen

    def sccs(self):
        """Tarjan; returns list of SCCs (lists of keys) with size>1 or self loop"""
        g = self.callgraph()
        index = {}
        low = {}
        onstack = set()
        stack = []
        res = []
        counter = [0]
        for root in sorted(g):
            if root in index:
                continue
            work = [(root, iter(sorted(g[root])))]
            index[root] = low[root] = counter[0]
            counter[0] += 1
            stack.append(root)
            onstack.add(root)
            while work:
                n, it = work[-1]
                adv = False
                for s in it:
                    if s not in g:
                        continue
                    if s not in index:
                        index[s] = low[s] = counter[0]
                        counter[0] += 1
                        stack.append(s)
                        onstack.add(s)
                        work.append((s, iter(sorted(g[s]))))
                        adv = True
                        break
                    elif s in onstack:
                        low[n] = min(low[n], index[s])
                if adv:
                    continue
                work.pop()
                if work:
                    p = work[-1][0]
                    low[p] = min(low[p], low[n])
                if low[n] == index[n]:
                    comp = []
                    while True:
                        w = stack.pop()
                        onstack.discard(w)
                        comp.append(w)
                        if w == n:
                            break
                    if len(comp) > 1 or n in g[n]:
                        res.append(sorted(comp))
        return res


def body_module(b):
    """crate::module path derived from the source file (robust for impl / trait-impl paths)"""
    f = b.file
    crate = b.crate
    # core/src/report/book_keeping.rs -> okane_core::report::book_keeping
    parts = f.split("/")
    if "src" in parts:
        i = parts.index("src")
        rest = parts[i + 1:]
    else:
        rest = parts
    if rest and rest[-1].endswith(".rs"):
        rest[-1] = rest[-1][:-3]
    if rest and rest[-1] in ("lib", "mod", "main"):
        rest = rest[:-1]
    if rest and rest[0] == "bin":
        rest = ["bin"] + rest[1:]
    return "::".join([crate] + rest)


# ---------------------------------------------------------------------------
# provenance
# ---------------------------------------------------------------------------

def _nt(fs):
    """fields without the internal `?ok` marker (payload of the value a `?` unwrapped, not yet resolved)"""
    return tuple(f for f in fs if f != "?ok")


_END = 10 ** 9


def _def_reaches(body, dbb, didx, site):
    """can the definition at (dbb, didx) execute before the read at `site`?  (didx None: the block's terminator)"""
    sbb, sidx = site
    di = _END if didx is None else didx
    if dbb == sbb and di < sidx:
        return True
    cache = body.__dict__.setdefault("_after_cache", {})
    r = cache.get(dbb)
    if r is None:
        r = set()
        for s in body.succs(dbb):
            r |= body.reach_from(s)
        cache[dbb] = r
    return sbb in r


def _def_killed(body, w, d, site):
    """does every path from definition w = (bb, idx) to the read at `site` execute definition d first?  (block
    granularity; answers False when unsure)"""
    (wbb, wi), (dbb, di), (sbb, si) = w, d, site
    if w == d:
        return False
    if dbb == sbb and di < si:
        # d sits in the reading block just before the read: w survives only from in between
        return not (wbb == sbb and di < wi < si)
    if dbb == sbb:
        return False
    if wbb == dbb:
        return wi < di and not (sbb == wbb and wi < si < di)
    if wbb == sbb and wi < si:
        return False
    # from the end of w's block, the reading block is out of reach once d's block is taken away
    r = set()
    for s_ in body.succs(wbb):
        if s_ != dbb:
            r |= body.reach_from(s_, without_blocks=(dbb,))
    return sbb not in r


def prov(body, x, depth=0, _seen=None, via=(), suffix=(), site=None):
    """Backward slice of an operand or place to a set of Roots.  Flow-insensitive at the operand it is asked about;
    once the slice has followed a copy `_t = use(place)` it knows where `place` was read, and definitions that cannot
    execute before that read (an in-place update `x.f = g(x.f)` further down) are not sources of it."""
    if _seen is None:
        _seen = set()
    if "k" in x and x["k"] in ("copy", "move"):
        return prov(body, x["place"], depth, _seen, via, suffix, site)
    if "k" in x and x["k"] == "const":
        if x.get("fn"):
            return {Root("fn", norm(x.get("fn_resolved") or x["fn"]), _nt(suffix), tuple(via), None)}
        if x.get("closure"):
            return {Root("closure", norm(x["closure"]), _nt(suffix), tuple(via), None)}
        return {Root("const", x.get("repr", "?"), _nt(suffix), tuple(via), None)}
    if "k" in x and x["k"] == "other":
        return {Root("unknown", "?", _nt(suffix), tuple(via), None)}
    # place
    place = x
    l = place["l"]
    fields = tuple(proj_fields(place)) + tuple(suffix)
    if 1 <= l <= body.argc:
        if body.is_closure and l == 1:
            # closure environment: first field is the captured variable
            if _nt(fields):
                return {Root("capture", _nt(fields)[0], _nt(fields)[1:], tuple(via), None)}
            return {Root("capture", "<env>", (), tuple(via), None)}
        nm = body.local_name(l) or ("arg%d" % l)
        return {Root("param", "%d:%s" % (l, nm), _nt(fields), tuple(via), None)}
    key = (l, fields, tuple(via), site)
    if key in _seen or depth > 40:
        return set()
    _seen.add(key)
    out = set()
    defs = body.defs().get(l, [])
    if not defs:
        return {Root("undef", "_%d" % l, _nt(fields), tuple(via), None)}
    if sum(1 for d in defs if not d[3]["p"]) > 1 and "φ" not in via:
        # several reaching definitions (mutable variable): mark the slice as merged
        via = tuple(via) + ("φ",)
    live = []
    if site is not None:
        # definitions that can execute before the read, minus those overwritten on every path to it (`x = f()?; x.a =
        # self.a; .. x.a ..` reads self.a, not f()'s field)
        for d in defs:
            if any(p["k"] == "deref" for p in d[3]["p"]):
                continue
            if _def_reaches(body, d[1], d[2], site):
                live.append(d)
        covering = [d for d in live if fields[:len(tuple(proj_fields(d[3])))] == tuple(proj_fields(d[3]))
                    and not any(p["k"] not in ("field",) for p in d[3]["p"]) and d[0] != "setdiscr"]
        pos = lambda d: (d[1], _END if d[2] is None else d[2])
        live = [w for w in live if not any(_def_killed(body, pos(w), pos(d), site) for d in covering)]
    for d in (defs if site is None else live):
        kind, bb, idx, dplace, payload = d
        dfields = tuple(proj_fields(dplace))
        has_deref = any(p["k"] == "deref" for p in dplace["p"])
        if has_deref:
            continue
        here = (bb, _END if idx is None else idx)
        rest = fields
        if dfields:
            # partial definition `_l.f = ...`
            if fields[:len(dfields)] == dfields:
                rest = fields[len(dfields):]
            elif not fields:
                # whole value requested; a field write contributes that field only
                continue
            else:
                continue
        if kind == "setdiscr":
            out.add(Root("agg", "#" + payload["variant"], _nt(rest), tuple(via), bb))
            continue
        if kind == "call":
            t = payload
            names = callee_names(t)
            cd = callee_def(t)
            if cd is None:
                out.add(Root("call", "<indirect>", _nt(rest), tuple(via), bb))
                continue
            if cd == "std::ops::Try::branch" and len(rest) >= 2 and rest[0] == "#Continue" and rest[1] == "0":
                # `x?`: the Continue payload is the Ok/Some payload of x
                out |= prov(body, t["args"][0], depth + 1, _seen, tuple(via) + ("?",), ("?ok",) + tuple(rest[2:]), here)
                continue
            if names & _transparent() and t["args"]:
                short = cd.rsplit("::", 1)[-1]
                out |= prov(body, t["args"][0], depth + 1, _seen, tuple(via) + (short,), rest, here)
            else:
                out.add(Root("call", callee(t), _nt(rest), tuple(via), bb))
            continue
        rv = payload
        k = rv["k"]
        if k in ("use", "cast", "repeat"):
            out |= prov(body, rv["op"], depth + 1, _seen, via, rest, here)
        elif k in ("ref", "copyforderef", "rawptr"):
            out |= prov(body, rv["place"], depth + 1, _seen, via, rest, here)
        elif k == "aggregate" and rest and rest[0] == "?ok":
            # the value a `?` unwraps was built right here: Ok(x) / Some(x) hands x on, Err / None never gets past the `?`
            if rv.get("agg") == "adt" and rv.get("variant") in ("Ok", "Some") and rv["fields"]:
                out |= prov(body, rv["fields"][0]["op"], depth + 1, _seen, via, rest[1:], here)
            elif rv.get("agg") == "adt" and rv.get("variant") in ("Err", "None"):
                pass
            else:
                out.add(Root("agg", agg_name(rv), _nt(rest), tuple(via), bb))
        elif k == "aggregate":
            if rest and rv.get("agg") in ("adt", "tuple", "closure"):
                f0 = rest[0]
                r2 = rest[1:]
                if f0.startswith("#") and rv.get("agg") == "adt" and rv.get("variant") and f0[1:] != rv["variant"] \
                        and not f0[1:].isdigit() and body.raw.get("desugared") is not None:
                    continue        # payload of another variant than the one built here: not a feasible flow
                if f0.startswith("#") and r2:
                    # downcast then field
                    f0 = r2[0]
                    r2 = r2[1:]
                hit = False
                for f in rv["fields"]:
                    if f["name"] == f0:
                        out |= prov(body, f["op"], depth + 1, _seen, via, r2, here)
                        hit = True
                if not hit:
                    out.add(Root("agg", agg_name(rv), _nt(rest), tuple(via), bb))
            else:
                out.add(Root("agg", agg_name(rv), _nt(rest), tuple(via), bb))
        elif k == "unop":
            if rv["op"] == "Neg":
                out |= prov(body, rv["x"], depth + 1, _seen, tuple(via) + ("neg",), rest, here)
            elif rv["op"] == "Not":
                out |= prov(body, rv["x"], depth + 1, _seen, tuple(via) + ("not",), rest, here)
            else:
                out.add(Root("op", rv["op"], _nt(rest), tuple(via), bb))
        elif k == "binop":
            out.add(Root("op", rv["op"], _nt(rest), tuple(via), bb))
        elif k == "discriminant":
            out.add(Root("discr", "discr", _nt(rest), tuple(via), bb))
        else:
            out.add(Root("unknown", k, _nt(rest), tuple(via), bb))
    return out


def agg_name(rv):
    if rv.get("agg") == "adt":
        return "%s::%s" % (norm(rv["adt"]), rv["variant"])
    if rv.get("agg") == "closure":
        return "closure:" + norm(rv["closure"])
    return rv.get("agg", "?")


def prov_strs(body, x):
    return sorted(show_root(r) for r in prov(body, x))


def single_def(body, l):
    d = body.defs().get(l, [])
    whole = [x for x in d if not x[3]["p"]]
    if len(whole) == 1:
        return whole[0]
    return None


# ---------------------------------------------------------------------------
# switch atoms
# ---------------------------------------------------------------------------

Atom = namedtuple("Atom", "kind subject label bb")
# kind: 'variant' (subject = roots of scrutinee place, label = variant name or '~A|B')
#       'call'    (subject = (callee, (arg roots...)), label = True/False)
#       'cmp'     (subject = (op, lroots, rroots), label = True/False)
#       'bool'    (subject = roots, label True/False)
#       'int'     (subject = roots, label = value or '~..')


def _operand_local(o):
    if o.get("k") in ("copy", "move") and not o["place"]["p"]:
        return o["place"]["l"]
    return None


def describe_switch(body, bb):
    """-> (kind, subject, {target_bb: label}) or None"""
    t = body.term(bb)
    if t["k"] != "switch":
        return None
    neg = False
    o = t["discr"]
    kind = None
    subject = None
    variants = None
    seen = 0
    pos = len(body.blocks[bb]["stmts"])
    rsite = (bb, _END)          # where the operand under consideration is read
    while True:
        seen += 1
        l = _operand_local(o)
        if l is None or seen > 8:
            kind, subject = ("bool" if t["dty"] == "bool" else "int"), frozenset(prov(body, o, site=rsite))
            break
        d = single_def(body, l)
        if d is None and pos is not None:
            # several definitions: the one in this very block (after jump threading / tail duplication) decides
            sts = body.blocks[bb]["stmts"]
            for i in range(pos - 1, -1, -1):
                st = sts[i]
                if st.get("k") == "assign" and not st["place"]["p"] and st["place"]["l"] == l:
                    d = ("assign", bb, i, st["place"], st["rv"])
                    pos = i
                    break
        elif d is not None:
            pos = None if d[1] != bb else (d[2] if d[0] == "assign" else None)
        if d is None:
            kind, subject = ("bool" if t["dty"] == "bool" else "int"), frozenset(prov(body, o, site=rsite))
            break
        dk, dbb, didx, dplace, payload = d
        rsite = (dbb, _END if didx is None else didx)
        if dk == "call":
            cn = callee(payload)
            kind = "call"
            subject = (cn, tuple(frozenset(prov(body, a, site=rsite)) for a in payload["args"]), dbb)
            break
        if dk != "assign":
            kind, subject = "int", frozenset(prov(body, o, site=rsite))
            break
        rv = payload
        if rv["k"] == "discriminant":
            kind = "variant"
            subject = frozenset(prov(body, rv["place"], site=rsite))
            variants = rv.get("variants")
            break
        if rv["k"] == "unop" and rv["op"] == "Not":
            neg = not neg
            o = rv["x"]
            continue
        if rv["k"] == "use":
            o = rv["op"]
            if o.get("k") == "const":
                kind, subject = "const", o.get("repr")
                break
            continue
        if rv["k"] == "binop" and rv["op"] in ("Lt", "Le", "Gt", "Ge", "Eq", "Ne"):
            kind = "cmp"
            subject = (rv["op"], frozenset(prov(body, rv["l"], site=rsite)), frozenset(prov(body, rv["r"], site=rsite)),
                       (rv["l"], rv["r"]))
            break
        kind, subject = ("bool" if t["dty"] == "bool" else "int"), frozenset(prov(body, o, site=rsite))
        break
    labels = {}
    listed = []
    for v, tb in t["targets"]:
        if kind == "variant" and variants:
            lab = variants.get(v, v)
        elif t["dty"] == "bool":
            lab = (v != "0")
            if neg:
                lab = not lab
        else:
            lab = v
        listed.append(lab)
        labels.setdefault(tb, []).append(lab)
    ob = t["otherwise"]
    if kind == "variant" and variants:
        rest = [n for n in variants.values() if n not in listed]
        olabs = rest
    elif t["dty"] == "bool":
        olabs = [x for x in (True, False) if x not in listed]
    else:
        olabs = ["~" + "|".join(str(x) for x in listed)]
    # an `otherwise` leading to an unreachable block carries no label
    if body.term(ob)["k"] == "unreachable" and not body.blocks[ob]["stmts"]:
        pass
    else:
        labels.setdefault(ob, []).extend(olabs)
    return kind, subject, labels


def guards_at(body, site):
    """Atoms (switch decisions) that hold on every normal path from entry to site."""
    out = []
    for s in sorted(body.live_blocks()):
        if body.term(s)["k"] != "switch":
            continue
        ds = describe_switch(body, s)
        if ds is None:
            continue
        kind, subject, labels = ds
        for tb, labs in labels.items():
            if body.must_pass_edge(site, s, tb):
                out.append(Atom(kind, subject, tuple(labs), s))
    return out


def roots_match(roots, pred):
    return bool(roots) and all(pred(r) for r in roots)


def roots_any(roots, pred):
    return any(pred(r) for r in roots)


# ---------------------------------------------------------------------------
# path enumeration
# ---------------------------------------------------------------------------

class TooManyPaths(Exception):
    pass


def describe_value(body, o, depth=0):
    """Readable, structural description of the value of an operand (for return shapes)."""
    rs = prov(body, o)
    return "|".join(sorted(show_root(r) for r in rs))


def return_shape(body, path_blocks):
    """Describe what the path assigned to the return place _0 (last assignment wins)."""
    shape = None
    for bb in path_blocks:
        b = body.blocks[bb]
        for st in b["stmts"]:
            if st["k"] == "assign" and st["place"]["l"] == 0 and not st["place"]["p"]:
                shape = ("assign", bb, st["rv"])
            elif st["k"] == "assign" and st["place"]["l"] == 0:
                shape = ("partial", bb, st["rv"])
        t = b["term"]
        if t["k"] == "call" and t["dest"]["l"] == 0 and not t["dest"]["p"]:
            shape = ("call", bb, t)
    # `_0 = move tmp` where tmp has several definitions (an inlined helper's result, a match temporary): take the one
    # this path executed
    for _ in range(6):
        if shape is None or shape[0] != "assign" or shape[2]["k"] != "use":
            break
        o = shape[2]["op"]
        if o.get("k") not in ("copy", "move") or o["place"]["p"]:
            break
        l = o["place"]["l"]
        if single_def(body, l) is not None or 1 <= l <= body.argc:
            break
        found = None
        upto = path_blocks.index(shape[1]) if shape[1] in path_blocks else len(path_blocks) - 1
        for bb in path_blocks[:upto + 1]:
            b = body.blocks[bb]
            for st in b["stmts"]:
                if st is shape[2] or (bb == shape[1] and st.get("rv") is shape[2]):
                    break
                if st["k"] == "assign" and st["place"]["l"] == l and not st["place"]["p"]:
                    found = ("assign", bb, st["rv"])
            t = b["term"]
            if bb != shape[1] and t["k"] == "call" and t["dest"]["l"] == l and not t["dest"]["p"]:
                found = ("call", bb, t)
        if found is None:
            break
        shape = found
    return shape


def shape_str(body, shape, depth=0):
    if shape is None:
        return "unit"
    kind, bb, payload = shape
    if kind == "call":
        return "call:" + (callee(payload) or "<indirect>")
    rv = payload
    return rvalue_str(body, rv, depth)


def rvalue_str(body, rv, depth=0):
    k = rv["k"]
    if k == "aggregate":
        name = agg_name(rv)
        inner = []
        if depth < 3:
            for f in rv["fields"]:
                inner.append(operand_shape(body, f["op"], depth + 1))
        short = name.rsplit("::", 2)
        nm = "::".join(short[-2:]) if len(short) >= 2 else name
        return "%s(%s)" % (nm, ",".join(inner))
    if k == "use":
        return operand_shape(body, rv["op"], depth)
    if k in ("binop",):
        return "op:" + rv["op"]
    if k == "unop":
        return "op:%s(%s)" % (rv["op"], operand_shape(body, rv["x"], depth + 1))
    if k == "ref":
        return "&" + place_shape(body, rv["place"], depth)
    return k


def operand_shape(body, o, depth=0):
    if o.get("k") == "const":
        if o.get("fn"):
            return "fn:" + norm(o["fn"])
        return "const:" + str(o.get("repr"))
    return place_shape(body, o["place"], depth)


def place_shape(body, place, depth=0):
    l = place["l"]
    if not place["p"] and depth < 4:
        d = single_def(body, l)
        if d is not None and not (1 <= l <= body.argc):
            dk, dbb, didx, dplace, payload = d
            if dk == "assign" and payload["k"] in ("aggregate", "use", "unop"):
                return rvalue_str(body, payload, depth + 1)
            if dk == "call":
                return "call:" + (callee(payload) or "<indirect>")
    return "|".join(sorted(show_root(r) for r in prov(body, place)))


Path = namedtuple("Path", "blocks atoms calls shape")


def enumerate_paths(body, limit=4000, max_visits=1, start=0):
    """All normal paths entry -> Return visiting each block at most max_visits times.

    Each path records its switch atoms (kind, subject, labels, bb), the calls executed
    (callee, bb) in order, and the return shape.
    """
    results = []
    sw_cache = {}

    def sw(bb):
        if bb not in sw_cache:
            sw_cache[bb] = describe_switch(body, bb)
        return sw_cache[bb]

    def step_consts(bb, consts):
        """path-sensitive knowledge after block bb: constants in plain locals, enum variants just built (also nested in
        payloads and tuple fields), and which call produced a boolean (see inline._const_env)"""
        from . import inline as _inl
        c = _inl._const_env(body.blocks[bb]["stmts"], consts)
        t = body.blocks[bb]["term"]
        if t["k"] == "call" and not t["dest"]["p"]:
            dl = t["dest"]["l"]
            for k_ in [k_ for k_ in c if k_ == dl or (isinstance(k_, tuple) and k_[0] == dl)]:
                del c[k_]
            if body.local_ty(dl) == "bool":
                # remember which call produced this boolean: a later switch on a copy of it is a test of that call
                c[dl] = ("call", bb, True)
        return c

    # iterative DFS
    stack = [(start, (start,), (), (), step_consts(start, {}))]
    while stack:
        bb, blocks, atoms, calls, consts = stack.pop()
        t = body.term(bb)
        k = t["k"]
        if k == "return":
            results.append(Path(blocks, atoms, calls, return_shape(body, blocks)))
            if len(results) > limit:
                raise TooManyPaths(body.key)
            continue
        if k == "call":
            calls = calls + ((callee(t) or "<indirect>", bb),)
        if k == "switch":
            d = t["discr"]
            known = None
            if d.get("k") in ("copy", "move") and not d["place"]["p"]:
                known = consts.get(d["place"]["l"])
            elif d.get("k") in ("copy", "move") and len(d["place"]["p"]) == 1 and d["place"]["p"][0].get("k") == "field":
                # `match (a.is_empty(), b.is_empty())`: the switch reads a field of the tuple directly
                known = consts.get((d["place"]["l"], None, d["place"]["p"][0].get("name")))
            elif d.get("k") == "const" and "int" in d:
                known = d["int"]
            if isinstance(known, tuple) and known and known[0] != "call":
                known = None        # a variant, not a number: the discriminant read that follows turns it into one
            if known is not None and not isinstance(known, tuple):
                tb = t["otherwise"]
                for v, x in t["targets"]:
                    if str(v) == str(known):
                        tb = x
                if blocks.count(tb) < max_visits:
                    stack.append((tb, blocks + (tb,), atoms, calls, step_consts(tb, consts)))
                continue
            ds = sw(bb)
            kind, subject, labels = ds
            if isinstance(known, tuple) and kind in ("bool", "int") and t.get("dty") == "bool" and \
                    not (subject and all(r.kind == "const" for r in subject)):
                # the switched boolean is, on this path, the result of one particular call (several definitions reach the
                # switch, so it cannot be described flow-insensitively)
                ct = body.blocks[known[1]]["term"]
                kind = "call"
                subject = (callee(ct), tuple(frozenset(prov(body, a, site=(known[1], _END))) for a in ct["args"]), known[1])
                labels = {}
                for v, x in t["targets"]:
                    labels.setdefault(x, []).append((v != "0") == known[2])
                listed = [(v != "0") for v, x in t["targets"]]
                labels.setdefault(t["otherwise"], []).extend([(x == known[2]) for x in (True, False) if x not in listed])
            for tb in body.succs(bb):
                if blocks.count(tb) >= max_visits:
                    continue
                labs = tuple(labels.get(tb, ()))
                if not labs:
                    continue  # edge taken by no value of the scrutinee (exhausted `otherwise`)
                stack.append((tb, blocks + (tb,), atoms + (Atom(kind, subject, labs, bb),), calls,
                              step_consts(tb, consts)))
            continue
        for s in body.succs(bb):
            if blocks.count(s) >= max_visits:
                continue
            stack.append((s, blocks + (s,), atoms, calls, step_consts(s, consts)))
    return results


def path_body(body, path_blocks):
    """the straight-line function that executes exactly the blocks of one enumerated path (switches replaced by the
    jump the path takes, calls continuing in the path's next block).  Flow-insensitive queries on it are path-sensitive
    queries on the original."""
    import copy as _copy
    raw = {k: v for k, v in body.raw.items() if k != "blocks"}
    raw = _copy.copy(raw)
    raw["locals"] = body.raw["locals"]
    blocks = []
    n = len(path_blocks)
    for i, bb in enumerate(path_blocks):
        src = body.blocks[bb]
        t = src["term"]
        if i == n - 1:
            nt = t
        elif t["k"] == "call":
            nt = dict(t, target=i + 1, unwind=None)
        elif t["k"] in ("drop", "assert"):
            nt = dict(t, target=i + 1, unwind=None)
        else:
            nt = {"k": "goto", "target": i + 1, "span": t["span"]}
        blocks.append({"cleanup": False, "stmts": src["stmts"], "term": nt, "orig": bb})
    raw["blocks"] = blocks
    pb = Body(raw, body.crate, body.factfile)
    pb.path_of = body.key
    pb.orig_blocks = list(path_blocks)
    return pb


# ---------------------------------------------------------------------------
# convenience queries
# ---------------------------------------------------------------------------

def call_sites(body, names, live_only=True):
    """[(bb, term)] of calls whose def or resolved callee is in names (normalised)"""
    names = set(norm(n) for n in names)
    return [(bb, t) for bb, t in body.calls(live_only) if callee_names(t) & names]


def call_sites_like(body, pred, live_only=True):
    return [(bb, t) for bb, t in body.calls(live_only) if any(pred(n) for n in callee_names(t))]


def field_reads(body):
    """set of (adt, field) appearing in any place projection of the body (reads or writes)"""
    out = set()

    def visit_place(p):
        for e in p["p"]:
            if e["k"] == "field" and e.get("adt"):
                out.add((norm(e["adt"]), e["name"]))

    for b in body.blocks:
        if b["cleanup"]:
            continue
        for st in b["stmts"]:
            if st["k"] != "assign":
                continue
            rv = st["rv"]
            visit_place(st["place"])
            for o in rvalue_operands(rv):
                if o.get("k") in ("copy", "move"):
                    visit_place(o["place"])
            if rv["k"] in ("ref", "copyforderef", "discriminant", "rawptr"):
                visit_place(rv["place"])
        t = b["term"]
        if t["k"] == "call":
            for a in t["args"]:
                if a.get("k") in ("copy", "move"):
                    visit_place(a["place"])
            visit_place(t["dest"])
        elif t["k"] == "switch" and t["discr"].get("k") in ("copy", "move"):
            visit_place(t["discr"]["place"])
        elif t["k"] == "drop":
            pass
    return out
