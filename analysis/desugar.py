"""Desugaring of std combinators over the okfacts MIR (a normalisation, not an execution).

`desugared(P, key)` returns a synthetic Body in which
  * calls of Option / Result / bool combinators (map, map_err, and_then, unwrap_or_else, ok_or_else, is_some_and,
    transpose, then, ...) are replaced by the `match` they abbreviate,
  * Iterator::try_for_each / for_each / any / all are replaced by the `loop { match next() .. }` they abbreviate,
  * a local closure (or local fn item) handed to one of them is inlined at the point where the combinator calls it,
  * helper functions selected by the inline policy are inlined as in analysis/inline.py,
and the result is jump-threaded.  `match` forms and combinator forms of the same code become the same graph, and a
closure body sees the variables of the function that wrote it instead of opaque captures.

Every template is the documented behaviour of the std function it replaces (core::option / core::result /
core::iter::Iterator provided methods); nothing here depends on okane."""
import copy

from . import mir, inline
from .mir import norm

OPT = "std::option::Option"
RES = "std::result::Result"
CF_ = "std::ops::ControlFlow"
VARIANTS = {OPT: {"0": "None", "1": "Some"}, RES: {"0": "Ok", "1": "Err"},
            "std::ops::ControlFlow": {"0": "Continue", "1": "Break"}}
CF = "std::ops::ControlFlow"
VI = {(OPT, "None"): 0, (OPT, "Some"): 1, (RES, "Ok"): 0, (RES, "Err"): 1, (CF, "Continue"): 0, (CF, "Break"): 1}


class Builder:
    def __init__(self, raw, span):
        self.raw = raw
        self.locals = raw["locals"]
        self.blocks = raw["blocks"]
        self.span = span
        self.line = span.get("line", 0)

    def local(self, ty="?", name=None):
        self.locals.append({"ty": ty, "name": name, "user": False, "synthetic": True})
        return len(self.locals) - 1

    def block(self, stmts=None, term=None):
        self.blocks.append({"cleanup": False, "stmts": stmts or [], "term": term or {"k": "unreachable", "span": self.span},
                            "synthetic": True})
        return len(self.blocks) - 1

    def goto(self, target):
        return {"k": "goto", "target": target, "span": self.span}

    def assign(self, place, rv):
        if isinstance(place, int):
            place = {"l": place, "p": []}
        return {"k": "assign", "place": place, "rv": rv, "line": self.line}

    def use(self, op):
        return {"k": "use", "op": op}

    def mv(self, l, proj=None):
        return {"k": "move", "place": {"l": l, "p": proj or []}}

    def cp(self, l, proj=None):
        return {"k": "copy", "place": {"l": l, "p": proj or []}}

    def payload(self, l, adt, variant, field="0"):
        return [{"k": "downcast", "variant": variant, "vi": VI[(adt, variant)]},
                {"k": "field", "i": int(field), "name": field, "adt": adt}]

    def agg(self, adt, variant, ops):
        return {"k": "aggregate", "agg": "adt", "adt": adt, "variant": variant,
                "fields": [{"name": str(i), "op": o} for i, o in enumerate(ops)]}

    def const_bool(self, v):
        return {"k": "const", "repr": "true" if v else "false", "int": 1 if v else 0, "ty": "bool"}

    def const_unit(self):
        return {"k": "const", "repr": "()", "ty": "()"}

    def switch_variant(self, l, adt, arms):
        """block that switches on the discriminant of local l; arms: {variant: target}"""
        d = self.local("isize")
        st = self.assign(d, {"k": "discriminant", "place": {"l": l, "p": []}, "adt": adt, "variants": dict(VARIANTS[adt])})
        un = self.block()
        targets = [[str(VI[(adt, v)]), tb] for v, tb in arms.items()]
        return [st], {"k": "switch", "discr": self.mv(d), "dty": "isize", "targets": targets, "otherwise": un, "span": self.span}

    def switch_bool(self, op, t_true, t_false):
        return {"k": "switch", "discr": op, "dty": "bool", "targets": [["0", t_false]], "otherwise": t_true, "span": self.span}


def _closure_of(raw, op):
    """(kind, key, local) of the callable operand: ('closure', body key, local) | ('fn', path, None) | None"""
    if op.get("k") == "const":
        if op.get("fn"):
            return ("fn", op, None)
        if op.get("closure"):
            return ("closure", norm(op["closure"]), None)     # zero-sized closure constant
        return None
    if op.get("k") not in ("copy", "move") or op["place"]["p"]:
        return None
    l = op["place"]["l"]
    found = None
    n = 0
    for blk in raw["blocks"]:
        for st in blk["stmts"]:
            if st.get("k") == "assign" and st["place"]["l"] == l and not st["place"]["p"]:
                n += 1
                rv = st["rv"]
                if rv["k"] == "aggregate" and rv.get("agg") == "closure":
                    found = ("closure", norm(rv["closure"]), l)
                elif rv["k"] == "use" and rv["op"].get("k") == "const" and rv["op"].get("fn"):
                    found = ("fn", rv["op"], None)
                elif rv["k"] == "use" and rv["op"].get("k") == "const" and rv["op"].get("closure"):
                    found = ("closure", norm(rv["op"]["closure"]), l)
        t = blk["term"]
        if t["k"] == "call" and t["dest"]["l"] == l and not t["dest"]["p"]:
            n += 1
    if n == 1:
        return found
    return None


ADAPTERS = ("std::iter::Iterator::map", "std::iter::Iterator::filter_map", "std::iter::Iterator::filter",
            "std::iter::Iterator::copied", "std::iter::Iterator::cloned", "std::iter::Iterator::inspect")


def _single_def(raw, l):
    """the only whole-local definition of l: ('assign', rv) | ('call', block index) | None"""
    found = None
    n = 0
    for i, blk in enumerate(raw["blocks"]):
        for st in blk["stmts"]:
            if st.get("k") == "assign" and st["place"]["l"] == l and not st["place"]["p"]:
                n += 1
                found = ("assign", st["rv"])
        t = blk["term"]
        if t["k"] == "call" and t["dest"]["l"] == l and not t["dest"]["p"]:
            n += 1
            found = ("call", i)
    return found if n == 1 else None


def _adapter_site(raw, op, depth=0):
    """block index of the lazy-adapter call (map / filter_map / filter ...) that built the iterator `op` refers to"""
    if depth > 8 or op.get("k") not in ("copy", "move"):
        return None
    pl = op["place"]
    if any(e.get("k") != "deref" for e in pl["p"]):
        return None
    d = _single_def(raw, pl["l"])
    if d is None:
        return None
    if d[0] == "assign":
        rv = d[1]
        if rv["k"] == "ref" and not any(e.get("k") != "deref" for e in rv["place"]["p"]):
            return _adapter_site(raw, {"k": "copy", "place": {"l": rv["place"]["l"], "p": []}}, depth + 1)
        if rv["k"] == "use":
            return _adapter_site(raw, rv["op"], depth + 1)
        return None
    t = raw["blocks"][d[1]]["term"]
    name = norm(t["f"].get("def") or "")
    if name in ADAPTERS:
        return d[1]
    if name in ("std::iter::IntoIterator::into_iter", "std::iter::Iterator::by_ref") and t["args"]:
        return _adapter_site(raw, t["args"][0], depth + 1)
    return None


class Desugarer:
    closures_only = False
    expand_try = False

    def __init__(self, P, key, policy):
        self.P = P
        self.key = key
        self.policy = policy
        root = P.body(key)
        self.root = root
        self.raw = copy.deepcopy(root.raw)
        self.raw.setdefault("inlined", [])
        self.raw["desugared"] = []
        self.budget = 8000

    # -- calling a closure / fn item at a point ------------------------------------------------
    def call(self, B, fn, args, dest, cont, stack, by_ref=True):
        """blocks that compute dest = fn(args...) and continue at cont; returns the entry block index.
        fn: result of _closure_of; args: list of operands"""
        kind, what, cl = fn
        if kind == "closure":
            cb = self.P.bodies.get(what)
            if cb is not None and what not in stack and cb.argc == len(args) + 1 and len(self.raw["blocks"]) + len(cb.blocks) < self.budget:
                return self.inline_body(B, cb, [None] + list(args), dest, cont, stack + (what,), env_local=cl)
        if kind == "fn":
            f = {"def": what["fn"], "written": what["fn"], "resolved": what.get("fn_resolved"), "resolved_args": None,
                 "ikind": "Item", "local": norm(what.get("fn_resolved") or what["fn"]) in self.P.bodies}
            return B.block([], {"k": "call", "f": f, "args": list(args), "dest": {"l": dest, "p": []}, "target": cont,
                                "unwind": None, "span": B.span})
        # unknown callable: keep an opaque indirect call
        f = {"def": None, "indirect": what if isinstance(what, dict) else None}
        return B.block([], {"k": "call", "f": f, "args": list(args), "dest": {"l": dest, "p": []}, "target": cont,
                            "unwind": None, "span": B.span})

    def inline_body(self, B, cb, args, dest, cont, stack, env_local=None):
        raw = self.raw
        loff = len(raw["locals"])
        boff = len(raw["blocks"])
        for l in cb.raw["locals"]:
            raw["locals"].append(dict(l))
        destp = {"l": dest, "p": []}
        for blk in cb.raw["blocks"]:
            nb = {"cleanup": blk.get("cleanup", False), "stmts": [inline._map_stmt(s, loff) for s in blk["stmts"]], "from": cb.key}
            extra, nt = inline._map_term(blk["term"], loff, boff, cont, destp)
            nb["stmts"] += extra
            nb["term"] = nt
            raw["blocks"].append(nb)
            self.pending.append((len(raw["blocks"]) - 1, stack))
        pre = []
        for i, a in enumerate(args):
            pl = {"l": loff + 1 + i, "p": []}
            if a is None:
                # closure environment
                if env_local is None:
                    continue
                ety = str(cb.raw["locals"][1]["ty"]) if len(cb.raw["locals"]) > 1 else ""
                if ety.startswith("&"):
                    pre.append(B.assign(pl, {"k": "ref", "mut": ety.startswith("&mut"), "place": {"l": env_local, "p": []}}))
                else:
                    pre.append(B.assign(pl, B.use(B.cp(env_local))))
            else:
                pre.append(B.assign(pl, B.use(a)))
        raw["inlined"].append(cb.key)
        return B.block(pre, dict(B.goto(boff), inlined_call=cb.key))

    # -- templates ---------------------------------------------------------------------------------
    def expand(self, bi, stack):
        raw = self.raw
        t = raw["blocks"][bi]["term"]
        f = t["f"]
        if f.get("def") is None or t.get("target") is None or t["dest"]["p"]:
            return False
        name = norm(f["def"])
        args = t["args"]
        D = t["dest"]["l"]
        T = t["target"]
        B = Builder(raw, t["span"])

        def fnarg(i):
            return _closure_of(raw, args[i]) if len(args) > i else None

        def recv(ty="?"):
            # copy the receiver into a fresh plain local so that downcasts apply to a local
            x = B.local(ty)
            return x, B.assign(x, B.use(args[0]))

        def finish(entry_stmts, entry_term):
            blk = raw["blocks"][bi]
            blk["stmts"] = blk["stmts"] + entry_stmts
            blk["term"] = dict(entry_term, desugared=name)
            raw["desugared"].append(name)
            return True

        def two_way(adt, arms):
            """arms: {variant: builder(xlocal) -> entry block}"""
            x, st = recv()
            targets = {v: mk(x) for v, mk in arms.items()}
            sts, sw = B.switch_variant(x, adt, targets)
            return finish([st] + sts, sw)

        def pay(x, adt, v):
            return B.mv(x, B.payload(x, adt, v))

        def ret_block(rv):
            return B.block([B.assign(D, rv)], B.goto(T))

        def eager(op):
            """rvalue for `D = <eagerly evaluated argument>`: when the argument is a temporary built by one pure
            statement (Ok(x), Some(x), a constant, a copy), that statement is repeated at the point of use"""
            if op.get("k") in ("copy", "move") and not op["place"]["p"]:
                d = _single_def(raw, op["place"]["l"])
                if d and d[0] == "assign" and d[1]["k"] in ("aggregate", "use") and not raw["locals"][op["place"]["l"]].get("user"):
                    return copy.deepcopy(d[1])
            return B.use(op)

        def call_then(fn, a, mk_rv):
            """r = fn(a..); D = mk_rv(r); goto T"""
            r = B.local()
            after = B.block([B.assign(D, mk_rv(B.mv(r)))], B.goto(T))
            return self.call(B, fn, a, r, after, stack)

        def call_into(fn, a):
            """D = fn(a..); goto T"""
            return self.call(B, fn, a, D, T, stack)

        def ret_ty(fn_):
            """declared result type of the closure / fn handed to the combinator ('' when unknown)"""
            if fn_ and fn_[0] == "closure":
                cb_ = self.P.bodies.get(fn_[1])
                if cb_ is not None:
                    return str(cb_.raw["locals"][0]["ty"])
            return ""

        def try_f(kind_, ty_, dty_=""):
            """callee record of a synthetic Try::branch / from_residual / from_output on a value of type ty_"""
            base = {"branch": "std::ops::Try::branch", "from_output": "std::ops::Try::from_output",
                    "from_residual": "std::ops::FromResidual::from_residual"}[kind_]
            w = base
            if ty_.startswith(("std::result::Result<", "core::result::Result<")):
                w = "<%s as std::ops::Try>::%s" % (ty_, kind_) if kind_ != "from_residual" else \
                    "<%s as std::ops::FromResidual<std::result::Result<std::convert::Infallible, _>>>::from_residual" % (dty_ or ty_)
            elif ty_.startswith(("std::option::Option<", "core::option::Option<")):
                w = "<%s as std::ops::Try>::%s" % (ty_, kind_) if kind_ != "from_residual" else \
                    "<%s as std::ops::FromResidual<std::option::Option<std::convert::Infallible>>>::from_residual" % (dty_ or ty_)
            return {"def": base, "written": w, "resolved": w if w != base else None, "resolved_args": None, "ikind": "Item", "local": False}

        def ty_of(op):
            if op.get("k") in ("copy", "move") and not op["place"]["p"]:
                return str(raw["locals"][op["place"]["l"]]["ty"])
            return "?"

        def next_f(op):
            """callee record of a synthetic Iterator::next on the iterator held by operand `op` (typed when known)"""
            w = "std::iter::Iterator::next"
            res = None
            if op.get("k") in ("copy", "move") and not op["place"]["p"]:
                ty = str(raw["locals"][op["place"]["l"]]["ty"])
                while ty.startswith("&"):
                    ty = ty[1:].lstrip()
                    if ty.startswith("mut "):
                        ty = ty[4:]
                if ty and ty != "?":
                    res = "<%s as std::iter::Iterator>::next" % ty
            return {"def": w, "written": res or w, "resolved": res, "resolved_args": None, "ikind": "Item", "local": False}

        short = name.rsplit("::", 1)[-1]
        owner = name.rsplit("::", 1)[0]
        if self.closures_only and short in ("unwrap_or", "ok_or", "or", "ok", "err", "transpose", "then_some"):
            return False         # value-only combinators stay calls in the 'closures' view
        if self.closures_only and name in ("std::iter::Iterator::any", "std::iter::Iterator::all"):
            return False         # membership / universal tests stay calls there too (rules name them)
        if owner == OPT:
            adt = OPT
            if short == "map" and fnarg(1):
                fn = fnarg(1)
                return two_way(adt, {"Some": lambda x: call_then(fn, [pay(x, OPT, "Some")], lambda r: B.agg(OPT, "Some", [r])),
                                     "None": lambda x: ret_block(B.agg(OPT, "None", []))})
            if short == "and_then" and fnarg(1):
                fn = fnarg(1)
                return two_way(adt, {"Some": lambda x: call_into(fn, [pay(x, OPT, "Some")]),
                                     "None": lambda x: ret_block(B.agg(OPT, "None", []))})
            if short == "unwrap_or_else" and fnarg(1):
                fn = fnarg(1)
                return two_way(adt, {"Some": lambda x: ret_block(B.use(pay(x, OPT, "Some"))),
                                     "None": lambda x: call_into(fn, [])})
            if short == "unwrap_or" and len(args) == 2:
                return two_way(adt, {"Some": lambda x: ret_block(B.use(pay(x, OPT, "Some"))),
                                     "None": lambda x: ret_block(eager(args[1]))})
            if short == "ok_or" and len(args) == 2:
                return two_way(adt, {"Some": lambda x: ret_block(B.agg(RES, "Ok", [pay(x, OPT, "Some")])),
                                     "None": lambda x: ret_block(B.agg(RES, "Err", [args[1]]))})
            if short == "ok_or_else" and fnarg(1):
                fn = fnarg(1)
                return two_way(adt, {"Some": lambda x: ret_block(B.agg(RES, "Ok", [pay(x, OPT, "Some")])),
                                     "None": lambda x: call_then(fn, [], lambda r: B.agg(RES, "Err", [r]))})
            if short == "or_else" and fnarg(1):
                fn = fnarg(1)
                return two_way(adt, {"Some": lambda x: ret_block(B.agg(OPT, "Some", [pay(x, OPT, "Some")])),
                                     "None": lambda x: call_into(fn, [])})
            if short == "or" and len(args) == 2:
                return two_way(adt, {"Some": lambda x: ret_block(B.agg(OPT, "Some", [pay(x, OPT, "Some")])),
                                     "None": lambda x: ret_block(eager(args[1]))})
            if short == "map_or" and fnarg(2):
                fn = fnarg(2)
                return two_way(adt, {"Some": lambda x: call_into(fn, [pay(x, OPT, "Some")]),
                                     "None": lambda x: ret_block(eager(args[1]))})
            if short == "map_or_else" and fnarg(1) and fnarg(2):
                fd, fn = fnarg(1), fnarg(2)
                return two_way(adt, {"Some": lambda x: call_into(fn, [pay(x, OPT, "Some")]),
                                     "None": lambda x: call_into(fd, [])})
            if short == "filter" and fnarg(1):
                # Some(a) if pred(&a) => Some(a), otherwise None
                fn = fnarg(1)

                def some_arm_f(x):
                    r = B.local("bool")
                    ref = B.local()
                    keep = ret_block(B.agg(OPT, "Some", [pay(x, OPT, "Some")]))
                    drop_ = ret_block(B.agg(OPT, "None", []))
                    after = B.block([], B.switch_bool(B.mv(r), keep, drop_))
                    entry = self.call(B, fn, [B.mv(ref)], r, after, stack)
                    return B.block([B.assign(ref, {"k": "ref", "mut": False, "place": {"l": x, "p": B.payload(x, OPT, "Some")}})], B.goto(entry))
                return two_way(adt, {"Some": some_arm_f, "None": lambda x: ret_block(B.agg(OPT, "None", []))})
            if short in ("is_some_and", "is_none_or") and fnarg(1):
                fn = fnarg(1)
                return two_way(adt, {"Some": lambda x: call_into(fn, [pay(x, OPT, "Some")]),
                                     "None": lambda x: ret_block(B.use(B.const_bool(short == "is_none_or")))})
            if short == "transpose" and len(args) == 1:
                def some_arm(x):
                    y = B.local()
                    inner = B.local()
                    okb = B.block([B.assign(inner, B.agg(OPT, "Some", [pay(y, RES, "Ok")])),
                                   B.assign(D, B.agg(RES, "Ok", [B.mv(inner)]))], B.goto(T))
                    errb = ret_block(B.agg(RES, "Err", [pay(y, RES, "Err")]))
                    sts, sw = B.switch_variant(y, RES, {"Ok": okb, "Err": errb})
                    return B.block([B.assign(y, B.use(pay(x, OPT, "Some")))] + sts, sw)

                def none_arm(x):
                    inner = B.local()
                    return B.block([B.assign(inner, B.agg(OPT, "None", [])), B.assign(D, B.agg(RES, "Ok", [B.mv(inner)]))], B.goto(T))
                return two_way(adt, {"Some": some_arm, "None": none_arm})
        if owner == RES:
            adt = RES
            if short == "map" and fnarg(1):
                fn = fnarg(1)
                return two_way(adt, {"Ok": lambda x: call_then(fn, [pay(x, RES, "Ok")], lambda r: B.agg(RES, "Ok", [r])),
                                     "Err": lambda x: ret_block(B.agg(RES, "Err", [pay(x, RES, "Err")]))})
            if short == "map_err" and fnarg(1):
                fn = fnarg(1)
                return two_way(adt, {"Ok": lambda x: ret_block(B.agg(RES, "Ok", [pay(x, RES, "Ok")])),
                                     "Err": lambda x: call_then(fn, [pay(x, RES, "Err")], lambda r: B.agg(RES, "Err", [r]))})
            if short == "and_then" and fnarg(1):
                fn = fnarg(1)
                return two_way(adt, {"Ok": lambda x: call_into(fn, [pay(x, RES, "Ok")]),
                                     "Err": lambda x: ret_block(B.agg(RES, "Err", [pay(x, RES, "Err")]))})
            if short == "or_else" and fnarg(1):
                fn = fnarg(1)
                return two_way(adt, {"Ok": lambda x: ret_block(B.agg(RES, "Ok", [pay(x, RES, "Ok")])),
                                     "Err": lambda x: call_into(fn, [pay(x, RES, "Err")])})
            if short == "unwrap_or_else" and fnarg(1):
                fn = fnarg(1)
                return two_way(adt, {"Ok": lambda x: ret_block(B.use(pay(x, RES, "Ok"))),
                                     "Err": lambda x: call_into(fn, [pay(x, RES, "Err")])})
            if short == "unwrap_or" and len(args) == 2:
                return two_way(adt, {"Ok": lambda x: ret_block(B.use(pay(x, RES, "Ok"))),
                                     "Err": lambda x: ret_block(eager(args[1]))})
            if short == "ok" and len(args) == 1:
                return two_way(adt, {"Ok": lambda x: ret_block(B.agg(OPT, "Some", [pay(x, RES, "Ok")])),
                                     "Err": lambda x: ret_block(B.agg(OPT, "None", []))})
            if short == "err" and len(args) == 1:
                return two_way(adt, {"Err": lambda x: ret_block(B.agg(OPT, "Some", [pay(x, RES, "Err")])),
                                     "Ok": lambda x: ret_block(B.agg(OPT, "None", []))})
            if short in ("is_ok_and", "is_err_and") and fnarg(1):
                fn = fnarg(1)
                hit, miss = ("Ok", "Err") if short == "is_ok_and" else ("Err", "Ok")
                return two_way(adt, {hit: lambda x: call_into(fn, [pay(x, RES, hit)]),
                                     miss: lambda x: ret_block(B.use(B.const_bool(False)))})
            if short == "transpose" and len(args) == 1:
                def ok_arm(x):
                    y = B.local()
                    inner = B.local()
                    someb = B.block([B.assign(inner, B.agg(RES, "Ok", [pay(y, OPT, "Some")])),
                                     B.assign(D, B.agg(OPT, "Some", [B.mv(inner)]))], B.goto(T))
                    noneb = ret_block(B.agg(OPT, "None", []))
                    sts, sw = B.switch_variant(y, OPT, {"Some": someb, "None": noneb})
                    return B.block([B.assign(y, B.use(pay(x, RES, "Ok")))] + sts, sw)

                def err_arm(x):
                    inner = B.local()
                    return B.block([B.assign(inner, B.agg(RES, "Err", [pay(x, RES, "Err")])),
                                    B.assign(D, B.agg(OPT, "Some", [B.mv(inner)]))], B.goto(T))
                return two_way(adt, {"Ok": ok_arm, "Err": err_arm})
        if name in ("bool::then", "core::bool::then", "std::bool::then") or (owner.endswith("bool") and short == "then"):
            if fnarg(1):
                fn = fnarg(1)
                some = call_then(fn, [], lambda r: B.agg(OPT, "Some", [r]))
                none = ret_block(B.agg(OPT, "None", []))
                return finish([], B.switch_bool(args[0], some, none))
        if owner.endswith("bool") and short == "then_some" and len(args) == 2:
            some = ret_block(B.agg(OPT, "Some", [args[1]]))
            none = ret_block(B.agg(OPT, "None", []))
            return finish([], B.switch_bool(args[0], some, none))
        if name in ("std::ops::Fn::call", "std::ops::FnMut::call_mut", "std::ops::FnOnce::call_once") and len(args) == 2:
            # a local closure called directly: `let f = || ..; f()` - its body runs here
            ck = norm(f.get("resolved") or "")
            cb = self.P.bodies.get(ck)
            if cb is not None and cb.is_closure and ck not in stack and len(raw["blocks"]) + len(cb.blocks) < self.budget:
                tup = args[1]
                fields = None
                if tup.get("k") in ("copy", "move") and not tup["place"]["p"]:
                    d = _single_def(raw, tup["place"]["l"])
                    if d and d[0] == "assign" and d[1]["k"] == "aggregate" and d[1].get("agg") == "tuple":
                        fields = [x["op"] for x in d[1]["fields"]]
                elif tup.get("k") == "const":
                    fields = []
                if fields is not None and cb.argc == len(fields) + 1:
                    entry = self.inline_body(B, cb, [args[0]] + fields, D, T, stack + (ck,))
                    return finish([], B.goto(entry))
        if name == "std::ops::Try::branch" and len(args) == 1 and self.expand_try:
            who = str(f.get("resolved") or "") + " " + str(f.get("written") or "")
            if "<std::result::Result<" in who or "<core::result::Result<" in who:
                # Ok(v) => Continue(v), Err(e) => Break(Err(e))
                def err_arm(x):
                    tmp = B.local()
                    return B.block([B.assign(tmp, B.agg(RES, "Err", [pay(x, RES, "Err")])),
                                    B.assign(D, B.agg(CF, "Break", [B.mv(tmp)]))], B.goto(T))
                return two_way(RES, {"Ok": lambda x: ret_block(B.agg(CF, "Continue", [pay(x, RES, "Ok")])), "Err": err_arm})
            if "<std::option::Option<" in who or "<core::option::Option<" in who:
                def none_arm(x):
                    tmp = B.local()
                    return B.block([B.assign(tmp, B.agg(OPT, "None", [])),
                                    B.assign(D, B.agg(CF, "Break", [B.mv(tmp)]))], B.goto(T))
                return two_way(OPT, {"Some": lambda x: ret_block(B.agg(CF, "Continue", [pay(x, OPT, "Some")])), "None": none_arm})
        if name == "std::ops::FromResidual::from_residual" and len(args) == 1 and self.expand_try:
            who = str(f.get("resolved") or "") + " " + str(f.get("written") or "")
            if who.lstrip().startswith(("<std::result::Result<", "<core::result::Result<")) and "Infallible" in who:
                # Err(e) => Err(From::from(e))
                x, st = recv()
                r = B.local()
                after = B.block([B.assign(D, B.agg(RES, "Err", [B.mv(r)]))], B.goto(T))
                ff = {"def": "std::convert::From::from", "written": "std::convert::From::from", "resolved": None,
                      "resolved_args": None, "ikind": "Item", "local": False}
                return finish([st], {"k": "call", "f": ff, "args": [pay(x, RES, "Err")], "dest": {"l": r, "p": []},
                                     "target": after, "unwind": None, "span": B.span})
            if who.lstrip().startswith(("<std::option::Option<", "<core::option::Option<")):
                return finish([B.assign(D, B.agg(OPT, "None", []))], B.goto(T))
        if name == "std::iter::Iterator::next" and len(args) == 1:
            site = _adapter_site(raw, args[0])
            if site is not None and site != bi:
                at = raw["blocks"][site]["term"]
                aname = norm(at["f"]["def"]).rsplit("::", 1)[-1]
                fn = _closure_of(raw, at["args"][1]) if len(at["args"]) > 1 else None
                if aname in ("copied", "cloned") or fn:
                    inner = at.get("fused_inner")
                    if inner is None:
                        inner = B.local()
                        raw["blocks"][site]["stmts"].append(B.assign(inner, B.use(dict(at["args"][0], k="copy"))))
                        at["fused_inner"] = inner
                    a = B.local()
                    rin = B.local()
                    nf = {"def": "std::iter::Iterator::next", "written": "std::iter::Iterator::next", "resolved": None,
                          "resolved_args": None, "ikind": "Item", "local": False}
                    sw_blk = B.block()
                    header = B.block([B.assign(rin, {"k": "ref", "mut": True, "place": {"l": inner, "p": []}})],
                                     {"k": "call", "f": nf, "args": [B.mv(rin)], "dest": {"l": a, "p": []}, "target": sw_blk,
                                      "unwind": None, "span": B.span})
                    none = ret_block(B.agg(OPT, "None", []))
                    if aname == "map":
                        some = call_then(fn, [pay(a, OPT, "Some")], lambda r: B.agg(OPT, "Some", [r]))
                    elif aname in ("copied", "cloned"):
                        some = ret_block(B.use(B.mv(a)))
                    elif aname == "inspect":
                        r = B.local()
                        ref = B.local()
                        after = ret_block(B.use(B.mv(a)))
                        entry = self.call(B, fn, [B.mv(ref)], r, after, stack)
                        some = B.block([B.assign(ref, {"k": "ref", "mut": False, "place": {"l": a, "p": B.payload(a, OPT, "Some")}})],
                                       B.goto(entry))
                    elif aname == "filter_map":
                        r = B.local()
                        hit = ret_block(B.use(B.mv(r)))
                        sts2, sw2 = B.switch_variant(r, OPT, {"Some": hit, "None": header})
                        after = B.block(sts2, sw2)
                        some = self.call(B, fn, [pay(a, OPT, "Some")], r, after, stack)
                    else:   # filter
                        r = B.local("bool")
                        ref = B.local()
                        hit = ret_block(B.use(B.mv(a)))
                        after = B.block([], B.switch_bool(B.mv(r), hit, header))
                        entry = self.call(B, fn, [B.mv(ref)], r, after, stack)
                        some = B.block([B.assign(ref, {"k": "ref", "mut": False, "place": {"l": a, "p": B.payload(a, OPT, "Some")}})],
                                       B.goto(entry))
                    sts, sw = B.switch_variant(a, OPT, {"Some": some, "None": none})
                    raw["blocks"][sw_blk]["stmts"] = sts
                    raw["blocks"][sw_blk]["term"] = sw
                    return finish([], B.goto(header))
        if name in ("std::iter::Iterator::try_fold", "std::iter::Iterator::fold") and len(args) == 3 and fnarg(2):
            # acc = init; loop { match it.next() { None => break, Some(x) => acc = f(acc, x) [?] } }
            fn = fnarg(2)
            it = B.local(ty_of(args[0]))
            acc = B.local(ty_of(args[1]))
            pre = [B.assign(it, B.use(args[0])), B.assign(acc, B.use(args[1]))]
            nf = next_f(args[0])
            item = B.local()
            sw_blk = B.block()
            header = B.block()
            hs = []
            if short == "fold":
                itref = B.local()
                hs.append(B.assign(itref, {"k": "ref", "mut": True, "place": {"l": it, "p": []}}))
                nxt_arg = B.mv(itref)
            else:
                nxt_arg = B.cp(it)
            raw["blocks"][header]["stmts"] = hs
            raw["blocks"][header]["term"] = {"k": "call", "f": nf, "args": [nxt_arg], "dest": {"l": item, "p": []},
                                             "target": sw_blk, "unwind": None, "span": B.span}
            r = B.local()
            if short == "fold":
                after = B.block([B.assign(acc, B.use(B.mv(r)))], B.goto(header))
                body_entry = self.call(B, fn, [B.mv(acc), pay(item, OPT, "Some")], r, after, stack)
                done = ret_block(B.use(B.mv(acc)))
            else:
                br = B.local()
                brsw = B.block()
                rty = ret_ty(fn)
                dty = str(raw["locals"][D]["ty"])
                tf = try_f("branch", rty)
                after = B.block([], {"k": "call", "f": tf, "args": [B.mv(r)], "dest": {"l": br, "p": []}, "target": brsw,
                                     "unwind": None, "span": B.span})
                res = B.local()
                ff = try_f("from_residual", rty, dty)
                brk = B.block([B.assign(res, B.use(B.mv(br, [{"k": "downcast", "variant": "Break", "vi": 1},
                                                             {"k": "field", "i": 0, "name": "0", "adt": CF}])))],
                              {"k": "call", "f": ff, "args": [B.mv(res)], "dest": {"l": D, "p": []}, "target": T,
                               "unwind": None, "span": B.span})
                cont = B.block([B.assign(acc, B.use(B.mv(br, [{"k": "downcast", "variant": "Continue", "vi": 0},
                                                              {"k": "field", "i": 0, "name": "0", "adt": CF}])))], B.goto(header))
                d = B.local("isize")
                un = B.block()
                raw["blocks"][brsw]["stmts"] = [B.assign(d, {"k": "discriminant", "place": {"l": br, "p": []}, "adt": CF,
                                                             "variants": dict(VARIANTS[CF])})]
                raw["blocks"][brsw]["term"] = {"k": "switch", "discr": B.mv(d), "dty": "isize",
                                               "targets": [["0", cont], ["1", brk]], "otherwise": un, "span": B.span}
                body_entry = self.call(B, fn, [B.mv(acc), pay(item, OPT, "Some")], r, after, stack)
                of = {"def": "std::ops::Try::from_output", "written": "std::ops::Try::from_output", "resolved": None,
                      "resolved_args": None, "ikind": "Item", "local": False}
                done = B.block([], {"k": "call", "f": of, "args": [B.mv(acc)], "dest": {"l": D, "p": []}, "target": T,
                                    "unwind": None, "span": B.span})
            sts, sw = B.switch_variant(item, OPT, {"Some": body_entry, "None": done})
            raw["blocks"][sw_blk]["stmts"] = sts
            raw["blocks"][sw_blk]["term"] = sw
            return finish(pre, B.goto(header))
        if name in ("std::iter::Iterator::try_for_each", "std::iter::Iterator::for_each",
                    "std::iter::Iterator::any", "std::iter::Iterator::all") and fnarg(1):
            fn = fnarg(1)
            # the iterator: `&mut I` for try_for_each / any / all, `I` by value for for_each
            it = B.local(ty_of(args[0]))
            pre = [B.assign(it, B.use(args[0]))]
            if short == "for_each":
                itref = B.local()
                nxt_arg = lambda: B.mv(itref)
            else:
                itref = it
                nxt_arg = lambda: B.cp(it)
            item = B.local()
            header = B.block()
            nf = next_f(args[0])
            sw_blk = B.block()
            hs = []
            if short == "for_each":
                hs.append(B.assign(itref, {"k": "ref", "mut": True, "place": {"l": it, "p": []}}))
            raw["blocks"][header]["stmts"] = hs
            raw["blocks"][header]["term"] = {"k": "call", "f": nf, "args": [nxt_arg()], "dest": {"l": item, "p": []},
                                             "target": sw_blk, "unwind": None, "span": B.span}
            r = B.local()
            if short == "for_each":
                body_entry = self.call(B, fn, [pay(item, OPT, "Some")], r, header, stack)
                done = ret_block(B.use(B.const_unit()))
            elif short == "try_for_each":
                # r = f(item); match Try::branch(r) { Continue(()) => continue, Break(res) => return from_residual(res) }
                br = B.local()
                brsw = B.block()
                rty = ret_ty(fn)
                dty = str(raw["locals"][D]["ty"])
                tf = try_f("branch", rty)
                after = B.block([], {"k": "call", "f": tf, "args": [B.mv(r)], "dest": {"l": br, "p": []}, "target": brsw,
                                     "unwind": None, "span": B.span})
                res = B.local()
                ff = try_f("from_residual", rty, dty)
                brk = B.block([B.assign(res, B.use(B.mv(br, [{"k": "downcast", "variant": "Break", "vi": 1},
                                                             {"k": "field", "i": 0, "name": "0", "adt": "std::ops::ControlFlow"}])))],
                              {"k": "call", "f": ff, "args": [B.mv(res)], "dest": {"l": D, "p": []}, "target": T,
                               "unwind": None, "span": B.span})
                d = B.local("isize")
                un = B.block()
                raw["blocks"][brsw]["stmts"] = [B.assign(d, {"k": "discriminant", "place": {"l": br, "p": []},
                                                             "adt": "std::ops::ControlFlow",
                                                             "variants": dict(VARIANTS["std::ops::ControlFlow"])})]
                raw["blocks"][brsw]["term"] = {"k": "switch", "discr": B.mv(d), "dty": "isize",
                                               "targets": [["0", header], ["1", brk]], "otherwise": un, "span": B.span}
                body_entry = self.call(B, fn, [pay(item, OPT, "Some")], r, after, stack)
                of = {"def": "std::ops::Try::from_output", "written": "std::ops::Try::from_output", "resolved": None,
                      "resolved_args": None, "ikind": "Item", "local": False}
                done = B.block([], {"k": "call", "f": of, "args": [B.const_unit()], "dest": {"l": D, "p": []}, "target": T,
                                    "unwind": None, "span": B.span})
            else:
                # any: if f(item) { return true }   all: if !f(item) { return false }
                hitv = short == "any"
                found = ret_block(B.use(B.const_bool(hitv)))
                after = B.block([], B.switch_bool(B.mv(r), found if hitv else header, header if hitv else found))
                body_entry = self.call(B, fn, [pay(item, OPT, "Some")], r, after, stack)
                done = ret_block(B.use(B.const_bool(not hitv)))
            sts, sw = B.switch_variant(item, OPT, {"Some": body_entry, "None": done})
            raw["blocks"][sw_blk]["stmts"] = sts
            raw["blocks"][sw_blk]["term"] = sw
            return finish(pre, B.goto(header))
        return False

    def run(self):
        raw = self.raw
        self.pending = [(i, (self.key,)) for i in range(len(raw["blocks"]))]
        while self.pending:
            bi, stack = self.pending.pop()
            blk = raw["blocks"][bi]
            t = blk["term"]
            if t["k"] != "call" or blk.get("cleanup"):
                continue
            n0 = len(raw["blocks"])
            if self.expand(bi, stack):
                for j in range(n0, len(raw["blocks"])):
                    if not any(p[0] == j for p in self.pending):
                        self.pending.append((j, stack))
                continue
            # ordinary local callee selected by the policy
            f = t["f"]
            if f.get("def") is None or t.get("target") is None or t["dest"]["p"]:
                continue
            callee = None
            for c in (norm(f.get("resolved") or ""), norm(f["def"])):
                if c and c in self.P.bodies:
                    callee = self.P.bodies[c]
                    break
            if callee is None or callee.key in stack or callee.argc != len(t["args"]):
                continue
            if not self.policy(self.key, callee, len(stack)):
                continue
            if len(raw["blocks"]) + len(callee.blocks) > self.budget:
                continue
            B = Builder(raw, t["span"])
            entry = self.inline_body(B, callee, list(t["args"]), t["dest"]["l"], t["target"], stack + (callee.key,))
            blk["term"] = dict(B.goto(entry), inlined_call=callee.key)
        if raw["desugared"] or raw["inlined"]:
            self.split_bool_results()
        inline.thread_jumps(raw)
        body = mir.Body(raw, self.root.crate, self.root.factfile)
        body.inlined_callees = raw["inlined"]
        body.desugared = raw["desugared"]
        return body

    def split_bool_results(self):
        """`_0 = move b` (a boolean that was computed earlier) becomes `if b { _0 = true } else { _0 = false }`: the
        decision then shows in the control flow like every other one"""
        raw = self.raw
        if str(raw["locals"][0]["ty"]) != "bool":
            return
        for blk in list(raw["blocks"]):
            if blk.get("cleanup") or not blk["stmts"] or blk["term"]["k"] not in ("goto", "return"):
                continue
            st = blk["stmts"][-1]
            if st.get("k") != "assign" or st["place"]["l"] != 0 or st["place"]["p"] or st["rv"]["k"] != "use":
                continue
            o = st["rv"]["op"]
            if o.get("k") not in ("copy", "move") or o["place"]["p"]:
                continue
            B = Builder(raw, blk["term"]["span"])
            tb = B.block([B.assign(0, B.use(B.const_bool(True)))], copy.deepcopy(blk["term"]))
            fb = B.block([B.assign(0, B.use(B.const_bool(False)))], copy.deepcopy(blk["term"]))
            blk["stmts"] = blk["stmts"][:-1]
            blk["term"] = B.switch_bool(dict(o, k="copy"), tb, fb)


def no_functions(root_key, callee, depth):
    return False


def desugared(P, key, policy=None, closures_only=False, expand_try=False, _cache={}):
    policy = policy or no_functions
    ck = (id(P), key, getattr(policy, "__name__", str(id(policy))), closures_only, expand_try)
    if ck not in _cache:
        d = Desugarer(P, key, policy)
        d.closures_only = closures_only
        d.expand_try = expand_try
        _cache[ck] = d.run()
    return _cache[ck]


def desugar_program(P, policy=None, closures_only=False, expand_try=False):
    """replace every body by its desugared view (closure bodies that were inlined everywhere stay available as bodies)"""
    views = {}
    for k in list(P.bodies):
        b = P.bodies[k]
        if b.derived or b.exp:
            continue
        try:
            v = desugared(P, k, policy, closures_only, expand_try)
        except Exception:       # a malformed expansion must never hide the original body
            continue
        if getattr(v, "desugared", None) or getattr(v, "inlined_callees", None):
            views[k] = v
    for k, v in views.items():
        old = P.bodies[k]
        P.bodies[k] = v
        lst = P.by_file[old.file]
        if old in lst:
            lst[lst.index(old)] = v
    # a closure whose code now runs inside the function that built it, and that is handed to nothing any more, is not
    # a function of its own in this picture (rules would otherwise judge its free-standing copy with opaque captures)
    dropped = []
    for k, v in views.items():
        inl = set(getattr(v, "inlined_callees", []) or [])
        if not inl:
            continue
        built = {}
        for blk in v.raw["blocks"]:
            for st in blk["stmts"]:
                if st.get("k") == "assign" and st["rv"]["k"] == "aggregate" and st["rv"].get("agg") == "closure" and not st["place"]["p"]:
                    built.setdefault(norm(st["rv"]["closure"]), set()).add(st["place"]["l"])
        passed = set()
        for blk in v.raw["blocks"]:
            t = blk["term"]
            if t["k"] == "call":
                for a in t["args"]:
                    if a.get("k") in ("copy", "move"):
                        passed.add(a["place"]["l"])
                    if a.get("k") == "const" and a.get("closure"):
                        passed.add(norm(a["closure"]))
            for st in blk["stmts"]:
                if st.get("k") == "assign" and st["rv"]["k"] == "aggregate":
                    for f in st["rv"]["fields"]:
                        if f["op"].get("k") in ("copy", "move"):
                            passed.add(f["op"]["place"]["l"])      # stored into something: may be called later
        for ck in inl:
            cb = P.bodies.get(ck)
            if cb is None or not cb.is_closure:
                continue
            locs = built.get(ck, set())
            if ck in passed or any(l in passed for l in locs):
                continue
            # also not referenced from any other body
            dropped.append(ck)
    for ck in dropped:
        used_elsewhere = False
        for k2, b2 in P.bodies.items():
            if k2 == ck or ck in (getattr(b2, "inlined_callees", []) or []):
                continue
            for blk in b2.raw["blocks"]:
                for st in blk["stmts"]:
                    if st.get("k") == "assign" and st["rv"]["k"] == "aggregate" and st["rv"].get("agg") == "closure" and \
                            norm(st["rv"]["closure"]) == ck:
                        used_elsewhere = True
        if used_elsewhere:
            continue
        old = P.bodies.pop(ck, None)
        if old is not None and old in P.by_file.get(old.file, []):
            P.by_file[old.file].remove(old)
    P._callgraph = None
    P._children = None
    P.desugared_bodies = sorted(views)
    return P
