"""MIR inliner over the okfacts JSON (a normalisation, not an execution).

`inlined(P, key, policy)` returns a synthetic Body in which calls to selected local functions /
directly-called local closures are replaced by a renumbered copy of the callee's blocks: arguments
become plain assignments to the callee's parameter locals, `return` becomes an assignment to the
call's destination followed by a jump to the call's successor.  Rules that are evaluated on the
inlined view do not care whether a piece of the mechanism lives in the function itself or in a
private helper - the most common behaviour-preserving refactoring in both directions.

What is inlined is decided by `policy(root_key, callee_body, depth) -> bool`; the default inlines
every statically resolved local callee that no rule names as an anchor of its own (see ANCHORS),
is not (mutually) recursive with what is already on the inline stack, and is reasonably small.
"""
import copy
import glob
import os
import re

from . import mir
from .mir import norm

HERE = os.path.dirname(os.path.dirname(os.path.abspath(__file__)))
MAX_BLOCKS = 400
MAX_DEPTH = 4

_anchor_words = None


def anchor_words():
    """last path segments (Type::method / function) that some rule file mentions in a string literal"""
    global _anchor_words
    if _anchor_words is None:
        words = set()
        for f in glob.glob(os.path.join(HERE, "rules", "*.py")):
            src = open(f).read()
            for m in re.finditer(r'"([^"\n]*)"', src):
                s = m.group(1)
                for seg in re.findall(r"::([A-Za-z_][A-Za-z0-9_]*)", s):
                    words.add(seg)
                if re.fullmatch(r"[a-z_][a-z0-9_]*", s) and len(s) > 3:
                    words.add(s)
        _anchor_words = words
    return _anchor_words


def is_anchor(key):
    k = key.split("::{closure")[0]
    return k.rsplit("::", 1)[-1] in anchor_words()


def default_policy(root_key, callee, depth):
    if depth > MAX_DEPTH or len(callee.blocks) > MAX_BLOCKS:
        return False
    if callee.derived or callee.exp:
        return False
    if callee.is_closure:
        return True           # a closure called directly in the body that defines it
    return not is_anchor(callee.key)


def helpers_policy(keep=()):
    """inline everything local except the functions whose key ends with one of `keep`"""
    def pol(root_key, callee, depth):
        if depth > MAX_DEPTH or len(callee.blocks) > MAX_BLOCKS or callee.derived or callee.exp:
            return False
        return not any(callee.key.endswith(k) for k in keep)
    return pol


def only_policy(names):
    """inline exactly the local functions whose key ends with one of `names`"""
    def pol(root_key, callee, depth):
        return depth <= MAX_DEPTH and any(callee.key.endswith(k) for k in names)
    pol.__name__ = "only:" + ",".join(names)
    return pol


# ---------------------------------------------------------------------------

def _map_place(p, loff):
    q = {"l": p["l"] + loff, "p": []}
    for e in p["p"]:
        if e.get("k") == "index" and "l" in e:
            e = dict(e, l=e["l"] + loff)
        q["p"].append(e)
    return q


def _map_op(o, loff):
    if o.get("k") in ("copy", "move"):
        return {"k": o["k"], "place": _map_place(o["place"], loff)}
    return o


def _map_rv(rv, loff):
    k = rv["k"]
    r = dict(rv)
    if k in ("use", "repeat", "cast"):
        r["op"] = _map_op(rv["op"], loff)
    elif k == "binop":
        r["l"] = _map_op(rv["l"], loff)
        r["r"] = _map_op(rv["r"], loff)
    elif k == "unop":
        r["x"] = _map_op(rv["x"], loff)
    elif k in ("ref", "copyforderef", "rawptr", "discriminant", "len"):
        if "place" in rv:
            r["place"] = _map_place(rv["place"], loff)
    elif k == "aggregate":
        r["fields"] = [dict(f, op=_map_op(f["op"], loff)) for f in rv["fields"]]
    return r


def _map_stmt(st, loff):
    s = dict(st)
    if "place" in st:
        s["place"] = _map_place(st["place"], loff)
    if "rv" in st:
        s["rv"] = _map_rv(st["rv"], loff)
    return s


def _map_term(t, loff, boff, ret_to, dest):
    """returns (extra_stmts, new_term)"""
    k = t["k"]
    n = dict(t)
    def B(x):
        return None if x is None else x + boff
    if k == "goto":
        n["target"] = B(t["target"])
    elif k == "switch":
        n["discr"] = _map_op(t["discr"], loff)
        n["targets"] = [[v, B(b)] for v, b in t["targets"]]
        n["otherwise"] = B(t["otherwise"])
    elif k == "call":
        n["args"] = [_map_op(a, loff) for a in t["args"]]
        n["dest"] = _map_place(t["dest"], loff)
        n["target"] = B(t["target"])
        n["unwind"] = B(t.get("unwind")) if isinstance(t.get("unwind"), int) else t.get("unwind")
        f = dict(t["f"])
        if f.get("def") is None and f.get("indirect"):
            f["indirect"] = _map_op(f["indirect"], loff)
        n["f"] = f
    elif k == "assert":
        n["cond"] = _map_op(t["cond"], loff)
        n["ops"] = [_map_op(a, loff) for a in t.get("ops", [])]
        n["target"] = B(t["target"])
        n["unwind"] = B(t.get("unwind")) if isinstance(t.get("unwind"), int) else t.get("unwind")
    elif k == "drop":
        n["place"] = _map_place(t["place"], loff)
        n["target"] = B(t["target"])
        n["unwind"] = B(t.get("unwind")) if isinstance(t.get("unwind"), int) else t.get("unwind")
    elif k == "return":
        st = {"k": "assign", "place": dest, "rv": {"k": "use", "op": {"k": "move", "place": {"l": loff, "p": []}}},
              "line": t.get("span", {}).get("line", 0)}
        return [st], {"k": "goto", "target": ret_to, "span": t["span"]}
    return [], n


def inlined(P, key, policy=None, _cache={}):
    policy = policy or default_policy
    ck = (id(P), key, getattr(policy, "__name__", str(id(policy))))
    if ck in _cache:
        return _cache[ck]
    root = P.body(key)
    raw = copy.deepcopy(root.raw)
    raw["inlined"] = []
    locals_ = raw["locals"]
    blocks = raw["blocks"]
    # worklist of (block index, inline stack, depth)
    work = [(i, (key,), 0) for i in range(len(blocks))]
    while work:
        bi, stack, depth = work.pop()
        t = blocks[bi]["term"]
        if t["k"] != "call" or blocks[bi].get("cleanup"):
            continue
        f = t["f"]
        if f.get("def") is None:
            continue
        cands = [norm(f.get("resolved") or ""), norm(f["def"])]
        callee = None
        for c in cands:
            if c and c in P.bodies:
                callee = P.bodies[c]
                break
        if callee is None or callee.key in stack or t.get("target") is None:
            continue
        if callee.argc != len(t["args"]):
            continue
        if t["dest"]["p"]:
            continue
        if not policy(key, callee, depth + 1):
            continue
        if len(blocks) + len(callee.blocks) > 6000:
            continue
        loff = len(locals_)
        boff = len(blocks)
        for l in callee.raw["locals"]:
            locals_.append(dict(l))
        ret_to = t["target"]
        dest = t["dest"]
        for cb in callee.raw["blocks"]:
            nb = {"cleanup": cb.get("cleanup", False), "stmts": [_map_stmt(s, loff) for s in cb["stmts"]]}
            extra, nt = _map_term(cb["term"], loff, boff, ret_to, dest)
            nb["stmts"] += extra
            nb["term"] = nt
            nb["from"] = callee.key
            blocks.append(nb)
        # argument passing + jump
        for k, a in enumerate(t["args"]):
            blocks[bi]["stmts"].append({"k": "assign", "place": {"l": loff + 1 + k, "p": []}, "rv": {"k": "use", "op": a},
                                        "line": t.get("span", {}).get("line", 0)})
        blocks[bi]["term"] = {"k": "goto", "target": boff, "span": t["span"], "inlined_call": callee.key}
        raw["inlined"].append(callee.key)
        for j in range(boff, len(blocks)):
            work.append((j, stack + (callee.key,), depth + 1))
    thread_jumps(raw)
    body = mir.Body(raw, root.crate, root.factfile)
    body.inlined_callees = raw["inlined"]
    _cache[ck] = body
    return body


def _const_env(stmts, env=None):
    """constants held by plain locals at the end of a statement list (very small forward pass): integers / bools,
    ('V', name) for a local that was just built as the enum variant `name`, ('call', bb, positive) for a boolean that is
    the (possibly negated) result of the call ending block bb; keys (local, variant|None, field, ..) hold what is known
    about parts of a local.  `env` is the knowledge on entry (copied)."""
    env = dict(env) if env else {}
    for st in stmts:
        if st.get("k") != "assign":
            continue
        pl = st["place"]
        if pl["p"]:
            # a write into a part of the local: what we knew about it is gone
            env.pop(pl["l"], None)
            continue
        rv = st["rv"]
        val = None
        nested = {}
        if rv["k"] == "use":
            o = rv["op"]
            if o.get("k") == "const" and "int" in o:
                val = o["int"]
            elif o.get("k") in ("copy", "move") and not o["place"]["p"]:
                val = env.get(o["place"]["l"])
                # what is known about the parts of the copied value goes with it
                for k_, v_ in list(env.items()):
                    if isinstance(k_, tuple) and k_[0] == o["place"]["l"]:
                        nested[(pl["l"],) + k_[1:]] = v_
            elif o.get("k") in ("copy", "move"):
                # a payload read: `(x as Ok).0` of a value built as Ok(<known>) on this path
                pr = [e for e in o["place"]["p"] if e.get("k") != "deref"]
                key = None
                if len(pr) == 2 and pr[0].get("k") == "downcast" and pr[1].get("k") == "field":
                    key = (o["place"]["l"], pr[0].get("variant"), pr[1].get("name"))
                elif len(pr) == 1 and pr[0].get("k") == "field":
                    key = (o["place"]["l"], None, pr[0].get("name"))
                if key is not None:
                    val = env.get(key)
                    for k_, v_ in list(env.items()):
                        if isinstance(k_, tuple) and len(k_) > 3 and k_[:3] == key:
                            nested[(pl["l"],) + k_[3:]] = v_
        elif rv["k"] == "unop" and rv["op"] == "Not":
            o = rv["x"]
            if o.get("k") in ("copy", "move") and not o["place"]["p"]:
                v = env.get(o["place"]["l"])
                if isinstance(v, tuple) and v and v[0] == "call":
                    val = ("call", v[1], not v[2])
                elif v is not None and not isinstance(v, tuple):
                    val = 0 if v else 1
        elif rv["k"] == "aggregate" and rv.get("agg") in ("adt", "tuple"):
            if rv.get("agg") == "adt" and rv.get("variant"):
                val = ("V", rv["variant"])
            vname = rv.get("variant") if rv.get("agg") == "adt" else None
            for f in rv["fields"]:
                fo = f["op"]
                if fo.get("k") == "const" and "int" in fo:
                    nested[(pl["l"], vname, f["name"])] = fo["int"]
                if fo.get("k") in ("copy", "move") and fo["place"]["p"]:
                    # a payload handed on: Continue((x as Ok).0)
                    pr = [e for e in fo["place"]["p"] if e.get("k") != "deref"]
                    key = None
                    if len(pr) == 2 and pr[0].get("k") == "downcast" and pr[1].get("k") == "field":
                        key = (fo["place"]["l"], pr[0].get("variant"), pr[1].get("name"))
                    elif len(pr) == 1 and pr[0].get("k") == "field":
                        key = (fo["place"]["l"], None, pr[0].get("name"))
                    if key is not None:
                        if env.get(key) is not None:
                            nested[(pl["l"], vname, f["name"])] = env[key]
                        for k_, v2 in list(env.items()):
                            if isinstance(k_, tuple) and len(k_) > 3 and k_[:3] == key:
                                nested[(pl["l"], vname, f["name"]) + k_[3:]] = v2
                if fo.get("k") in ("copy", "move") and not fo["place"]["p"]:
                    v_ = env.get(fo["place"]["l"])
                    if v_ is not None:
                        nested[(pl["l"], vname, f["name"])] = v_
                    for k_, v2 in list(env.items()):
                        if isinstance(k_, tuple) and k_[0] == fo["place"]["l"]:
                            nested[(pl["l"], vname, f["name"]) + k_[1:]] = v2
        elif rv["k"] == "discriminant" and not rv["place"]["p"]:
            v = env.get(rv["place"]["l"])
            if isinstance(v, tuple):
                for idx, name in (rv.get("variants") or {}).items():
                    if name == v[1]:
                        val = int(idx)
        for k_ in [k_ for k_ in env if isinstance(k_, tuple) and k_[0] == pl["l"]]:
            del env[k_]
        if val is None:
            env.pop(pl["l"], None)
        else:
            env[pl["l"]] = val
        env.update(nested)
    return env


def _only_unit_stmts(stmts):
    for st in stmts:
        if st.get("k") != "assign" or st["place"]["p"]:
            return False
        rv = st["rv"]
        if not (rv["k"] == "use" and rv["op"].get("k") == "const" and rv["op"].get("repr") in ("()", "const ()")):
            return False
    return True


def _pure_simple(stmts):
    """only assignments of constants / plain locals / Not of a plain local to plain locals (no side effect, cheap to copy)"""
    if len(stmts) > 6:
        return False
    for st in stmts:
        k = st.get("k")
        if k in ("storagelive", "storagedead", "nop"):
            continue
        if k != "assign" or st["place"]["p"]:
            return False
        rv = st["rv"]
        if rv["k"] == "use":
            o = rv["op"]
        elif rv["k"] == "unop" and rv["op"] == "Not":
            o = rv["x"]
        elif rv["k"] == "discriminant" and not rv["place"]["p"]:
            continue
        else:
            return False
        if o.get("k") == "const":
            continue
        if o.get("k") in ("copy", "move") and not o["place"]["p"]:
            continue
        return False
    return True


def _defined_in(own, allstmts, discr):
    """the switched local is, through plain copies / Not, a local assigned by a non-constant rvalue in `own`"""
    if discr.get("k") not in ("copy", "move") or discr["place"]["p"]:
        return False
    l = discr["place"]["l"]
    for st in reversed(allstmts):
        if st.get("k") != "assign" or st["place"]["p"] or st["place"]["l"] != l:
            continue
        rv = st["rv"]
        o = rv.get("op") if rv["k"] == "use" else (rv.get("x") if rv["k"] == "unop" and rv["op"] == "Not" else None)
        if isinstance(o, dict) and o.get("k") in ("copy", "move") and not o["place"]["p"]:
            l = o["place"]["l"]
            continue
        if isinstance(o, dict) and o.get("k") == "const":
            return False
        return any(st is x for x in own)
    # not assigned in these statements at all: the result of the call that ends the predecessor, copied here
    return l != discr["place"]["l"] and any(
        st.get("k") == "assign" and not st["place"]["p"] and st["rv"]["k"] in ("use", "unop") for st in own)


def thread_jumps(raw, rounds=8):
    """`x = const c; goto M` where M (through a short chain of side-effect-free blocks that only copy locals)
    switches on a value that c determines becomes a jump to the selected branch; the copied assignments are
    duplicated into the jumping block.  Restores, for dominance-based rules, the correlation that boolean
    temporaries (matches!, inlined predicate helpers returning a bool) hide."""
    blocks = raw["blocks"]
    changed = 0
    for _ in range(rounds):
        progress = False
        for b in list(blocks):
            t = b["term"]
            own_stmts = b["stmts"]
            if t["k"] == "call" and not b.get("cleanup") and t.get("target") is not None and not t["dest"]["p"] and \
                    norm(t["f"].get("def") or "") == "std::ops::FromResidual::from_residual":
                # what `?` hands back early is always the failing variant of the function's own result type
                who = str(t["f"].get("resolved") or "") + str(t["f"].get("written") or "")
                var = "Err" if who.startswith(("<std::result::Result<", "<core::result::Result<")) else \
                    ("None" if who.startswith(("<std::option::Option<", "<core::option::Option<")) else None)
                if var is None:
                    continue
                own_stmts = [{"k": "assign", "place": {"l": t["dest"]["l"], "p": []},
                              "rv": {"k": "aggregate", "agg": "adt", "adt": "?", "variant": var, "fields": []}}]
            elif t["k"] not in ("goto", "drop") or b.get("cleanup") or t.get("target") is None:
                continue
            chain = []
            cur = t["target"]
            stmts = list(own_stmts)
            hit = None
            for _hop in range(8):
                m = blocks[cur]
                if m.get("cleanup") or not _pure_simple(m["stmts"]) or cur in chain:
                    break
                chain.append(cur)
                stmts = stmts + m["stmts"]
                mt = m["term"]
                if mt["k"] == "goto" or (mt["k"] == "drop" and mt.get("target") is not None):
                    # a drop on the way is kept: the whole chain is then duplicated block by block (see below)
                    cur = mt["target"]
                    continue
                if mt["k"] == "switch":
                    d = mt["discr"]
                    if d.get("k") in ("copy", "move") and not d["place"]["p"]:
                        v = _const_env(stmts).get(d["place"]["l"])
                        if v is not None and not isinstance(v, tuple):
                            nxt = mt["otherwise"]
                            for val, x in mt["targets"]:
                                if str(val) == str(v):
                                    nxt = x
                            hit = nxt
                break
            if hit is None:
                # not constant: if the switched value is computed in this very block (an inlined predicate's
                # `return a != b`), move the switch here so that it is described by that computation
                m = blocks[cur] if chain and chain[-1] == cur else None
                if t["k"] == "goto" and m is not None and m["term"]["k"] == "switch" and \
                        not any(blocks[c]["term"]["k"] == "drop" for c in chain) and _defined_in(b["stmts"], stmts, m["term"]["discr"]):
                    extra = []
                    for c in chain:
                        extra += copy.deepcopy(blocks[c]["stmts"])
                    b["stmts"] = b["stmts"] + extra
                    b["term"] = dict(copy.deepcopy(m["term"]), threaded=True)
                    progress = True
                    changed += 1
                continue
            if not _const_env(own_stmts):
                continue          # nothing constant set here: not a boolean-temporary join
            if any(blocks[c]["term"]["k"] == "drop" for c in chain):
                # duplicate the chain including its drops: b -> copy(c1) -> copy(c2) .. -> hit
                nxt = hit
                for c in reversed(chain):
                    cb = blocks[c]
                    ct = cb["term"]
                    if ct["k"] == "drop":
                        nt = dict(copy.deepcopy(ct), target=nxt, threaded=True)
                    else:
                        nt = {"k": "goto", "target": nxt, "span": ct["span"], "threaded": True}
                    blocks.append({"cleanup": False, "stmts": copy.deepcopy(cb["stmts"]), "term": nt, "synthetic": True,
                                   "from": cb.get("from")})
                    nxt = len(blocks) - 1
                b["term"] = dict(t, target=nxt, threaded=True)
                progress = True
                changed += 1
                continue
            extra = []
            for c in chain:
                extra += copy.deepcopy(blocks[c]["stmts"])
            if hit == t["target"] and not extra:
                continue
            if t["k"] in ("drop", "call"):
                # the value is dropped (the early-return value is built) first; the copied (side-effect free) assignments run in a block of their own after it
                blocks.append({"cleanup": False, "stmts": extra, "term": {"k": "goto", "target": hit, "span": t["span"], "threaded": True},
                               "synthetic": True})
                b["term"] = dict(t, target=len(blocks) - 1, threaded=True)
            else:
                b["stmts"] = b["stmts"] + extra
                b["term"] = dict(t, target=hit, threaded=True)
            progress = True
            changed += 1
        if not progress:
            break
    return changed


_KNOWN = None


def known_functions():
    """function keys of the pinned tree (rules/tables/known_functions.txt)"""
    global _KNOWN
    if _KNOWN is None:
        p = os.path.join(HERE, "rules", "tables", "known_functions.txt")
        _KNOWN = set(l.strip() for l in open(p) if l.strip() and not l.startswith("#"))
    return _KNOWN


def top(key):
    return key.split("::{closure")[0]


def normalize_program(P):
    """Functions that do not exist on the pinned tree are helpers introduced by a later change.  Every rule judges
    their code inlined into the known functions that call them: the bodies of the callers are replaced by inlined
    (and jump-threaded) views, and a helper that is only ever used through resolved direct calls is dropped as a
    function of its own.  Trait impl methods, functions used as values and functions nobody calls stay."""
    known = known_functions()
    new = set()
    for b in P.bodies.values():
        if b.is_closure or b.impl_trait or b.derived or b.exp:
            continue
        if b.key not in known:
            new.add(b.key)
    P.normalized_helpers = []
    if not new:
        return
    standalone = set()
    for b in P.bodies.values():
        for bb, o in b.iter_operands():
            if o.get("k") == "const" and o.get("fn"):
                f = norm(o.get("fn_resolved") or o["fn"])
                if f in new:
                    standalone.add(f)
    inl = new - standalone

    def pol(root_key, callee, depth):
        return callee.key in inl and depth <= MAX_DEPTH and len(callee.blocks) <= MAX_BLOCKS
    pol.__name__ = "new_helpers:" + ",".join(sorted(inl))
    views = {}
    called = set()
    for k in list(P.bodies):
        if k in inl:
            continue
        v = inlined(P, k, pol)
        if getattr(v, "inlined_callees", None):
            views[k] = v
            called |= set(v.inlined_callees)
    for k, v in views.items():
        old = P.bodies[k]
        P.bodies[k] = v
        lst = P.by_file[old.file]
        lst[lst.index(old)] = v
    for k in sorted(inl & called):
        # inlined at every call site of a known function?  calls from other dropped helpers were inlined transitively
        still = False
        for b in P.bodies.values():
            if b.key in inl:
                continue
            for bb, t in b.calls(live_only=False):
                f = t["f"]
                if f.get("def") is not None and k in (norm(f.get("resolved") or ""), norm(f["def"])):
                    still = True
        if still:
            continue
        old = P.bodies.pop(k)
        P.by_file[old.file].remove(old)
        P.normalized_helpers.append(k)
    P._callgraph = None
    P._children = None


def normalized(P, key, _cache={}):
    """the body itself with jump threading only (no inlining)"""
    ck = (id(P), key)
    if ck not in _cache:
        root = P.body(key)
        raw = copy.deepcopy(root.raw)
        thread_jumps(raw)
        _cache[ck] = mir.Body(raw, root.crate, root.factfile)
    return _cache[ck]
