"""E9 — error chains (DESIGN.md §3 E9): how is every `Result<_, E>` of a local error type consumed?"""
from collections import namedtuple

from . import mir
from .mir import norm, callee, callee_def, callee_names
from .panics import short_callee, is_external_expansion

ERROR_TYPES = (
    "ConversionError", "QueryError", "EvalError", "BalanceError", "BookKeepError", "ReportError",
    "LoadError", "ParseError", "FormatError", "okane::cmd::Error", "ImportError", "InternError",
    "pretty_decimal::Error", "std::io::Error", "std::fmt::Error",
)

KEEPS_ERR = {"map_err", "map", "and_then", "transpose", "inspect", "inspect_err", "map_or_else", "cloned", "copied", "as_ref", "as_mut"}
DROPS_ERR = {"ok", "unwrap_or", "unwrap_or_else", "unwrap_or_default", "is_ok", "is_err", "or_else", "or",
             "is_ok_and", "is_err_and", "map_or", "unwrap_or_else", "iter", "into_iter", "err"}
PANICS = {"unwrap", "expect", "unwrap_err", "expect_err"}

Use = namedtuple("Use", "kind bb detail")


def split_generics(ty):
    """`a::B<x, y<z>>` -> ('a::B', ['x', 'y<z>'])"""
    i = ty.find("<")
    if i < 0 or not ty.endswith(">"):
        return ty, []
    head = ty[:i]
    inner = ty[i + 1:-1]
    args = []
    depth = 0
    cur = ""
    for j, c in enumerate(inner):
        if c == "<" or c == "(" or c == "[":
            depth += 1
        elif (c == ">" and inner[j - 1] != "-") or c == ")" or c == "]":
            depth -= 1
        if c == "," and depth == 0:
            args.append(cur.strip())
            cur = ""
        else:
            cur += c
    if cur.strip():
        args.append(cur.strip())
    return head, args


def result_error_type(ty):
    """error type E if ty is Result<T, E> (possibly behind Option<...>), else None"""
    head, args = split_generics(ty)
    if head == "std::result::Result" and len(args) == 2:
        return args[1]
    if head == "std::option::Option" and len(args) == 1:
        return result_error_type(args[0])
    return None


def is_tracked_error(e, names=ERROR_TYPES):
    return e is not None and any(n in e for n in names)


def consumption(P, body, call_bb):
    """-> list of Use describing how the Result produced at call_bb is consumed"""
    t0 = body.term(call_bb)
    if t0["dest"]["p"]:
        return [Use("stored", call_bb, "written into a projection")]
    uses = []
    carriers = set()
    work = [t0["dest"]["l"]]
    while work:
        l = work.pop()
        if l in carriers:
            continue
        carriers.add(l)
        if l == 0:
            uses.append(Use("returned", call_bb, "returned to the caller"))
            continue
        used = False
        for i, blk in enumerate(body.blocks):
            if blk["cleanup"]:
                continue
            for st in blk["stmts"]:
                if st["k"] != "assign":
                    continue
                rv = st["rv"]
                if rv["k"] in ("use", "cast") and rv["op"].get("k") in ("copy", "move") and rv["op"]["place"]["l"] == l:
                    pp = rv["op"]["place"]["p"]
                    if pp:
                        # `Some(x)` payload of an Option<Result<..>>: keep following the inner Result
                        flds = mir.proj_fields(rv["op"]["place"])
                        if flds == ["#Some", "0"] and result_error_type(body.local_ty(st["place"]["l"])) is not None:
                            work.append(st["place"]["l"])
                            used = True
                        continue
                    work.append(st["place"]["l"])
                    used = True
                elif rv["k"] in ("ref", "copyforderef") and rv["place"]["l"] == l and not rv["place"]["p"]:
                    work.append(st["place"]["l"])
                    used = True
                elif rv["k"] == "discriminant" and rv["place"]["l"] == l and not rv["place"]["p"]:
                    used = True
                    # find the switch on this discriminant
                    dl = st["place"]["l"]
                    t = blk["term"]
                    if t["k"] == "switch" and t["discr"].get("k") in ("copy", "move") and t["discr"]["place"]["l"] == dl:
                        if in_return_tail(body, i):
                            continue  # drop elaboration after the return value was decided
                        ds = mir.describe_switch(body, i)
                        if ds and ds[0] == "variant" and set(sum((list(v) for v in ds[2].values()), [])) <= {"None", "Some"}:
                            continue  # match on the Option layer; the payload is followed separately
                        uses.append(match_use(body, i, ds))
                elif rv["k"] == "aggregate":
                    for f in rv["fields"]:
                        o = f["op"]
                        if o.get("k") in ("copy", "move") and o["place"]["l"] == l and not o["place"]["p"]:
                            used = True
                            uses.append(Use("stored", i, "stored in " + mir.agg_name(rv)))
            t = blk["term"]
            if t["k"] == "call":
                idx = [k for k, a in enumerate(t["args"])
                       if a.get("k") in ("copy", "move") and a["place"]["l"] == l and not a["place"]["p"]]
                if not idx:
                    continue
                used = True
                cd = callee_def(t) or "<indirect>"
                meth = cd.rsplit("::", 1)[-1]
                if cd == "std::ops::Try::branch":
                    uses.append(Use("?", i, "propagated with ?"))
                elif cd.startswith(("std::result::Result::", "std::option::Option::")):
                    if meth in KEEPS_ERR:
                        work.append(t["dest"]["l"])
                    elif meth in PANICS:
                        uses.append(Use("panics", i, meth))
                    elif meth in DROPS_ERR:
                        uses.append(Use("dropped", i, "error discarded by ." + meth + "()"))
                    else:
                        uses.append(Use("other-method", i, meth))
                elif cd == "std::iter::Iterator::collect" or cd.endswith("FromIterator::from_iter"):
                    work.append(t["dest"]["l"])
                elif cd in ("std::convert::Into::into", "std::convert::From::from"):
                    work.append(t["dest"]["l"])
                else:
                    uses.append(Use("passed", i, "passed to " + short_callee(callee(t) or cd)))
        if not used and l != t0["dest"]["l"]:
            pass
    if not uses:
        uses.append(Use("unused", call_bb, "result never consumed (dropped)"))
    return uses


def in_return_tail(body, bb):
    """every path entry -> bb has already assigned the return place (drop-elaboration tail)"""
    cached = getattr(body, "_ret_assign_blocks", None)
    if cached is None:
        cached = []
        for i, blk in enumerate(body.blocks):
            if blk["cleanup"]:
                continue
            for st in blk["stmts"]:
                if st["k"] == "assign" and st["place"]["l"] == 0:
                    cached.append(i)
                    break
            else:
                t = blk["term"]
                if t["k"] == "call" and t["dest"]["l"] == 0:
                    cached.append(i)
        body._ret_assign_blocks = cached
    if not cached:
        return False
    return bb not in body.reach_from(0, without_blocks=tuple(b for b in cached if b != bb))


def match_use(body, sw_bb, ds):
    """a `match`/`if let` on the Result: fine iff every path from the Err arm ends in an Err return"""
    if not ds or ds[0] != "variant":
        return Use("match?", sw_bb, "unrecognised switch")
    labels = ds[2]
    err_targets = [tb for tb, labs in labels.items() if "Err" in labs or "Break" in labs]
    if not err_targets:
        return Use("match-no-err-arm", sw_bb, "no arm for Err")
    err_blocks = set()
    for i in body.live_blocks():
        blk = body.blocks[i]
        for st in blk["stmts"]:
            if st["k"] == "assign" and st["place"]["l"] == 0 and st["rv"]["k"] == "aggregate" and \
                    st["rv"].get("variant") in ("Err",):
                err_blocks.add(i)
        t = blk["term"]
        if t["k"] == "call" and t["dest"]["l"] == 0 and callee_def(t) == "std::ops::FromResidual::from_residual":
            err_blocks.add(i)
        if t["k"] == "call" and t["target"] is None:
            err_blocks.add(i)  # diverges (panic / exit)
    for tb in err_targets:
        if any("Ok" in l or "Continue" in l for l in [labels[tb]]):
            return Use("match-shared-arm", sw_bb, "Err shares its arm with Ok")
        reach = body.reach_from(tb, without_blocks=tuple(err_blocks))
        if any(body.term(x)["k"] == "return" for x in reach):
            return Use("match-swallows", sw_bb, "a path from the Err arm returns without an Err")
    return Use("match-propagates", sw_bb, "Err arm always returns Err / diverges")


GOOD = {"?", "returned", "match-propagates"}


def result_calls(P, bodies, error_names=ERROR_TYPES):
    """[(body, bb, term, error_type)] calls whose destination is a Result of a tracked error type"""
    out = []
    for b in bodies:
        if is_external_expansion(b):
            continue
        for bb, t in b.calls():
            if t["dest"]["p"]:
                continue
            ty = b.local_ty(t["dest"]["l"])
            e = result_error_type(ty)
            if not is_tracked_error(e, error_names):
                continue
            cd = callee_def(t) or ""
            # adaptor calls on an existing Result are not origins
            if cd.startswith(("std::result::Result::", "std::option::Option::")) and cd.rsplit("::", 1)[-1] in KEEPS_ERR:
                continue
            if cd in ("std::ops::Try::branch", "std::ops::FromResidual::from_residual", "std::convert::Into::into",
                      "std::convert::From::from"):
                continue
            out.append((b, bb, t, e))
    return out
