"""Thorough tier (DESIGN.md §2.4): the same rules again on release-like MIR, an independent
enumerator (clippy restriction lints) cross-checked against the rules' own enumeration, and the
stored mutants of the property replayed against scratch worktrees (checker validation; recorded in
the evidence, never part of the verdict)."""
import importlib
import json
import os
import shutil
import subprocess
import sys
import tempfile

from . import facts, mir, report

VERIF = os.path.dirname(os.path.dirname(os.path.abspath(__file__)))

LINTS = ["iter_over_hash_type", "unwrap_used", "expect_used", "indexing_slicing", "unreachable", "panic"]

# which lint sites each property's own enumeration must contain, and where
SCOPE = {
    "C13": {"lints": {"iter_over_hash_type"}, "files": None, "rules": ("E4.",)},
    "C06": {"lints": {"unwrap_used", "expect_used", "indexing_slicing", "unreachable", "panic"},
            "files": ("core/src/", "cli/src/cmd.rs", "cli/src/format.rs", "cli/src/main.rs"), "rules": ("E3.", "E2.")},
    "C01": {"lints": {"unwrap_used", "expect_used", "indexing_slicing", "unreachable", "panic"},
            "files": ("core/src/report/book_keeping.rs",), "rules": ("E3.",)},
    "C07": {"lints": {"unwrap_used", "expect_used", "indexing_slicing", "unreachable", "panic"},
            "files": ("core/src/syntax/pretty_decimal.rs",), "rules": ("E3.",)},
}


def release_like(prop, mod, chk, view="primary"):
    """run the property's rules on MIR built without debug assertions; any violation that the dev
    profile did not show is reported (a rule must not depend on debug-only MIR)"""
    try:
        P2 = mir.Program.load(variant="nodebug", view=view)
    except Exception as e:  # extraction problems are the check's problem, not the property's
        chk.anchor_missing("release-like facts unavailable: %s" % str(e)[-400:])
        return
    sub = report.Check(prop, "thorough", "")
    try:
        mod.run(P2, sub, "thorough")
    except mir.AnchorMissing as e:
        sub.anchor_missing(str(e))
    dev_bad = set(v["key"] for v in chk.violations)
    new = [v for v in sub.violations if v["key"] not in dev_bad]
    for v in new:
        chk.violations.append(dict(v, detail="[release-like MIR] " + v["detail"]))
        chk.obligations.append(dict(v, status="violated", detail="[release-like MIR] " + v["detail"]))
    for a in sub.anchor_errors:
        if a not in chk.anchor_errors:
            chk.anchor_errors.append("[release-like MIR] " + a)
    chk.extra["release_like"] = {
        "flags": facts.VARIANT_FLAGS["nodebug"], "bodies": len(P2.bodies),
        "obligations": len(sub.obligations), "obligations_dev": len(chk.obligations) - len(new),
        "violations_only_there": len(new),
    }
    chk.note("release-like MIR (-Cdebug-assertions=off): %d obligations (dev profile: %d), %d additional violation(s)"
             % (len(sub.obligations), len(chk.obligations) - len(new), len(new)))


def clippy_sites(repo=None):
    repo = repo or facts.REPO
    d = facts.facts_dir(repo)
    cache = os.path.join(d, "clippy.json")
    if os.path.exists(cache):
        return json.load(open(cache))
    target = tempfile.mkdtemp(prefix="okclippy-")
    try:
        cmd = ["cargo", "+nightly", "clippy", "--offline", "--workspace", "--message-format=json", "--", "-A", "clippy::all"]
        for l in LINTS:
            cmd += ["-W", "clippy::" + l]
        env = dict(os.environ, CARGO_NET_OFFLINE="true", CARGO_TARGET_DIR=target)
        env.pop("RUSTC_WORKSPACE_WRAPPER", None)
        r = subprocess.run(cmd, cwd=repo, env=env, stdout=subprocess.PIPE, stderr=subprocess.PIPE, text=True)
        if r.returncode != 0:
            raise facts.FactsError("clippy run failed: " + r.stderr[-1500:])
        sites = []
        for line in r.stdout.splitlines():
            try:
                m = json.loads(line)
            except ValueError:
                continue
            if m.get("reason") != "compiler-message":
                continue
            msg = m["message"]
            code = (msg.get("code") or {}).get("code") or ""
            if not code.startswith("clippy::"):
                continue
            for sp in msg["spans"]:
                if sp["is_primary"]:
                    sites.append({"lint": code[8:], "file": sp["file_name"], "line": sp["line_start"], "line_end": sp["line_end"]})
    finally:
        shutil.rmtree(target, ignore_errors=True)
    with open(cache, "w") as fh:
        json.dump(sites, fh)
    return sites


def _test_ranges(path):
    """line ranges of `#[cfg(test)] mod ... { }` blocks (clippy sees test code, the rules do not)"""
    out = []
    try:
        lines = open(path).read().splitlines()
    except OSError:
        return out
    i = 0
    while i < len(lines):
        if lines[i].strip().startswith("#[cfg(test)]"):
            j = i + 1
            while j < len(lines) and "{" not in lines[j]:
                j += 1
            depth = 0
            k = j
            while k < len(lines):
                depth += lines[k].count("{") - lines[k].count("}")
                if depth <= 0 and k > j or (depth == 0 and "{" in lines[k] and "}" in lines[k]):
                    break
                k += 1
            out.append((i + 1, k + 1))
            i = k
        i += 1
    return out


def cross_check(prop, chk):
    sc = SCOPE.get(prop)
    if sc is None:
        return
    try:
        sites = clippy_sites()
    except Exception as e:
        chk.anchor_missing("independent enumerator unavailable: %s" % str(e)[-400:])
        return
    own = {}
    for o in chk.obligations:
        if not o["rule"].startswith(sc["rules"]):
            continue
        w = o.get("where") or ""
        if ":" in w:
            f, l = w.rsplit(":", 1)
            try:
                own.setdefault(f, set()).add(int(l))
            except ValueError:
                pass
    tests = {}
    n = 0
    missing = []
    for s in sites:
        if s["lint"] not in sc["lints"]:
            continue
        if sc["files"] is not None and not s["file"].startswith(sc["files"]):
            continue
        if "/tests/" in s["file"] or s["file"].endswith(("testing.rs", "build.rs")) or "/benches/" in s["file"]:
            continue
        tr = tests.setdefault(s["file"], _test_ranges(os.path.join(facts.REPO, s["file"])))
        if any(a <= s["line"] <= b for a, b in tr):
            continue
        n += 1
        lines = own.get(s["file"], set())
        if not any(s["line"] - 1 <= l <= s["line_end"] + 1 for l in lines):
            missing.append(s)
    chk.extra["cross_check"] = {"enumerator": "cargo +nightly clippy -W " + ",".join(sorted(sc["lints"])),
                                "sites_in_scope": n, "not_in_own_enumeration": missing}
    chk.rule("X.independent-enumerator", "every site reported by the clippy restriction lints in scope is among the rule's own enumerated instances")
    for s in missing:
        chk.fail("X.independent-enumerator", "%s|%s" % (s["lint"], s["file"]), "%s:%d" % (s["file"], s["line"]),
                 "clippy::%s reports this site but the rule's own enumeration has no instance here (enumeration gap)" % s["lint"])
    if not missing:
        chk.ok("X.independent-enumerator", "%s|%d sites" % ("+".join(sorted(sc["lints"])), n), "",
               "all %d clippy sites in scope are covered by the rule's own instances" % n)


def selftest(prop, chk):
    """replay the stored mutants of this property (scratch worktree outside /repo and /verif); the
    outcome is evidence about the checker, not about the property: it never changes the verdict"""
    d = os.path.join(VERIF, "selftest", prop)
    if not os.path.isdir(d) or os.environ.get("VERIF_NO_SELFTEST"):
        return
    out = tempfile.mktemp(prefix="okself-", suffix=".json")
    env = dict(os.environ, VERIF_NO_SELFTEST="1")
    env.pop("OKANE_REPO", None)
    r = subprocess.run([sys.executable, os.path.join(VERIF, "tools", "selftest.py"), prop, "--json", out],
                       cwd=VERIF, env=env, stdout=subprocess.PIPE, stderr=subprocess.STDOUT, text=True)
    try:
        res = json.load(open(out))
        os.unlink(out)
    except Exception:
        res = []
    summary = {"mutants": len(res), "as_expected": sum(1 for x in res if x.get("status") == "ok"),
               "mismatch": [x["mutant"] for x in res if x.get("status") == "MISMATCH"],
               "skipped": [x["mutant"] for x in res if str(x.get("status", "")).startswith("skipped")],
               "results": [{k: x.get(k) for k in ("mutant", "expect_fires", "fired", "status")} for x in res]}
    chk.extra["checker_selftest"] = summary
    chk.note("checker self-validation: %d stored mutants replayed, %d as expected, %d mismatch, %d skipped (not part of the verdict)"
             % (summary["mutants"], summary["as_expected"], len(summary["mismatch"]), len(summary["skipped"])))


def run(prop, mod, chk, view="primary"):
    release_like(prop, mod, chk, view)
    cross_check(prop, chk)
    selftest(prop, chk)
