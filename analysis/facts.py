"""E1 front end: run the okfacts driver over /repo's *current working tree* and load the facts.

Facts are cached under /verif/.cache/<key> where key = sha256 over every source file
of /repo that cargo reads (``*.rs``, ``Cargo.toml``, ``Cargo.lock``) plus the driver
binary.  The key is recomputed from the working tree on every invocation, so an edited
tree is always re-analysed.  The cargo target dir used for the extraction is created
fresh (a warm one makes cargo skip the wrapper) and removed afterwards.
"""
import fcntl
import hashlib
import json
import os
import shutil
import subprocess
import sys
import tempfile
import time

VERIF = os.path.dirname(os.path.dirname(os.path.abspath(__file__)))
REPO = os.environ.get("OKANE_REPO", "/repo")
DRIVER_DIR = os.path.join(VERIF, "driver")
DRIVER = os.path.join(DRIVER_DIR, "target", "debug", "okfacts")
CACHE = os.path.join(VERIF, ".cache")

EXPECTED_FILES = [
    "okane_core-rlib.json",
    "okane-rlib.json",
    "okane-executable.json",
    "okane_golden-rlib.json",
]
# floors counted on the pinned tree (bodies per fact file); fail closed below them
BODY_FLOORS = {
    "okane_core-rlib.json": 600,
    "okane-rlib.json": 1000,
    "okane-executable.json": 1,
    "okane_golden-rlib.json": 5,
}


class FactsError(Exception):
    pass


def tree_files(repo=REPO):
    out = []
    for root, dirs, files in os.walk(repo):
        dirs[:] = sorted(d for d in dirs if d not in ("target", ".git"))
        for f in sorted(files):
            if f.endswith(".rs") or f in ("Cargo.toml", "Cargo.lock"):
                out.append(os.path.join(root, f))
    return out


def tree_key(repo=REPO, variant="dev"):
    h = hashlib.sha256()
    h.update(variant.encode())
    for p in tree_files(repo):
        h.update(os.path.relpath(p, repo).encode())
        h.update(b"\0")
        with open(p, "rb") as fh:
            h.update(hashlib.sha256(fh.read()).digest())
    with open(DRIVER, "rb") as fh:
        h.update(hashlib.sha256(fh.read()).digest())
    return h.hexdigest()[:24]


def ensure_driver():
    if os.path.exists(DRIVER):
        return
    build_driver()


def build_driver():
    env = dict(os.environ, CARGO_NET_OFFLINE="true")
    r = subprocess.run(
        ["cargo", "build", "--offline"], cwd=DRIVER_DIR, env=env,
        stdout=subprocess.PIPE, stderr=subprocess.STDOUT, text=True)
    if r.returncode != 0 or not os.path.exists(DRIVER):
        raise FactsError("driver build failed:\n" + r.stdout[-4000:])


def _sysroot_lib():
    r = subprocess.run(["rustc", "+nightly", "--print", "sysroot"],
                       stdout=subprocess.PIPE, text=True, check=True)
    return os.path.join(r.stdout.strip(), "lib")


VARIANT_FLAGS = {
    # the profile okane is developed and tested with; overflow checks forced on so
    # that every arithmetic site has its Assert terminator
    "dev": "-Zmir-opt-level=0 -Coverflow-checks=on -Awarnings",
    # release-like: no debug assertions (drops debug-only MIR such as pointer checks and
    # debug_assert! bodies); overflow checks still forced on
    "nodebug": "-Zmir-opt-level=0 -Coverflow-checks=on -Cdebug-assertions=off -Awarnings",
}


def extract(outdir, repo=REPO, variant="dev"):
    """Run cargo +nightly check with the driver as workspace wrapper; facts go to outdir."""
    ensure_driver()
    target = tempfile.mkdtemp(prefix="okfacts-target-")
    try:
        env = dict(os.environ)
        env.update({
            "CARGO_NET_OFFLINE": "true",
            "LD_LIBRARY_PATH": _sysroot_lib() + ":" + env.get("LD_LIBRARY_PATH", ""),
            "RUSTFLAGS": VARIANT_FLAGS[variant],
            "RUSTC_WORKSPACE_WRAPPER": DRIVER,
            "CARGO_TARGET_DIR": target,
            "OKFACTS_OUT": outdir,
        })
        env.pop("RUSTC_WRAPPER", None)
        r = subprocess.run(
            ["cargo", "+nightly", "check", "--offline", "--workspace", "-j", "16"],
            cwd=repo, env=env, stdout=subprocess.PIPE, stderr=subprocess.STDOUT, text=True)
        if r.returncode != 0:
            raise FactsError("fact extraction failed (does /repo build?):\n" + r.stdout[-6000:])
    finally:
        shutil.rmtree(target, ignore_errors=True)
    for f in EXPECTED_FILES:
        if not os.path.exists(os.path.join(outdir, f)):
            raise FactsError("fact file missing after extraction: " + f)


def _prune_cache(keep):
    try:
        ents = [os.path.join(CACHE, d) for d in os.listdir(CACHE)
                if os.path.isdir(os.path.join(CACHE, d)) and d != "lock"]
    except FileNotFoundError:
        return
    ents.sort(key=lambda p: os.path.getmtime(p), reverse=True)
    for p in ents[keep:]:
        shutil.rmtree(p, ignore_errors=True)


def facts_dir(repo=REPO, variant="dev", force=False):
    """Return a directory holding the facts of repo's current working tree."""
    ensure_driver()
    os.makedirs(CACHE, exist_ok=True)
    key = tree_key(repo, variant)
    d = os.path.join(CACHE, key)
    lock = open(os.path.join(CACHE, ".lock"), "w")
    fcntl.flock(lock, fcntl.LOCK_EX)
    try:
        done = os.path.join(d, ".complete")
        if force and os.path.isdir(d):
            shutil.rmtree(d)
        if not os.path.exists(done):
            if os.path.isdir(d):
                shutil.rmtree(d)
            tmp = d + ".partial"
            shutil.rmtree(tmp, ignore_errors=True)
            os.makedirs(tmp)
            t0 = time.time()
            extract(tmp, repo, variant)
            with open(os.path.join(tmp, ".complete"), "w") as fh:
                fh.write("%f\n" % (time.time() - t0))
            os.rename(tmp, d)
            _prune_cache(keep=6)
        else:
            os.utime(d, None)
    finally:
        fcntl.flock(lock, fcntl.LOCK_UN)
        lock.close()
    return d


def load_raw(repo=REPO, variant="dev"):
    d = facts_dir(repo, variant)
    out = {}
    for f in EXPECTED_FILES:
        with open(os.path.join(d, f)) as fh:
            data = json.load(fh)
        if data["n_bodies"] < BODY_FLOORS[f]:
            raise FactsError("ANCHOR-MISSING: %s has %d bodies, floor is %d"
                             % (f, data["n_bodies"], BODY_FLOORS[f]))
        out[f] = data
    return out


if __name__ == "__main__":
    if len(sys.argv) > 1 and sys.argv[1] == "build-driver":
        build_driver()
        print("driver built:", DRIVER)
    else:
        d = facts_dir(force="--force" in sys.argv)
        print(d)
