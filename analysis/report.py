"""Result protocol (DESIGN.md §2.3): obligations, violations, known findings, evidence."""
import json
import os
import sys
import time

VERIF = os.path.dirname(os.path.dirname(os.path.abspath(__file__)))
KNOWN = os.path.join(VERIF, "known_findings.json")


def load_known():
    try:
        with open(KNOWN) as fh:
            data = json.load(fh)
    except FileNotFoundError:
        return {"findings": [], "fixed": []}
    data.setdefault("findings", [])
    data.setdefault("fixed", [])
    return data


class Check:
    """Collects the obligations of one property check and writes its evidence."""

    def __init__(self, prop, tier, explanation):
        self.prop = prop
        self.tier = tier
        self.explanation = explanation
        self.t0 = time.time()
        self.obligations = []      # dicts
        self.violations = []
        self.known_hits = []
        self.anchor_errors = []
        self.rules = {}            # rule id -> text
        self.functions = set()
        self.call_sites = 0
        self.paths = 0
        self.notes = []
        self.assumptions = []
        self.extra = {}
        known = load_known()
        self.known = {}
        for f in known["findings"]:
            if f.get("property") == prop and f.get("status", "open") == "open":
                self.known[f["key"]] = f

    # -- bookkeeping ---------------------------------------------------------
    def rule(self, rid, text):
        self.rules[rid] = text

    def analysed(self, *bodies):
        for b in bodies:
            self.functions.add(b if isinstance(b, str) else b.key)

    def add_sites(self, n):
        self.call_sites += n

    def add_paths(self, n):
        self.paths += n

    def note(self, s):
        self.notes.append(s)

    def ok(self, rule, key, where, detail=""):
        self.obligations.append({"rule": rule, "key": key, "where": where,
                                 "status": "discharged", "detail": detail})

    def fail(self, rule, key, where, detail, what=None):
        """A rule instance that does not hold.  key must not contain line numbers."""
        full = "%s|%s" % (rule, key)
        rec = {"rule": rule, "key": full, "where": where, "detail": detail}
        if full in self.known:
            rec["status"] = "known-finding"
            self.obligations.append(rec)
            self.known_hits.append((full, self.known[full].get("what", detail), where))
        else:
            rec["status"] = "violated"
            self.obligations.append(rec)
            self.violations.append(rec)

    def require(self, cond, rule, key, where, detail_fail, detail_ok=""):
        if cond:
            self.ok(rule, key, where, detail_ok)
        else:
            self.fail(rule, key, where, detail_fail)
        return cond

    def anchor_missing(self, what):
        self.anchor_errors.append(what)

    def floor(self, name, count, floor):
        """fail closed when an enumeration finds fewer instances than confirmed by hand"""
        # `floor` is the number counted by hand on the pinned tree.  The guard is against an enumeration that collapsed
        # (a renamed anchor, a rule that matches nothing), not against code that legitimately lost a call or two: larger
        # counts may shrink by up to 30 % before the check fails closed.
        eff = floor if floor <= 3 else int(floor * 0.7)
        if count < eff:
            self.anchor_errors.append(
                "count below floor: %s = %d < %d (counted on the pinned tree: %d)" % (name, count, eff, floor))
        self.extra.setdefault("floors", {})[name] = {"count": count, "floor": eff, "counted_on_pinned_tree": floor}

    # -- output --------------------------------------------------------------
    def finish(self):
        evdir = os.environ.get("VERIF_EVIDENCE_DIR") or os.path.join(VERIF, "evidence")
        os.makedirs(evdir, exist_ok=True)
        vdir = os.path.join(evdir, "%s.violations" % self.prop)
        if os.path.isdir(vdir):
            for f in os.listdir(vdir):
                os.unlink(os.path.join(vdir, f))
        print("== %s tier=%s: %d obligations over %d functions, %d call sites, %d paths"
              % (self.prop, self.tier, len(self.obligations), len(self.functions),
                 self.call_sites, self.paths))
        for rid, text in sorted(self.rules.items()):
            print("   rule %s: %s" % (rid, text))
        for n in self.notes:
            print("   note: " + n)
        for key, what, where in self.known_hits:
            print("KNOWN-FINDING: property=%s %s %s (%s)" % (self.prop, key, what, where))
        n = 0
        for v in self.violations:
            os.makedirs(vdir, exist_ok=True)
            p = os.path.join(vdir, "%d.json" % n)
            with open(p, "w") as fh:
                json.dump(dict(v, property=self.prop), fh, indent=1)
            print("   violated: %s at %s: %s" % (v["key"], v["where"], v["detail"]))
            print("VIOLATION property=%s replay=%s" % (self.prop, os.path.relpath(p, VERIF)))
            n += 1
        for a in self.anchor_errors:
            os.makedirs(vdir, exist_ok=True)
            p = os.path.join(vdir, "%d.json" % n)
            with open(p, "w") as fh:
                json.dump({"property": self.prop, "rule": "ANCHOR-MISSING", "key": a,
                           "detail": a, "where": ""}, fh, indent=1)
            print("ANCHOR-MISSING: property=%s %s" % (self.prop, a))
            print("VIOLATION property=%s replay=%s" % (self.prop, os.path.relpath(p, VERIF)))
            n += 1
        discharged = sum(1 for o in self.obligations if o["status"] == "discharged")
        samples = []
        seen_rules = set()
        for o in self.obligations:
            if o["rule"] not in seen_rules or o["status"] != "discharged":
                seen_rules.add(o["rule"])
                samples.append({k: o[k] for k in ("rule", "key", "where", "status", "detail")})
            if len(samples) >= 60:
                break
        def trivial(o):
            d = o.get("detail") or ""
            return o["status"] == "discharged" and (d.startswith("constant text") or d.startswith("constructor argument")
                                                    or d.startswith("guard idiom: constant") or d.startswith("informational"))
        distinct = len(set((o["rule"], o["key"]) for o in self.obligations if not trivial(o)))
        cov = {
            "explanation": self.explanation,
            "obligations": len(self.obligations),
            "discharged": discharged,
            "known_findings_reported": len(self.known_hits),
            "evaluations": len(self.obligations),
            "distinct_nontrivial": distinct,
            "rule": ("Cases are rule instances enumerated from the MIR facts of /repo's current tree: one obligation per "
                     "(rule, construct) where the construct key names function + callee / field / operand roots (never a line "
                     "number). evaluations = obligations evaluated; distinct_nontrivial = distinct (rule, key) pairs whose "
                     "decision needed a guard, provenance, table or path argument (instances settled by a bare constant - "
                     "constant text, constant non-zero divisor, plain constructor argument - are not counted). Rules: "
                     + "; ".join("%s: %s" % kv for kv in sorted(self.rules.items()))),
            "functions_analysed": len(self.functions),
            "functions": sorted(self.functions)[:200],
            "call_sites": self.call_sites,
            "paths_enumerated": self.paths,
            "samples": samples,
            "checker_cmd": "./check %s --tier %s" % (self.prop, self.tier),
            "trusted_base": ["rustc nightly MIR (opt-level 0, overflow checks on)",
                             "okfacts driver", "analysis/*.py",
                             "reviewed tables under rules/tables"],
            "anchor_errors": self.anchor_errors,
            "notes": self.notes,
        }
        cov.update(self.extra)
        ev = {
            "property_id": self.prop,
            "tier": self.tier,
            "seed": int(os.environ.get("VERIF_SEED", "0") or 0),
            "level": "other",
            "coverage": cov,
            "assumptions": self.assumptions + [
                "MIR of the dev profile is representative of shipped behaviour",
                "dependencies honour their documented panics and iteration order",
            ],
            "wall_s": round(time.time() - self.t0, 3),
            "violations": len(self.violations) + len(self.anchor_errors),
        }
        with open(os.path.join(evdir, "%s.json" % self.prop), "w") as fh:
            json.dump(ev, fh, indent=1)
        bad = bool(self.violations or self.anchor_errors)
        print("== %s: %s (%d/%d discharged, %d known findings, %d violations, %d anchor errors)"
              % (self.prop, "FAIL" if bad else "PASS", discharged, len(self.obligations),
                 len(self.known_hits), len(self.violations), len(self.anchor_errors)))
        sys.stdout.flush()
        return 1 if bad else 0
