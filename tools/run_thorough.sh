#!/bin/bash
cd /verif
run() { ./check $1 --tier thorough > /tmp/thorough_$1.log 2>&1; echo "$1 rc=$?" >> /tmp/thorough_done.log; }
rm -f /tmp/thorough_done.log
for grp in "C01 C02 C03 C04" "C05 C06 C07 C08" "C09 C10 C11 C12" "C13 C14 C15 C16" "C17 C18 C19 C20"; do
  for p in $grp; do run $p & done
  wait
done
echo ALLDONE >> /tmp/thorough_done.log
