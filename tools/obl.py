#!/usr/bin/env python3
"""debug: list every obligation of a property's rules on the current /repo tree"""
import sys, os, importlib
sys.path.insert(0, os.path.dirname(os.path.dirname(os.path.abspath(__file__))))
from analysis import mir, report
mod = importlib.import_module('rules.' + sys.argv[1])
chk = report.Check(sys.argv[1], 'quick', 'x')
P = mir.Program.load()
mod.run(P, chk, 'quick')
for o in chk.obligations:
    if len(sys.argv) > 2 and o['status'] == 'discharged':
        continue
    print(o['status'], o['rule'], o['key'], '|', o['detail'][:220])
for a in chk.anchor_errors: print('ANCHOR', a)
