#!/usr/bin/env python3
"""Verify a seeded change kept under /verif/seeded/<id>/ and record which checks catch it.

usage: tools/seed_verify.py <seed-id> [...]      (seed dir holds patch.diff, demo.sh, inputs)

In a persistent scratch worktree of /repo (/tmp/okseed-work, own target dir; never /repo itself):
  1. demo.sh on the unmodified tree must exit 0;
  2. with the patch applied: the whole test suite must pass, demo.sh must exit non-zero;
  3. every claimed check is run against the patched worktree; those that exit 1 are recorded.
Results go to the seed's meta.json (keys `verified`, `caught_by`).  The worktree is reset afterwards.
"""
import json
import os
import subprocess
import sys
import tempfile
import shutil

VERIF = os.path.dirname(os.path.dirname(os.path.abspath(__file__)))
WORK = os.environ.get("OKSEED_WORK", "/tmp/okseed-work")
sys.path.insert(0, VERIF)


def sh(cmd, cwd=None, env=None, timeout=1800):
    r = subprocess.run(cmd, cwd=cwd, env=env, stdout=subprocess.PIPE, stderr=subprocess.STDOUT, text=True, timeout=timeout)
    return r.returncode, r.stdout


def ensure_work():
    head = subprocess.run(["git", "-C", "/repo", "rev-parse", "HEAD"], stdout=subprocess.PIPE, text=True).stdout.strip()
    if not os.path.isdir(WORK):
        subprocess.run(["git", "-C", "/repo", "worktree", "add", "--detach", "-q", WORK, head], check=True)
    sh(["git", "checkout", "-q", "--detach", head], cwd=WORK)
    sh(["git", "checkout", "--", "."], cwd=WORK)
    sh(["git", "clean", "-fdq", "-e", "target"], cwd=WORK)
    return head


def claimed():
    from rules import registry
    return sorted(registry.CLAIMED)


def verify(seed):
    d = os.path.join(VERIF, "seeded", seed)
    meta_p = os.path.join(d, "meta.json")
    meta = json.load(open(meta_p)) if os.path.exists(meta_p) else {}
    head = ensure_work()
    env = dict(os.environ, CARGO_NET_OFFLINE="true")
    log = []
    sh(["cargo", "build", "--offline", "--workspace"], cwd=WORK, env=env)  # never demo against a stale binary
    rc0, out0 = sh(["bash", os.path.join(d, "demo.sh"), WORK], cwd=d, env=env)
    log.append("demo on unmodified tree: rc=%d" % rc0)
    rca, outa = sh(["git", "apply", os.path.join(d, "patch.diff")], cwd=WORK)
    if rca != 0:
        meta.update({"verified": False, "verify_log": log + ["patch does not apply: " + outa[-300:]]})
        json.dump(meta, open(meta_p, "w"), indent=1)
        return meta
    rct, outt = sh([os.path.join(VERIF, "tools", "repo_tests.sh"), WORK], env=env)
    tline = outt.strip().splitlines()[0] if outt.strip() else ""
    log.append("tests with change: rc=%d %s" % (rct, tline))
    sh(["cargo", "build", "--offline", "--workspace"], cwd=WORK, env=env)
    rc1, out1 = sh(["bash", os.path.join(d, "demo.sh"), WORK], cwd=d, env=env)
    log.append("demo with change: rc=%d" % rc1)
    ev = tempfile.mkdtemp(prefix="okseed-ev-")
    caught = {}
    cenv = dict(os.environ, OKANE_REPO=WORK, VERIF_EVIDENCE_DIR=ev)
    for p in claimed():
        rc, out = sh([os.path.join(VERIF, "check"), p], cwd=VERIF, env=cenv)
        if rc != 0:
            caught[p] = [l.strip()[:300] for l in out.splitlines() if l.startswith("   violated:") or l.startswith("ANCHOR-MISSING")][:4]
    shutil.rmtree(ev, ignore_errors=True)
    sh(["git", "checkout", "--", "."], cwd=WORK)
    sh(["git", "clean", "-fdq", "-e", "target"], cwd=WORK)
    ok = rc0 == 0 and rct == 0 and "failed=0" in tline and rc1 != 0
    meta.update({
        "verified": ok,
        "verified_at_repo_commit": head,
        "what_was_run": [
            "bash demo.sh <scratch worktree>   (unmodified: must exit 0)",
            "git apply patch.diff; cargo test --workspace --no-fail-fast --offline   (must pass)",
            "bash demo.sh <scratch worktree>   (with change: must exit non-zero)",
            "OKANE_REPO=<scratch worktree> ./check <P> for every claimed property",
        ],
        "verify_log": log,
        "caught_by": caught,
        "checks_run": claimed(),
    })
    json.dump(meta, open(meta_p, "w"), indent=1)
    return meta


if __name__ == "__main__":
    for s in sys.argv[1:]:
        m = verify(s)
        print(s, "verified=%s" % m.get("verified"), "caught_by=%s" % sorted(m.get("caught_by", {})), m.get("verify_log"))
