#!/usr/bin/env python3
"""Re-run some checks against an already verified seed and refresh `caught_by` in its meta.json (the demonstration and
the test suite are not repeated).  usage: tools/seed_recheck.py <seed-id> <Cxx> [<Cxx> ...]"""
import json, os, subprocess, sys, tempfile, shutil
VERIF = os.path.dirname(os.path.dirname(os.path.abspath(__file__)))
WORK = os.environ.get("OKSEED_WORK", "/tmp/okseed-work")


def sh(cmd, cwd=None, env=None):
    r = subprocess.run(cmd, cwd=cwd, env=env, stdout=subprocess.PIPE, stderr=subprocess.STDOUT, text=True)
    return r.returncode, r.stdout


def main(seed, props):
    d = os.path.join(VERIF, "seeded", seed)
    meta = json.load(open(os.path.join(d, "meta.json")))
    head = subprocess.run(["git", "-C", "/repo", "rev-parse", "HEAD"], stdout=subprocess.PIPE, text=True).stdout.strip()
    if not os.path.isdir(WORK):
        subprocess.run(["git", "-C", "/repo", "worktree", "add", "--detach", "-q", WORK, head], check=True)
    sh(["git", "checkout", "-q", "--detach", head], cwd=WORK)
    sh(["git", "checkout", "--", "."], cwd=WORK)
    sh(["git", "clean", "-fdq", "-e", "target"], cwd=WORK)
    rc, out = sh(["git", "apply", os.path.join(d, "patch.diff")], cwd=WORK)
    if rc != 0:
        print(seed, "patch does not apply", out[-200:])
        return
    ev = tempfile.mkdtemp(prefix="okseed-ev-")
    cenv = dict(os.environ, OKANE_REPO=WORK, VERIF_EVIDENCE_DIR=ev)
    caught = dict(meta.get("caught_by", {}))
    for p in props:
        rc, out = sh([os.path.join(VERIF, "check"), p], cwd=VERIF, env=cenv)
        if rc != 0:
            caught[p] = [l.strip()[:300] for l in out.splitlines() if l.startswith("   violated:") or l.startswith("ANCHOR-MISSING")][:4]
        else:
            caught.pop(p, None)
    shutil.rmtree(ev, ignore_errors=True)
    sh(["git", "checkout", "--", "."], cwd=WORK)
    sh(["git", "clean", "-fdq", "-e", "target"], cwd=WORK)
    meta["caught_by"] = caught
    meta.setdefault("what_was_run", []).append("tools/seed_recheck.py %s %s (checks re-run after rules changed)" % (seed, " ".join(props)))
    json.dump(meta, open(os.path.join(d, "meta.json"), "w"), indent=1)
    print(seed, "caught_by=%s" % sorted(caught))


if __name__ == "__main__":
    main(sys.argv[1], sys.argv[2:])
