#!/bin/bash
# Runs xkikeg/okane's own test suite (guard off; there are no hooks) and prints totals.
# usage: tools/repo_tests.sh [repo dir]
cd "${1:-/repo}" || exit 2
out=$(CARGO_NET_OFFLINE=true cargo test --workspace --no-fail-fast --offline 2>&1)
rc=$?
echo "$out" | grep -E "^test result" | awk '{p+=$4; f+=$6} END {printf "passed=%d failed=%d\n", p, f}'
echo "$out" | grep -E "^test .* FAILED|^error" | head -20
exit $rc
