#!/bin/bash
# usage: tools/rtry.sh <diff> <Cxx...> : apply a diff to the scratch worktree /tmp/rwt and run the named checks against it
set -u
WT=/tmp/rwt
[ -d $WT ] || git -C /repo worktree add --detach -q $WT HEAD
git -C $WT checkout -q -- . ; git -C $WT clean -fdq -e target
d=$(realpath "$1"); shift
git -C $WT apply "$d" || { echo "patch does not apply"; exit 2; }
mkdir -p /tmp/rev
for p in "$@"; do
  OKANE_REPO=$WT VERIF_EVIDENCE_DIR=/tmp/rev /verif/check $p 2>&1 | grep -E "violated:|ANCHOR|== C|Error|File |view\]" | cut -c1-${RTRY_W:-420}
done
