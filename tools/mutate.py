#!/usr/bin/env python3
"""Checker validation helper: apply a patch to a scratch git worktree of /repo (never to /repo
itself), run the given checks against it, print which fired, remove the worktree.

usage: tools/mutate.py --patch P [--reverse] --props C01,C06 [--expect SUBSTR] [--tests]
"""
import argparse
import os
import shutil
import subprocess
import sys
import tempfile

VERIF = os.path.dirname(os.path.dirname(os.path.abspath(__file__)))


def run_mutant(patch, props, reverse=False, tests=False, base="HEAD", quiet=False):
    wt = tempfile.mkdtemp(prefix="okmut-")
    ev = tempfile.mkdtemp(prefix="okmut-ev-")
    os.rmdir(wt)
    res = {}
    try:
        subprocess.run(["git", "-C", "/repo", "worktree", "add", "--detach", "-q", wt, base], check=True)
        cmd = ["git", "-C", wt, "apply"]
        if reverse:
            cmd.append("-R")
        cmd.append(os.path.abspath(patch))
        r = subprocess.run(cmd, stdout=subprocess.PIPE, stderr=subprocess.STDOUT, text=True)
        if r.returncode != 0:
            return {"error": "patch does not apply: " + r.stdout[-500:]}
        if tests:
            r = subprocess.run([os.path.join(VERIF, "tools", "repo_tests.sh"), wt],
                               stdout=subprocess.PIPE, stderr=subprocess.STDOUT, text=True,
                               env=dict(os.environ, CARGO_TARGET_DIR=os.path.join(wt, "target")))
            res["tests"] = r.stdout.strip().splitlines()[:3]
        env = dict(os.environ, OKANE_REPO=wt, VERIF_EVIDENCE_DIR=ev)
        for p in props:
            r = subprocess.run([os.path.join(VERIF, "check"), p], cwd=VERIF, env=env,
                               stdout=subprocess.PIPE, stderr=subprocess.STDOUT, text=True)
            lines = [l for l in r.stdout.splitlines() if l.startswith("   violated:") or l.startswith("ANCHOR-MISSING")]
            res[p] = {"rc": r.returncode, "violations": lines}
    finally:
        subprocess.run(["git", "-C", "/repo", "worktree", "remove", "--force", wt],
                       stdout=subprocess.DEVNULL, stderr=subprocess.DEVNULL)
        shutil.rmtree(wt, ignore_errors=True)
        shutil.rmtree(ev, ignore_errors=True)
        subprocess.run(["git", "-C", "/repo", "worktree", "prune"], stdout=subprocess.DEVNULL)
    return res


if __name__ == "__main__":
    ap = argparse.ArgumentParser()
    ap.add_argument("--patch", required=True)
    ap.add_argument("--reverse", action="store_true")
    ap.add_argument("--props", required=True)
    ap.add_argument("--expect")
    ap.add_argument("--tests", action="store_true")
    ap.add_argument("--base", default="HEAD")
    a = ap.parse_args()
    res = run_mutant(a.patch, a.props.split(","), a.reverse, a.tests, a.base)
    if "error" in res:
        print(res["error"])
        sys.exit(2)
    if "tests" in res:
        print("tests:", res["tests"])
    hit = False
    for p in a.props.split(","):
        r = res[p]
        print("%s rc=%d %d violation(s)" % (p, r["rc"], len(r["violations"])))
        for l in r["violations"]:
            print("   " + l.strip()[:260])
            if a.expect and a.expect in l:
                hit = True
    if a.expect:
        print("EXPECTED %s" % ("FOUND" if hit else "NOT FOUND"))
        sys.exit(0 if hit else 1)
