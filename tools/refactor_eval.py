#!/usr/bin/env python3
"""False-alarm probe: apply behaviour-preserving refactorings (patch files) to a scratch worktree of /repo and run
EVERY claimed check against each; any check that fires is a false alarm to be fixed.
usage: tools/refactor_eval.py PATCH [PATCH ...] [--json OUT]"""
import json
import os
import shutil
import subprocess
import sys
import tempfile

VERIF = os.path.dirname(os.path.dirname(os.path.abspath(__file__)))
sys.path.insert(0, VERIF)


def sh(cmd, **kw):
    r = subprocess.run(cmd, stdout=subprocess.PIPE, stderr=subprocess.STDOUT, text=True, **kw)
    return r.returncode, r.stdout


def one_patch(p, props, idx):
    from concurrent.futures import ThreadPoolExecutor
    wt = tempfile.mkdtemp(prefix="okref%d-" % idx)
    ev = tempfile.mkdtemp(prefix="okref-ev%d-" % idx)
    os.rmdir(wt)
    try:
        subprocess.run(["git", "-C", "/repo", "worktree", "add", "--detach", "-q", wt, "HEAD"], check=True)
        rc, out = sh(["git", "-C", wt, "apply", os.path.abspath(p)])
        if rc != 0:
            return {"patch": p, "status": "does not apply"}
        env = dict(os.environ, OKANE_REPO=wt)

        def run(pr):
            e = dict(env, VERIF_EVIDENCE_DIR=os.path.join(ev, pr))
            rc, out = sh([os.path.join(VERIF, "check"), pr], cwd=VERIF, env=e)
            if rc != 0:
                return pr, [l.strip()[:260] for l in out.splitlines() if l.startswith("   violated:") or l.startswith("ANCHOR-MISSING")][:4]
            return pr, None
        fired = {}
        first = run(props[0])        # builds the fact cache for this tree
        if first[1] is not None:
            fired[first[0]] = first[1]
        with ThreadPoolExecutor(max_workers=5) as ex:
            for pr, v in ex.map(run, props[1:]):
                if v is not None:
                    fired[pr] = v
        return {"patch": p, "fired": fired}
    finally:
        subprocess.run(["git", "-C", "/repo", "worktree", "remove", "--force", wt], stdout=subprocess.DEVNULL, stderr=subprocess.DEVNULL)
        shutil.rmtree(wt, ignore_errors=True)
        shutil.rmtree(ev, ignore_errors=True)


def main(argv):
    from concurrent.futures import ThreadPoolExecutor
    out_json = argv[argv.index("--json") + 1] if "--json" in argv else None
    jobs = int(argv[argv.index("--jobs") + 1]) if "--jobs" in argv else 3
    patches = [a for a in argv if a.endswith((".diff", ".patch"))]
    from rules import registry
    props = sorted(registry.CLAIMED)
    if "--props" in argv:
        props = argv[argv.index("--props") + 1].split(",")
    res = []
    nfired = 0
    with ThreadPoolExecutor(max_workers=jobs) as ex:
        futs = [ex.submit(one_patch, p, props, i) for i, p in enumerate(patches)]
        for f in futs:
            r = f.result()
            res.append(r)
            if r.get("status"):
                print("%-60s %s" % (r["patch"], r["status"]))
                continue
            fired = r["fired"]
            nfired += 1 if fired else 0
            print("%-60s %s" % (r["patch"], "silent" if not fired else "FIRED: " + ", ".join(sorted(fired))))
            for k, v in sorted(fired.items()):
                for l in v:
                    print("      %s %s" % (k, l))
            sys.stdout.flush()
    subprocess.run(["git", "-C", "/repo", "worktree", "prune"], stdout=subprocess.DEVNULL)
    if out_json:
        json.dump(res, open(out_json, "w"), indent=1)
    print("refactor_eval: %d patches, %d raise an alarm" % (len(res), nfired))
    return 1 if nfired else 0


if __name__ == "__main__":
    sys.exit(main(sys.argv[1:]))
