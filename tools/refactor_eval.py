#!/usr/bin/env python3
"""False-alarm probe: apply behaviour-preserving refactorings (patch files) to a scratch worktree of /repo and run
EVERY claimed check against each; any check that fires is a false alarm to be fixed.
usage: tools/refactor_eval.py PATCH [PATCH ...] [--json OUT]"""
import json
import os
import shutil
import subprocess
import sys
import tempfile

VERIF = os.path.dirname(os.path.dirname(os.path.abspath(__file__)))
sys.path.insert(0, VERIF)


def sh(cmd, **kw):
    r = subprocess.run(cmd, stdout=subprocess.PIPE, stderr=subprocess.STDOUT, text=True, **kw)
    return r.returncode, r.stdout


def main(argv):
    out_json = argv[argv.index("--json") + 1] if "--json" in argv else None
    patches = [a for a in argv if a.endswith((".diff", ".patch"))]
    from rules import registry
    props = sorted(registry.CLAIMED)
    if "--props" in argv:
        props = argv[argv.index("--props") + 1].split(",")
    wt = tempfile.mkdtemp(prefix="okref-")
    ev = tempfile.mkdtemp(prefix="okref-ev-")
    os.rmdir(wt)
    res = []
    try:
        subprocess.run(["git", "-C", "/repo", "worktree", "add", "--detach", "-q", wt, "HEAD"], check=True)
        for p in patches:
            sh(["git", "-C", wt, "checkout", "--", "."])
            sh(["git", "-C", wt, "clean", "-fdq"])
            rc, out = sh(["git", "-C", wt, "apply", os.path.abspath(p)])
            if rc != 0:
                print("%-60s does not apply" % p)
                res.append({"patch": p, "status": "does not apply"})
                continue
            env = dict(os.environ, OKANE_REPO=wt, VERIF_EVIDENCE_DIR=ev)
            fired = {}
            for pr in props:
                rc, out = sh([os.path.join(VERIF, "check"), pr], cwd=VERIF, env=env)
                if rc != 0:
                    fired[pr] = [l.strip()[:260] for l in out.splitlines() if l.startswith("   violated:") or l.startswith("ANCHOR-MISSING")][:4]
            print("%-60s %s" % (p, "silent" if not fired else "FIRED: " + ", ".join(sorted(fired))))
            for k, v in fired.items():
                for l in v:
                    print("      %s %s" % (k, l))
            res.append({"patch": p, "fired": fired})
            sys.stdout.flush()
    finally:
        subprocess.run(["git", "-C", "/repo", "worktree", "remove", "--force", wt], stdout=subprocess.DEVNULL, stderr=subprocess.DEVNULL)
        shutil.rmtree(wt, ignore_errors=True)
        shutil.rmtree(ev, ignore_errors=True)
        subprocess.run(["git", "-C", "/repo", "worktree", "prune"], stdout=subprocess.DEVNULL)
    if out_json:
        json.dump(res, open(out_json, "w"), indent=1)
    return 0


if __name__ == "__main__":
    sys.exit(main(sys.argv[1:]))
