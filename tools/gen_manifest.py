#!/usr/bin/env python3
"""Regenerates /verif/MANIFEST.json from rules/registry.py (single source of truth)."""
import json
import os
import sys

HERE = os.path.dirname(os.path.dirname(os.path.abspath(__file__)))
sys.path.insert(0, HERE)
from rules import registry  # noqa: E402

props = [json.loads(l) for l in open(os.path.join(HERE, "properties.jsonl"))]
ids = [p["id"] for p in props]

checks = []
na = []
for pid in ids:
    c = registry.CLAIMED.get(pid)
    if c is None:
        na.append({"property_id": pid, "reason": registry.NOT_APPLICABLE[pid]})
        continue
    checks.append({
        "property_id": pid,
        "quick_cmd": "./check %s --tier quick" % pid,
        "thorough_cmd": "./check %s --tier thorough" % pid,
        "evidence_file": "/verif/evidence/%s.json" % pid,
        "replay_cmd_template": "./check %s --replay {path}" % pid,
        "engine": "okfacts+rules",
        "level_claimed": {"category": "other", "text": c["text"], "design_ref": c["design_ref"]},
        "level_note": c["note"],
        "technique": c["technique"],
    })

manifest = {
    "version": 1,
    "setup_cmd": "python3 analysis/facts.py build-driver",
    "hooks": {
        "guard": "okane_verif",
        "enable": "none needed: the analysis reads /repo's source as it is (no instrumentation)",
        "baseline_off_cmd": "cd /repo && cargo test --workspace --no-fail-fast --offline",
        "source_commits": [],
        "add_only": True,
    },
    "engines": [
        {"name": "okfacts", "path": "driver/", "serves_properties": sorted(registry.CLAIMED),
         "kind_free_text": "rustc_private driver (nightly) run as RUSTC_WORKSPACE_WRAPPER under cargo check: dumps MIR (opt-level 0, overflow checks on) of every fn/closure of the three workspace crates with resolved callees, field names, constants, Assert terminators and an ADT table"},
        {"name": "rules", "path": "analysis/ rules/", "serves_properties": sorted(registry.CLAIMED),
         "kind_free_text": "python3 (stdlib only) static analyses over the MIR facts: CFG must-pass / dominance queries, operand provenance, switch-decision atoms in force at a site, bounded path enumeration for decision tables over finite domains, call graph + SCCs, hash-order flow, error-chain consumption; per-property rule files with reviewed tables"},
    ],
    "checks": checks,
    "not_applicable": na,
    "notes": registry.NOTES,
}
with open(os.path.join(HERE, "MANIFEST.json"), "w") as fh:
    json.dump(manifest, fh, indent=1)
    fh.write("\n")
print("MANIFEST.json: %d checks, %d not applicable" % (len(checks), len(na)))
