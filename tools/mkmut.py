#!/usr/bin/env python3
"""make a one-edit patch against /repo's HEAD: mkmut.py OUT.patch FILE OLD NEW [FILE OLD NEW ...]"""
import difflib
import subprocess
import sys

out = sys.argv[1]
args = sys.argv[2:]
chunks = []
for i in range(0, len(args), 3):
    f, old, new = args[i:i + 3]
    src = subprocess.run(["git", "-C", "/repo", "show", "HEAD:" + f], stdout=subprocess.PIPE, text=True, check=True).stdout
    if src.count(old) != 1:
        sys.exit("pattern occurs %d times in %s: %r" % (src.count(old), f, old))
    dst = src.replace(old, new)
    d = difflib.unified_diff(src.splitlines(True), dst.splitlines(True), "a/" + f, "b/" + f)
    chunks.append("".join(d))
open(out, "w").write("".join(chunks))
