#!/usr/bin/env python3
"""Checker validation (DESIGN.md §7): apply each stored mutant to a scratch worktree of /repo
(never /repo itself), run the named property's check against it and compare with the expectation.

usage: tools/selftest.py [Cxx ...] [--only NAME] [--tests] [--json OUT]

selftest/<Cxx>/<name>.patch        one mutant (patch against /repo HEAD)
selftest/<Cxx>/expect.json         {"<name>": {"fires": true|false, "rule": "<substring of a violated key>"}}
  fires=false marks a behaviour-preserving refactoring: the check must stay silent on it.
The worktree and the evidence scratch dir are removed at the end.
"""
import json
import os
import shutil
import subprocess
import sys
import tempfile

VERIF = os.path.dirname(os.path.dirname(os.path.abspath(__file__)))
ST = os.path.join(VERIF, "selftest")


def sh(cmd, **kw):
    r = subprocess.run(cmd, stdout=subprocess.PIPE, stderr=subprocess.STDOUT, text=True, **kw)
    return r.returncode, r.stdout


def run_props(props, only, run_tests, verbose, idx=0):
    """one scratch worktree for this group of properties; returns (results, mismatches, printed lines)"""
    wt = tempfile.mkdtemp(prefix="okself%d-" % idx)
    ev = tempfile.mkdtemp(prefix="okself-ev%d-" % idx)
    os.rmdir(wt)
    results = []
    bad = 0
    try:
        subprocess.run(["git", "-C", "/repo", "worktree", "add", "--detach", "-q", wt, "HEAD"], check=True)
        for p in props:
            d = os.path.join(ST, p)
            exp = {}
            ep = os.path.join(d, "expect.json")
            if os.path.exists(ep):
                exp = json.load(open(ep))
            for f in sorted(os.listdir(d)):
                if not f.endswith(".patch"):
                    continue
                name = f[:-6]
                if only and only != name:
                    continue
                e = exp.get(name, {"fires": True})
                sh(["git", "-C", wt, "checkout", "--", "."])
                sh(["git", "-C", wt, "clean", "-fdq", "-e", "target"])
                rc, out = sh(["git", "-C", wt, "apply", os.path.join(d, f)])
                rec = {"property": p, "mutant": name, "expect_fires": e.get("fires", True), "expect_rule": e.get("rule")}
                if rc != 0:
                    rec["status"] = "skipped: patch does not apply"
                    results.append(rec)
                    print("%s %-34s SKIPPED (patch does not apply)" % (p, name))
                    continue
                if run_tests:
                    rct, outt = sh([os.path.join(VERIF, "tools", "repo_tests.sh"), wt])
                    rec["tests"] = outt.strip().splitlines()[0] if outt.strip() else "rc=%d" % rct
                env = dict(os.environ, OKANE_REPO=wt, VERIF_EVIDENCE_DIR=ev)
                checks = e.get("props") or [p]
                lines = []
                fired = False
                for cp in checks:
                    rc, out = sh([os.path.join(VERIF, "check"), cp], cwd=VERIF, env=env)
                    ls = [l.strip() for l in out.splitlines() if l.startswith("   violated:") or l.startswith("ANCHOR-MISSING")]
                    lines += ls
                    fired = fired or rc != 0
                if any("facts unavailable" in l or "fact extraction failed" in l for l in lines):
                    rec["status"] = "skipped: mutant does not compile"
                    results.append(rec)
                    print("%s %-34s SKIPPED (mutant does not compile)" % (p, name))
                    continue
                rec["fired"] = fired
                rec["violations"] = [l[:240] for l in lines[:6]]
                okx = fired == rec["expect_fires"]
                if okx and fired and e.get("rule"):
                    okx = any(e["rule"] in l for l in lines)
                rec["status"] = "ok" if okx else "MISMATCH"
                if not okx:
                    bad += 1
                results.append(rec)
                print("%s %-34s fired=%-5s expected=%-5s %s %s" % (p, name, fired, rec["expect_fires"], rec["status"], rec.get("tests", "")))
                if not okx or verbose:
                    for l in lines[:6]:
                        print("      " + l[:230])
                sys.stdout.flush()
    finally:
        subprocess.run(["git", "-C", "/repo", "worktree", "remove", "--force", wt], stdout=subprocess.DEVNULL, stderr=subprocess.DEVNULL)
        shutil.rmtree(wt, ignore_errors=True)
        shutil.rmtree(ev, ignore_errors=True)
    return results, bad


def main(argv):
    props = [a for a in argv if a.startswith("C") and len(a) == 3]
    only = argv[argv.index("--only") + 1] if "--only" in argv else None
    run_tests = "--tests" in argv
    out_json = argv[argv.index("--json") + 1] if "--json" in argv else None
    jobs = int(argv[argv.index("--jobs") + 1]) if "--jobs" in argv else 1
    if not props:
        props = sorted(d for d in os.listdir(ST) if os.path.isdir(os.path.join(ST, d)))
    results = []
    bad = 0
    if jobs <= 1 or len(props) == 1:
        results, bad = run_props(props, only, run_tests, "-v" in argv)
    else:
        from concurrent.futures import ThreadPoolExecutor
        groups = [props[i::jobs] for i in range(jobs)]
        with ThreadPoolExecutor(max_workers=jobs) as ex:
            futs = [ex.submit(run_props, g, only, run_tests, "-v" in argv, i) for i, g in enumerate(groups) if g]
            for f in futs:
                r, b = f.result()
                results += r
                bad += b
    subprocess.run(["git", "-C", "/repo", "worktree", "prune"], stdout=subprocess.DEVNULL)
    if out_json:
        json.dump(results, open(out_json, "w"), indent=1)
    print("selftest: %d mutants, %d mismatches" % (len(results), bad))
    return 1 if bad else 0


if __name__ == "__main__":
    sys.exit(main(sys.argv[1:]))
