"""Shared slots for the per-property rule files: cones, table loading, small helpers."""
import os
import tomllib

from analysis import mir

HERE = os.path.dirname(os.path.abspath(__file__))


def load_table(name):
    with open(os.path.join(HERE, "tables", name), "rb") as fh:
        return tomllib.load(fh)


def c06_cone(P):
    """okane-core, plus the non-import commands, the format glue and main (DESIGN §3 E3)."""
    out = []
    for b in P.bodies.values():
        m = mir.body_module(b)
        if m.startswith("okane_core"):
            if "::testing" in m:
                continue
            out.append(b)
        elif m in ("okane::cmd", "okane::format", "okane", "okane::bin::okane"):
            if b.key.startswith("okane::cmd::ImportCmd") or "ImportCmd" in (b.impl_self or ""):
                continue
            out.append(b)
    return sorted(out, key=lambda b: b.key)


def fn(P, key):
    return P.body(key)


def where(body, bb=None):
    return body.loc(bb)
