"""C08 — value expressions evaluate as ordinary arithmetic with commodity typing."""
from analysis import mir, q, tables, panics
from analysis.mir import norm, callee, callee_def, callee_names, prov

EXPLANATION = (
    "Static decision tables and structure rules.  The operand-kind typing of Evaluated::check_add/"
    "check_sub/check_mul/check_div is enumerated path by path over (lhs kind, rhs kind) in "
    "{Number, Commodities}^2 (x zero/non-zero divisor for division) and compared with the "
    "specification (which pairs are accepted, which result kind, which error), exhaustively; the "
    "arithmetic call on each accepting arm must be the operator's own trait with self as left and "
    "rhs as right operand.  BinaryOpExpr::eval_visit must dispatch Add/Sub/Mul/Div to "
    "check_add/sub/mul/div with the value of lhs as receiver and of rhs as argument; unary minus to "
    "negate.  The grammar strata are read from the function-value reference graph: add_expr = "
    "infixl(add_op, mul_expr), mul_expr = infixl(mul_op, unary_expr), add_op = {'+':Add,'-':Sub}, "
    "mul_op = {'*':Mul,'/':Div}, infixl folds left (separated_foldl1) building "
    "BinaryOpExpr{lhs: acc, op, rhs: next}.  The conversions to a single amount reject more than one "
    "commodity before taking an element.  Numeric results are not decided."
)

EV = "okane_core::report::eval::evaluated::Evaluated"
EX = "okane_core::parse::expr"
R_TYPE = "E5.operator-typing"
R_ARITH = "E7.arith-operands"
R_DISP = "E5.dispatch"
R_GRAM = "E8.grammar-strata"
R_CARD = "E5.single-amount-cardinality"

KINDS = ("Number", "Commodities")


def kind_sym(roots):
    return tables.sym_of(roots, [
        (lambda r: r.kind == "param" and r.name.endswith(":self") and not r.fields, "lhs"),
        (lambda r: r.kind == "param" and r.name.endswith(":rhs") and not r.fields, "rhs"),
    ])


def outcome_class(body, path):
    s = mir.shape_str(body, path.shape)
    if s.startswith("Result::Ok(Evaluated::Number"):
        return "Ok(Number)"
    if s.startswith("Result::Ok(Evaluated::Commodities"):
        return "Ok(Commodities)"
    if s.startswith("Result::Err(EvalError::"):
        return "Err(%s)" % s[len("Result::Err(EvalError::"):].split("(")[0]
    if s.startswith("call:"):
        c = s[5:]
        if c.endswith("from_residual"):
            return "propagate(?)"
        if c == "std::result::Result::map":
            return "propagate(map)"
        return "call:" + c
    return s


def typing_table(P, chk, name, spec, with_zero=False):
    b = P.body(EV + "::" + name)
    chk.analysed(b)
    points = []
    for l in KINDS:
        for r in KINDS:
            if with_zero:
                for z in (True, False):
                    points.append({"lhs": l, "rhs": r, "zero": z})
            else:
                points.append({"lhs": l, "rhs": r})

    def value_of(atom, pt):
        if atom.kind == "variant":
            s = kind_sym(atom.subject)
            if s:
                return pt[s]
            # Try::branch on an inner fallible step: both outcomes possible
            if any(r.kind == "call" for r in atom.subject):
                return tables.FREE
            return tables.UNKNOWN
        if atom.kind == "call":
            cn = atom.subject[0]
            if cn == EV + "::is_zero" and with_zero:
                s = kind_sym(atom.subject[1][0])
                if s == "rhs":
                    return pt["zero"]
            return tables.UNKNOWN
        return tables.UNKNOWN

    res = tables.decide(b, points, value_of, spec, lambda p: outcome_class(b, p))
    chk.add_paths(res.paths)
    key = "Evaluated::%s|typing" % name
    if res.bad:
        chk.fail(R_TYPE, key, b.loc(), "; ".join("%s: %s" % (pt, m) for pt, m in res.bad[:3]))
    else:
        chk.ok(R_TYPE, key, b.loc(), "%d cases over %d paths, exhaustive" % (res.points, res.paths))
    return b


def arith_operands(P, chk, name, trait, commutative):
    """on the accepting arms the arithmetic call is `trait` with payload(self) op payload(rhs)"""
    b = P.body(EV + "::" + name)
    n = 0
    for bb, t in b.calls():
        cd = callee_def(t) or ""
        if not cd.startswith("std::ops::") or cd.endswith("Try::branch") or cd.endswith("from_residual") or \
                "Deref" in cd or "Fn" in cd:
            continue
        n += 1
        okop = cd == trait
        a0, a1 = t["args"][0], t["args"][1]

        def side(o):
            rs = prov(b, o)
            if rs and all(r.kind == "param" and r.name.endswith(":self") for r in rs):
                return "self"
            if rs and all(r.kind == "param" and r.name.endswith(":rhs") for r in rs):
                return "rhs"
            return "?"
        s0, s1 = side(a0), side(a1)
        okord = (s0, s1) == ("self", "rhs") or (commutative and (s0, s1) == ("rhs", "self"))
        if not okord and commutative and (s0, s1) == ("?", "?"):
            # `(Number(x), Commodities(y)) | (Commodities(y), Number(x)) => y * x`: each operand is the payload of one
            # variant, taken from whichever side holds it; the two variants differ, so the operands come from the two sides
            def variants(o):
                rs = prov(b, o)
                if rs and all(r.kind == "param" and r.name.rsplit(":", 1)[-1] in ("self", "rhs") and r.fields[:1] and r.fields[0].startswith("#") for r in rs):
                    return set(r.fields[0] for r in rs), set(r.name.rsplit(":", 1)[-1] for r in rs)
                return None, None
            v0, p0 = variants(a0)
            v1, p1 = variants(a1)
            if v0 and v1 and len(v0) == 1 and len(v1) == 1 and v0 != v1 and p0 == p1 == {"self", "rhs"}:
                okord = True
                s0, s1 = "self|rhs", "rhs|self"
        chk.require(okop and okord, R_ARITH, "Evaluated::%s|%s(%s,%s)" % (name, cd.rsplit("::", 1)[-1], s0, s1), b.loc(bb),
                    "accepting arm of %s computes %s(%s, %s), expected %s(self, rhs)" % (name, cd, s0, s1, trait),
                    "%s(%s, %s)" % (trait, s0, s1))
    chk.floor("arithmetic calls in %s" % name, n, 2)


def dispatch(P, chk):
    key = "<okane_core::syntax::expr::BinaryOpExpr as okane_core::report::eval::Evaluable>::eval_visit"
    b = P.body(key)
    chk.analysed(b)
    want = {"Add": "check_add", "Sub": "check_sub", "Mul": "check_mul", "Div": "check_div"}
    found = {}
    for bb, t in b.calls():
        c = callee(t) or ""
        if c.startswith(EV + "::check_"):
            meth = c.rsplit("::", 1)[-1]
            ops = [labs for roots, labs in q.variant_guards(b, bb)
                   if any(r.kind == "param" and "op" in r.fields for r in roots)]
            recv, arg = t["args"]

            def from_eval(o, field):
                rs = prov(b, o)
                if not rs:
                    return False
                for r in rs:
                    if not (r.kind == "call" and r.name.endswith("eval_visit") and r.site is not None):
                        return False
                    sub = b.term(r.site)["args"][0]
                    if not q.all_roots(b, sub, lambda x: x.kind == "param" and field in x.fields):
                        return False
                return True
            okops = from_eval(recv, "lhs") and from_eval(arg, "rhs")
            for labs in ops:
                for lab in labs:
                    found.setdefault(lab, set()).add((meth, okops))
    # the operation picked first as a function value, applied afterwards: `let f = match op { Add => check_add, .. }; f(l, r)`
    indirect_ok = set()
    for bb, t in b.calls():
        f = t["f"]
        if f.get("def") is not None or not isinstance(f.get("indirect"), dict) or len(t["args"]) != 2:
            continue
        defs = q.phi_defs(b, f["indirect"])
        allfn = bool(defs)
        for dbb, op_ in defs:
            fnname = None
            if op_ is not None and op_.get("k") == "const" and op_.get("fn"):
                fnname = norm(op_.get("fn_resolved") or op_["fn"])
            elif op_ is not None:
                rs = prov(b, op_)
                if len(rs) == 1 and next(iter(rs)).kind == "fn":
                    fnname = next(iter(rs)).name
            if fnname is None or not fnname.startswith(EV + "::check_") or dbb is None:
                allfn = False
                continue
            meth = fnname.rsplit("::", 1)[-1]
            ops = [labs for roots, labs in q.variant_guards(b, dbb) if any(r.kind == "param" and "op" in r.fields for r in roots)]

            def from_eval2(o, field):
                rs = prov(b, o)
                return bool(rs) and all(r.kind == "call" and r.name.endswith("eval_visit") and r.site is not None and
                                        q.all_roots(b, b.term(r.site)["args"][0], lambda x: x.kind == "param" and field in x.fields) for r in rs)
            okops = from_eval2(t["args"][0], "lhs") and from_eval2(t["args"][1], "rhs")
            for labs in ops:
                for lab in labs:
                    found.setdefault(lab, set()).add((meth, okops))
        if allfn:
            indirect_ok.add(bb)
    for op, meth in want.items():
        got = found.get(op, set())
        chk.require(got == {(meth, True)}, R_DISP, "BinaryOpExpr::eval_visit|%s" % op, b.loc(),
                    "operator %s dispatches to %s" % (op, sorted(got) or "nothing"),
                    "%s -> lhs.%s(rhs)" % (op, meth))
    # nothing but the dispatched check_* result (or a propagated error) is ever returned
    extra = []
    for bb, v, rv in q.ok_err_assignments(b):
        if v.startswith("call:") and (EV + "::check_" in v or v.endswith("from_residual")):
            continue
        if v.startswith("call:") and bb in indirect_ok:
            continue
        extra.append("%s at %s" % (v, b.loc(bb)))
    chk.require(not extra, R_DISP, "BinaryOpExpr::eval_visit|returns only check_* results", b.loc(),
                "a binary operation can return without going through check_add/sub/mul/div: %s" % ", ".join(extra),
                "every return is a check_* result or a propagated error")
    # unary
    ukey = "<okane_core::syntax::expr::UnaryOpExpr as okane_core::report::eval::Evaluable>::eval_visit"
    u = P.body(ukey)
    chk.analysed(u)
    neg = mir.call_sites(u, [EV + "::negate"])
    okn = len(neg) == 1 and q.all_roots(u, neg[0][1]["args"][0],
                                        lambda r: r.kind == "call" and r.name.endswith("eval_visit"))
    okn = okn and q.every_return_passes(u, [neg[0][0]] + [bb for bb, t in u.calls() if callee_def(t) == "std::ops::FromResidual::from_residual"]) if neg else False
    if not okn:
        # eval(expr).map(Evaluated::negate): the error passes through unchanged, a value is negated
        for bb, t in u.calls():
            if callee_def(t) == "std::result::Result::map" and len(t["args"]) == 2 and t["dest"]["l"] == 0 and not t["dest"]["p"]:
                fn_ = [r for r in prov(u, t["args"][1])]
                isneg = len(fn_) == 1 and fn_[0].kind == "fn" and fn_[0].name == EV + "::negate"
                src = q.all_roots(u, t["args"][0], lambda r: r.kind == "call" and r.name.endswith("eval_visit"))
                if isneg and src and q.every_return_passes(u, [bb]):
                    okn = True
    chk.require(okn, R_DISP, "UnaryOpExpr::eval_visit|Negate", u.loc(),
                "unary minus does not return negate() of the evaluated operand", "Negate -> eval(expr)?.negate()")
    # Evaluated::negate negates both kinds
    ng = P.body(EV + "::negate")
    chk.analysed(ng)
    kinds = {}
    for p in mir.enumerate_paths(ng):
        lab = [a.label for a in p.atoms if a.kind == "variant" and kind_sym(a.subject) == "lhs"]
        s = mir.shape_str(ng, p.shape)
        for l in lab[:1]:
            kinds[l] = s
    okng = "Neg" in kinds.get(("Number",), "") or "neg" in kinds.get(("Number",), "")
    okng = okng and "negate" in kinds.get(("Commodities",), "")
    chk.require(okng, R_DISP, "Evaluated::negate|both kinds", ng.loc(), "negate shapes: %s" % kinds,
                "Number -> -x, Commodities -> x.negate()")


def fn_arg(o):
    if o.get("k") == "const" and o.get("fn"):
        return norm(o.get("fn_resolved") or o["fn"])
    return None


def grammar(P, chk):
    strata = {
        "add_expr": ("add_op", "mul_expr"),
        "mul_expr": ("mul_op", "unary_expr"),
    }
    for fn, (op, operand) in strata.items():
        b = P.body(EX + "::" + fn)
        chk.analysed(b)
        sites = mir.call_sites(b, [EX + "::infixl"])
        ok = len(sites) == 1 and fn_arg(sites[0][1]["args"][0]) == EX + "::" + op and \
            fn_arg(sites[0][1]["args"][1]) == EX + "::" + operand
        got = [(fn_arg(t["args"][0]), fn_arg(t["args"][1])) for bb, t in sites]
        chk.require(ok, R_GRAM, "%s|infixl(%s,%s)" % (fn, op, operand), b.loc(),
                    "%s is built as infixl%s" % (fn, got), "infixl(%s, %s)" % (op, operand))
    ops = {"add_op": {("+", "Add"), ("-", "Sub")}, "mul_op": {("*", "Mul"), ("/", "Div")}}
    for fn, want in ops.items():
        b = P.body(EX + "::" + fn)
        chk.analysed(b)
        got = set()
        for bb, t in mir.call_sites(b, ["winnow::Parser::value"]):
            ch = None
            for r in prov(b, t["args"][0]):
                if r.kind == "call" and r.name == "winnow::token::one_of" and r.site is not None:
                    ch = b.term(r.site)["args"][0].get("char")
            var = None
            for r in prov(b, t["args"][1]):
                if r.kind == "agg" and "BinaryOp::" in r.name:
                    var = r.name.rsplit("::", 1)[-1]
            got.add((ch, var))
        chk.require(got == want, R_GRAM, "%s|symbols" % fn, b.loc(), "%s maps %s" % (fn, sorted(got, key=str)),
                    "%s" % sorted(want))
    # unary_expr references negate_expr and value_expr; paren_expr references add_expr
    for fn, needs in (("unary_expr", {"negate_expr", "value_expr"}), ("paren_expr", {"add_expr"}),
                      ("negate_expr", {"value_expr"})):
        refs = set()
        for body in P.with_closures(EX + "::" + fn):
            for bb, o in body.iter_operands():
                f = fn_arg(o)
                if f and f.startswith(EX + "::"):
                    refs.add(f.rsplit("::", 1)[-1])
        chk.require(needs <= refs, R_GRAM, "%s|references" % fn, P.body(EX + "::" + fn).loc(),
                    "%s references %s" % (fn, sorted(refs)), "references %s" % sorted(needs))
    # the unary minus always builds Unary(Negate, operand): the sign is never folded into / set on the operand
    ne_bodies = P.with_closures(EX + "::negate_expr")
    builders = [x for x in ne_bodies if x.is_closure and any(st["k"] == "assign" and st["rv"]["k"] == "aggregate" and
                                                             norm(st["rv"].get("adt") or "") == "okane_core::syntax::expr::Expr"
                                                             for blk in x.blocks for st in blk["stmts"])]
    okneg = len(builders) == 1
    detail = "expected one closure building the negated expression, found %d" % len(builders)
    if okneg:
        c = builders[0]
        chk.analysed(c)
        shapes = []
        for bb2, v, rv in q.ok_err_assignments(c):
            if v == "other" and rv.get("k") == "aggregate":
                shapes.append((rv.get("variant"), bb2, rv))
            elif v == "other":
                shapes.append(("?", bb2, rv))
        rets = [sh for sh in shapes]
        ok_all = bool(rets)
        for var, bb2, rv in rets:
            if var != "Unary":
                ok_all = False
                detail = "a `-x` can be returned as Expr::%s (no Negate node)" % var
                continue
            u = mir.single_def(c, rv["fields"][0]["op"]["place"]["l"])
            if not (u and u[0] == "assign" and u[4]["k"] == "aggregate"):
                ok_all = False
                continue
            f = {x["name"]: x["op"] for x in u[4]["fields"]}
            opv = [r.name for r in prov(c, f["op"]) if r.kind == "agg"]
            inner = q.chains(c, f["expr"])
            pn = c.local_name(2) or "arg2"
            oke = bool(inner) and all(set(n.rsplit("::", 1)[-1] for n in cn) <= {"new"} or True for cn, r in inner)
            from_param = False
            for r in prov(c, f["expr"]):
                if r.kind == "call" and r.site is not None:   # Box::new(Expr::Value(Box::new(ve)))
                    from_param = True
            if not (opv and all(x.endswith("UnaryOp::Negate") for x in opv)):
                ok_all = False
                detail = "the unary node's operator is %s" % opv
        muts = [n for x in ne_bodies for bb2, t2 in x.calls()
                for n in [(callee_def(t2) or "").rsplit("::", 1)[-1]]
                if n.startswith("set_sign") or n in ("neg", "negate", "abs", "set_scale", "rescale")]
        if muts:
            ok_all = False
            detail = "the parser itself changes the operand's sign / value (%s) instead of recording the negation" % sorted(set(muts))
        okneg = ok_all
    chk.require(okneg, R_GRAM, "negate_expr|`-x` is always Unary(Negate, x)", P.body(EX + "::negate_expr").loc(), detail,
                "preceded('-', value_expr).map(|ve| Expr::Unary(UnaryOpExpr{op: Negate, expr: ve}))")
    # left fold
    inf = P.body(EX + "::infixl")
    chk.analysed(inf)
    folds = mir.call_sites(inf, ["winnow::combinator::separated_foldl1"])
    okf = len(folds) == 1
    if okf:
        t = folds[0][1]
        okf = q.all_roots(inf, t["args"][0], lambda r: q.is_param(r, "operand"))
        sep_roots = set()
        for r in prov(inf, t["args"][1]):
            if r.kind == "call" and r.site is not None:
                for a in inf.term(r.site)["args"]:
                    for r2 in prov(inf, a):
                        sep_roots.add(r2)
        okf = okf and any(q.is_param(r, "operator") for r in sep_roots)
    chk.require(okf, R_GRAM, "infixl|separated_foldl1(operand, .. operator ..)", inf.loc(),
                "infixl is not a left fold of operand separated by operator", "separated_foldl1(operand, delimited(.., operator, ..), f)")
    clo = P.closures_of(inf.key)
    okc = False
    detail = "closure not found"
    for c in clo:
        for b2, bb, j, rv in [(c, i, j, st["rv"]) for i, blk in enumerate(c.blocks) for j, st in enumerate(blk["stmts"])
                              if st["k"] == "assign" and st["rv"]["k"] == "aggregate" and
                              norm(st["rv"].get("adt", "")) == "okane_core::syntax::expr::BinaryOpExpr"]:
            m = {}
            for f in rv["fields"]:
                rs = prov(c, f["op"])
                names = set()
                for r in rs:
                    if r.kind == "param":
                        names.add(int(r.name.split(":", 1)[0]))
                    elif r.kind == "call" and r.name == "std::boxed::Box::new" and r.site is not None:
                        for r2 in prov(c, c.term(r.site)["args"][0]):
                            if r2.kind == "param":
                                names.add(int(r2.name.split(":", 1)[0]))
                m[f["name"]] = names
            okc = m.get("lhs") == {2} and m.get("op") == {3} and m.get("rhs") == {4}
            detail = "BinaryOpExpr built from closure params %s" % m
    chk.require(okc, R_GRAM, "infixl|fold-builds-lhs-op-rhs", inf.loc(), detail,
                "BinaryOpExpr{lhs: acc, op, rhs: next}")


def cardinality(P, chk):
    A = "okane_core::report::eval::amount"
    AM = A + "::Amount"
    for target, err in (("okane_core::report::eval::single_amount::SingleAmount", "SingleAmountRequired"),
                        ("okane_core::report::eval::posting_amount::PostingAmount", "PostingAmountRequired")):
        key = "%s::<impl std::convert::TryFrom<&%s> for %s>::try_from" % (A, AM, target)
        b = P.body(key)
        chk.analysed(b)
        short = target.rsplit("::", 1)[-1]
        oks = [(bb, rv) for bb, v, rv in q.ok_err_assignments(b) if v == "Ok"]
        good = bool(oks)
        for bb, rv in oks:
            g = False
            for rel, lo, ro in q.rel_in_force(b, bb):
                c = ro.get("int") if ro.get("k") == "const" else None
                islen = q.all_roots(b, lo, lambda r: r.kind == "call" and r.name == "std::collections::HashMap::len")
                if islen and c is not None and ((rel == "Le" and c <= 1) or (rel == "Lt" and c <= 2) or (rel == "Eq" and c <= 1)):
                    g = True
            if not g:
                # `match (it.next(), it.next())`: Ok only where the first next() was None (no commodity) or the second one was
                # (exactly one commodity)
                nexts = [nb for nb, t in b.calls() if (callee_def(t) or "") == "std::iter::Iterator::next" and t["args"] and
                         all(q.is_param(r, "value") and tuple(r.fields) in ((), ("values",)) and
                             all(n.rsplit("::", 1)[-1] in ("iter", "into_iter", "values") for n in cn)
                             for cn, r in q.chains(b, t["args"][0])) and q.chains(b, t["args"][0])]
                if nexts and not any(nb in blks for blks in b.loops().values() for nb in nexts):
                    first = [n for n in nexts if all(n == m or b.must_pass_block(m, n) for m in nexts)]
                    for a in mir.guards_at(b, bb):
                        if a.kind == "variant" and tuple(a.label) == ("None",):
                            sites = [r.site for r in a.subject if r.kind == "call" and r.site in nexts]
                            if sites and (len(nexts) >= 2 and all(s_ not in first for s_ in sites) and len(nexts) == 2 or all(s_ in first for s_ in sites)):
                                g = True
            good = good and g
        chk.require(good, R_CARD, "TryFrom<&Amount> for %s|Ok only when len() <= 1" % short, b.loc(),
                    "an Ok conversion is reachable without the number of commodities being tested <= 1",
                    "%d Ok return(s) under values.len() <= 1" % len(oks))
        # by-value version delegates
        keyv = "%s::<impl std::convert::TryFrom<%s> for %s>::try_from" % (A, AM, target)
        bv = P.body(keyv)
        chk.analysed(bv)
        deleg = [t for bb, t in bv.calls() if key in callee_names(t)]
        chk.require(len(deleg) == 1 and q.every_return_passes(bv, [bb for bb, t in bv.calls() if key in callee_names(t)]),
                    R_CARD, "TryFrom<Amount> for %s|delegates to the by-reference conversion" % short, bv.loc(),
                    "the by-value conversion does not go through the checked by-reference one", "delegates")


def run(P, chk, tier):
    chk.rule(R_TYPE, "operand-kind typing table of each check_* equals the specification on every (lhs, rhs[, zero divisor]) case")
    chk.rule(R_ARITH, "each accepting arm applies the operator's own trait to (self payload, rhs payload) in that order")
    chk.rule(R_DISP, "BinaryOp::{Add,Sub,Mul,Div} dispatch to check_{add,sub,mul,div}(eval(lhs), eval(rhs)); Negate to negate")
    chk.rule(R_GRAM, "precedence strata, operator symbols and left fold of the expression grammar")
    chk.rule(R_CARD, "conversions from Amount to a single amount test the commodity count before taking an element")

    def addsub(pt):
        if pt["lhs"] == pt["rhs"]:
            return "Ok(%s)" % pt["lhs"]
        return "Err(UnmatchingOperation)"

    def mul(pt):
        if pt["lhs"] == "Number" and pt["rhs"] == "Number":
            return "Ok(Number)"
        if pt["lhs"] == "Commodities" and pt["rhs"] == "Commodities":
            return "Err(UnmatchingOperation)"
        return "Ok(Commodities)"

    def div(pt):
        if pt["zero"]:
            return "Err(DivideByZero)"
        if pt["lhs"] == "Number" and pt["rhs"] == "Number":
            return "Ok(Number)"
        if pt["lhs"] == "Commodities" and pt["rhs"] == "Number":
            return {"propagate(map)", "Ok(Commodities)"}
        if pt["lhs"] == "Number" and pt["rhs"] == "Commodities":
            return {"Ok(Commodities)", "propagate(?)"}
        return "Err(UnmatchingOperation)"

    typing_table(P, chk, "check_add", addsub)
    typing_table(P, chk, "check_sub", addsub)
    typing_table(P, chk, "check_mul", mul)
    typing_table(P, chk, "check_div", div, with_zero=True)
    arith_operands(P, chk, "check_add", "std::ops::Add::add", True)
    arith_operands(P, chk, "check_sub", "std::ops::Sub::sub", False)
    arith_operands(P, chk, "check_mul", "std::ops::Mul::mul", True)
    # Evaluated::is_zero reads the payload's own is_zero on both arms (supports the check_div guard)
    iz = P.body(EV + "::is_zero")
    chk.analysed(iz)
    shapes = {}
    for p in mir.enumerate_paths(iz):
        for a in p.atoms:
            if a.kind == "variant" and kind_sym(a.subject) == "lhs":
                shapes[a.label] = mir.shape_str(iz, p.shape)
    chk.require(shapes.get(("Number",)) == "call:rust_decimal::Decimal::is_zero" and
                "Amount::is_zero" in shapes.get(("Commodities",), ""), R_TYPE, "Evaluated::is_zero|payload", iz.loc(),
                "Evaluated::is_zero shapes %s" % shapes, "Number -> Decimal::is_zero, Commodities -> Amount::is_zero")
    dispatch(P, chk)
    grammar(P, chk)
    cardinality(P, chk)
