"""C10 — converted reports convert every amount or fail (narrow claim)."""
from analysis import mir, q, tables, panics
from analysis.mir import norm, callee, callee_def, callee_names, prov
from . import common, shared, C04, C09

EXPLANATION = (
    "Narrow static claim: a missing rate is an error on every path from its creation to exit(1) - "
    "never dropped, defaulted or skipped (E9 over query / price_db / the report commands), each "
    "strategy converts with the right operands (historical: posting amount at txn.date into the "
    "query's target; up-to-date: each account's amount at the strategy's `now` into the target), the "
    "conversion match has no catch-all, convert_amount feeds every element of the amount through "
    "convert_single and adds every result, no selection adaptor sits on the posting or account "
    "streams, amounts already in the target are returned unchanged, the fast path is chosen only "
    "when neither a range nor historical conversion is requested, and nothing is rounded inside "
    "Ledger::balance before the final Balance::round.  Completeness / linearity of the sums as "
    "numbers is not decided."
)

Q = "okane_core::report::query"
PD = "okane_core::report::price_db"
R_E9 = "E9.error-chain"
R_MAIN = "E9.main-exit"
R_OPS = "E7.conversion-operands"
R_ALL = "E6.convert-every-element"
R_ROUND = "E6.round-only-at-end"
R_REC = "E5.recompute-table"
R_CONV = "E5.convert-single"


def conversion_operands(P, chk):
    b = P.body(Q + "::Ledger::balance")
    chk.analysed(b)
    sites = mir.call_sites(b, [PD + "::convert_amount"])
    loops = b.loops()
    kinds = {}
    for bb, t in sites:
        amt, target, date = t["args"][1], t["args"][2], t["args"][3]
        sd = " ".join(mir.prov_strs(b, date))
        st = " ".join(mir.prov_strs(b, target))
        sa = " ".join(mir.prov_strs(b, amt))
        # which strategy arm guards this call
        arm = None
        for roots, labs in q.variant_guards(b, bb):
            if any("strategy" in r.fields for r in roots):
                arm = labs
        if arm is None:
            # the strategy was decided once before the loop into an Option that the call is guarded by:
            # `let t = match conversion { Historical{target} => Some(target), _ => None }; .. if let Some(t) = t { convert(..) }`
            arms = set()
            for roots, labs in q.variant_guards(b, bb):
                if labs != ("Some",) or not all(r.kind == "agg" and "Option::" in str(r.name) for r in roots):
                    continue
                for r in roots:
                    if r.kind == "agg" and str(r.name).endswith("Option::Some") and r.site is not None:
                        for roots2, labs2 in q.variant_guards(b, r.site):
                            if any("strategy" in r2.fields for r2 in roots2):
                                arms.add(labs2)
                    elif r.kind == "agg" and str(r.name).endswith("Option::None"):
                        pass
                    else:
                        arms.add(None)
            if len(arms) == 1 and None not in arms:
                arm = arms.pop()
        if arm == ("Historical",):
            ok = q.all_roots(b, date, lambda r: r.kind == "call" and r.fields[-1:] == ("date",) and str(r.name).endswith("::next")) \
                and "now" not in sd and "target" in st and "amount" in sa
            chk.require(ok, R_OPS, "Ledger::balance|historical converts posting.amount at txn.date into target", b.loc(bb),
                        "historical conversion uses amount=%s date=%s target=%s" % (sa, sd, st),
                        "convert_amount(posting.amount, target, txn.date)")
            kinds["Historical"] = True
        elif arm == ("UpToDate",):
            # every value that can reach the date operand is the strategy's own `now` (nothing derived from it)
            ok = q.all_roots(b, date, lambda r: r.kind == "param" and r.fields[-1:] == ("now",) and not [v for v in r.via if v not in ("φ", "deref", "clone")]) \
                and ".date" not in sd and "target" in st
            chk.require(ok, R_OPS, "Ledger::balance|up-to-date converts at the strategy's now into target", b.loc(bb),
                        "up-to-date conversion uses amount=%s date=%s target=%s" % (sa, sd, st),
                        "convert_amount(account amount, target, now)")
            kinds["UpToDate"] = True
        else:
            chk.fail(R_OPS, "Ledger::balance|convert_amount outside a strategy arm", b.loc(bb),
                     "a conversion is not tied to one conversion strategy (guards: %s)" % (arm,))
    chk.require(set(kinds) == {"Historical", "UpToDate"}, R_OPS, "Ledger::balance|both strategies convert", b.loc(),
                "strategies with a conversion call: %s" % sorted(kinds), "one conversion per strategy")
    # no catch-all on the strategy / conversion switches
    bad = []
    for s in sorted(b.live_blocks()):
        ds = mir.describe_switch(b, s)
        if not ds or ds[0] != "variant":
            continue
        kind, subject, labels = ds
        if any("strategy" in r.fields or r.fields[-1:] == ("conversion",) for r in subject):
            t = b.term(s)
            ob = t["otherwise"]
            if ob in labels and len(labels[ob]) > 1:
                bad.append("%s shares one arm for %s" % (b.loc(s), labels[ob]))
    # the up-to-date result replaces the whole balance: account stream unfiltered (shared with C04's rule)
    chk.require(not bad, R_OPS, "Ledger::balance|strategy match arms", b.loc(), "; ".join(bad), "each strategy has its own arm")


def every_element(P, chk):
    b = P.body(PD + "::convert_amount")
    chk.analysed(b)
    loops = b.loops()
    cs = mir.call_sites(b, [PD + "::PriceRepository::convert_single"])
    adds = [bb for bb, t in b.calls() if callee_def(t) == "std::ops::AddAssign::add_assign"]
    ok = len(cs) == 1 and len(adds) == 1 and len(loops) >= 1
    detail = "expected one convert_single and one += inside a loop"
    if ok:
        h = [h for h, blks in loops.items() if cs[0][0] in blks]
        ok = bool(h)
        if ok:
            blks = loops[h[0]]
            # every back edge passes convert_single and the +=
            for (u, v) in b.back_edges():
                if v == h[0]:
                    for must in (cs[0][0], adds[0]):
                        if u in b.reach_from(v, without_blocks=(must,)) and u != v:
                            ok = False
                            detail = "an element can be skipped (an iteration continues without convert_single / +=)"
            # the converted value is what is added, into the returned accumulator
            t = b.term(adds[0])
            if not q.all_roots(b, t["args"][1], lambda r: r.kind == "call" and r.name == PD + "::PriceRepository::convert_single"):
                ok = False
                detail = "what is added is not the result of convert_single: %s" % mir.prov_strs(b, t["args"][1])
            # the element converted comes from the amount parameter
            elem = b.term(cs[0][0])["args"][1]
            sel = C09.selecting_adaptors(b, elem)
            # roots: next() of an iterator over amount.iter() (possibly collected and sorted)
    chk.require(ok, R_ALL, "convert_amount|every commodity converted and added", b.loc(), detail,
                "for v in amount: result += convert_single(v, target, date)?")
    # no selecting adaptor between amount.iter() and the loop
    bad = set()
    for bb, t in b.calls():
        m = (callee_def(t) or "")
        if m.startswith("std::iter::Iterator::") and m.rsplit("::", 1)[-1] in ("filter", "skip", "take", "step_by", "skip_while", "take_while", "filter_map", "find", "nth", "last"):
            bad.add(m.rsplit("::", 1)[-1])
    chk.require(not bad, R_ALL, "convert_amount|no selection on the commodity stream", b.loc(),
                "the commodities of the amount are filtered by %s" % sorted(bad), "no filter/skip/take")
    # args: (v, commodity_with, date) passed through
    if cs:
        t = cs[0][1]
        okp = q.all_roots(b, t["args"][2], lambda r: q.is_param(r, "commodity_with")) and \
            q.all_roots(b, t["args"][3], lambda r: q.is_param(r, "date"))
        chk.require(okp, R_OPS, "convert_amount|passes target and date through", b.loc(cs[0][0]),
                    "convert_single is not called with this call's target and date", "convert_single(v, commodity_with, date)")


def round_only_at_end(P, chk):
    b = P.body(Q + "::Ledger::balance")
    bodies = P.with_closures(b.key)
    loops = b.loops()
    bad = []
    rounds = 0
    for body in bodies:
        for bb, t in body.calls():
            c = callee(t) or ""
            if c.rsplit("::", 1)[-1] in ("round", "round_mut", "round_dp", "round_dp_with_strategy", "rescale", "trunc", "normalize"):
                if c == "okane_core::report::balance::Balance::round" and body is b and \
                        not any(bb in blks for blks in loops.values()):
                    rounds += 1
                    continue
                bad.append("%s at %s" % (c, body.loc(bb)))
    chk.require(not bad and rounds >= 1, R_ROUND, "Ledger::balance|rounding only by Balance::round after the loops", b.loc(),
                "amounts are rounded before they are summed: %s" % ", ".join(bad) if bad else "no final Balance::round",
                "%d Balance::round call(s), none inside a loop, no other rounding" % rounds)


def run(P, chk, tier):
    chk.rule(R_E9, "every Result of a conversion / query / command error type is propagated (?, returned, Err arm returns Err) or tabled")
    chk.rule(R_MAIN, "main: Err of cli.run reaches process::exit(non-zero) after writing to stderr")
    chk.rule(R_OPS, "each strategy converts the right amount at the right date into the query's target; no shared catch-all arm")
    chk.rule(R_ALL, "convert_amount converts and adds every commodity of the amount; no selection adaptor")
    chk.rule(R_ROUND, "inside Ledger::balance nothing is rounded before the final Balance::round")
    chk.rule(R_REC, "fast path only without range and without historical conversion (shared with C04)")
    chk.rule(R_CONV, "convert_single: identity on same commodity, value*rate on a found rate, RateNotFound otherwise (shared with C09)")
    conversion_operands(P, chk)
    every_element(P, chk)
    round_only_at_end(P, chk)
    C04.recompute_table(P, chk)
    C04.bypass_table(P, chk)
    C09.convert_single(P, chk)
    # account / posting streams unfiltered
    table = common.load_table("err_chain.toml")
    entries = {e["key"]: e for e in table.get("site", [])}
    mods = (PD, Q, "okane::cmd", "okane_core::report")
    bodies = [b for b in P.bodies.values() if q.not_test(b) and mir.body_module(b) in mods
              and "ImportCmd" not in (b.impl_self or "") and not b.key.startswith("okane::cmd::ImportCmd")]
    chk.analysed(*bodies)
    n = shared.error_chain(P, chk, bodies, R_E9, entries, set())
    chk.floor("Result-producing calls in query / price_db / cmd", n, 25)
    shared.main_exit(P, chk, R_MAIN)
