"""Obligations used by more than one property file."""
from analysis import mir, q, panics
from analysis.mir import norm, callee, callee_def, callee_names, prov

BK = "okane_core::report::book_keeping"
INTERN = "okane_core::report::intern::InternStore"


def try_from_syntax_table(P):
    """Exchange::try_from_syntax returns Ok only for a non-zero rate on a Single amount of a
    different commodity (so a ComputedPosting with an exchange never has a Zero amount)."""
    b = P.body(BK + "::Exchange::try_from_syntax")
    oks = [(bb, v, rv) for bb, v, rv in q.ok_err_assignments(b) if v == "Ok"]
    others = [(bb, v) for bb, v, rv in q.ok_err_assignments(b) if v not in ("Ok", "Err") and not v.startswith("call:<std::result::Result")]
    if not oks:
        return False, "no Ok return found"
    if others:
        return False, "return value written by something else than Ok/Err/?: %s" % others
    for bb, v, rv in oks:
        zero = single = diff = False
        for cn, lab, ct in q.guard_calls(b, bb):
            if cn == BK + "::Exchange::is_zero" and lab is False:
                zero = True
            if callee_def(ct) == "std::cmp::PartialEq::eq" and lab is False:
                names = " ".join(mir.prov_strs(b, ct["args"][0]) + mir.prov_strs(b, ct["args"][1]))
                if "commodity" in names:
                    diff = True
            if callee_def(ct) == "std::cmp::PartialEq::ne" and lab is True:
                names = " ".join(mir.prov_strs(b, ct["args"][0]) + mir.prov_strs(b, ct["args"][1]))
                if "commodity" in names:
                    diff = True
        for roots, labs in q.variant_guards(b, bb):
            if labs == ("Single",) and any(q.is_param(r, "posting_amount") for r in roots):
                single = True
        if not (zero and single and diff):
            miss = [n for n, x in (("rate non-zero", zero), ("amount is Single", single),
                                   ("commodities differ", diff)) if not x]
            return False, "an Ok return is not guarded by: " + ", ".join(miss)
    return True, "Ok only under !rate.is_zero(), PostingAmount::Single, different commodity"


def intern_impl_after_absent_lookup(P):
    """records.insert happens only in the two *_impl functions, and each call of those is
    reached only on the `None` outcome of a lookup of the same key."""
    impls = [INTERN + "::insert_canonical_impl", INTERN + "::insert_alias_impl"]
    n = 0
    for impl in impls:
        P.body(impl)
        callers = [c for c in q.callers_of(P, impl) if q.not_test(c[0])]
        if not callers:
            return False, "no caller of " + impl
        for b, bb, t in callers:
            n += 1
            val = t["args"][1]
            ok = False
            for a in mir.guards_at(b, bb):
                if a.kind != "variant" or a.label != ("None",):
                    continue
                for r in a.subject:
                    if r.kind == "call" and r.name in (INTERN + "::get", INTERN + "::resolve") and r.site is not None:
                        lk = b.term(r.site)
                        if panics.same_root_loose(b, lk["args"][1], val):
                            ok = True
            if not ok:
                return False, "%s calls %s without a preceding absent lookup of the same key" % (b.key, impl.rsplit("::", 1)[-1])
    # who may insert
    for b in P.bodies.values():
        if not q.not_test(b) or not b.key.startswith("okane_core::report::intern"):
            continue
        for bb, t in b.calls():
            if callee_def(t) == "std::collections::HashMap::insert" and b.key not in impls:
                return False, "records.insert outside the *_impl functions: " + b.key
    return True, "%d call(s) of the *_impl functions, each under a None lookup of the same key" % n
