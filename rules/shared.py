"""Obligations used by more than one property file."""
from analysis import mir, q, panics
from analysis.mir import norm, callee, callee_def, callee_names, prov

BK = "okane_core::report::book_keeping"
INTERN = "okane_core::report::intern::InternStore"


def try_from_syntax_table(P):
    """Exchange::try_from_syntax returns Ok only for a non-zero rate on a Single amount of a
    different commodity (so a ComputedPosting with an exchange never has a Zero amount)."""
    b = P.body(BK + "::Exchange::try_from_syntax")
    oks = [(bb, v, rv) for bb, v, rv in q.ok_err_assignments(b) if v == "Ok"]
    others = [(bb, v) for bb, v, rv in q.ok_err_assignments(b) if v not in ("Ok", "Err") and not v.startswith("call:<std::result::Result")]
    if not oks:
        return False, "no Ok return found"
    if others:
        return False, "return value written by something else than Ok/Err/?: %s" % others
    for bb, v, rv in oks:
        zero = single = diff = False
        for cn, lab, ct in q.guard_calls(b, bb):
            if cn == BK + "::Exchange::is_zero" and lab is False:
                zero = True
            if cn == "rust_decimal::Decimal::is_zero" and lab is False and ct["args"] and \
                    q.all_roots(b, ct["args"][0], lambda r: r.kind == "call" and r.fields[-1:] == ("value",)):
                zero = True     # the same test with Exchange::is_zero folded in: the evaluated rate's value
            if callee_def(ct) == "std::cmp::PartialEq::eq" and lab is False:
                names = " ".join(mir.prov_strs(b, ct["args"][0]) + mir.prov_strs(b, ct["args"][1]))
                if "commodity" in names:
                    diff = True
            if callee_def(ct) == "std::cmp::PartialEq::ne" and lab is True:
                names = " ".join(mir.prov_strs(b, ct["args"][0]) + mir.prov_strs(b, ct["args"][1]))
                if "commodity" in names:
                    diff = True
        for roots, labs in q.variant_guards(b, bb):
            if labs == ("Single",) and any(q.is_param(r, "posting_amount") for r in roots):
                single = True
        if not (zero and single and diff):
            miss = [n for n, x in (("rate non-zero", zero), ("amount is Single", single),
                                   ("commodities differ", diff)) if not x]
            return False, "an Ok return is not guarded by: " + ", ".join(miss)
    return True, "Ok only under !rate.is_zero(), PostingAmount::Single, different commodity"


LOOKUPS = (INTERN + "::get", INTERN + "::resolve", "std::collections::HashMap::get", "std::collections::HashMap::get_key_value")
ON_NONE = ("unwrap_or_else", "or_else", "ok_or_else", "map_or_else", "get_or_insert_with")


def _key_names(b, o):
    """names of the parameters / captured variables the operand is (a copy into the arena of)"""
    out = set()
    for r in prov(b, o):
        if r.kind == "call" and str(r.name).endswith("alloc_str") and r.site is not None:
            out |= _key_names(b, b.term(r.site)["args"][-1])
        elif r.kind == "param" and not r.fields:
            out.add(("param", r.name.split(":", 1)[-1]))
        elif r.kind == "capture" and not r.fields:
            out.add(("capture", r.name))
        else:
            out.add(("other", "%s:%s" % (r.kind, r.name)))
    return out


def _absent_guard(P, b, bb, key, depth=0):
    """the site (b, bb) is only reached when a lookup of `key` (an operand of b) found nothing; -> reason or None"""
    kn = _key_names(b, key)
    if not kn or any(k[0] == "other" for k in kn):
        return None
    names = set(k[1] for k in kn)

    def same_key(body, op):
        k2 = _key_names(body, op)
        return bool(k2) and all(x[0] != "other" for x in k2) and set(x[1] for x in k2) == names
    # 1. a None / false outcome of a lookup of the same key dominates the site
    for a in mir.guards_at(b, bb):
        if a.kind == "variant" and a.label == ("None",):
            for r in a.subject:
                if r.kind == "call" and r.name in LOOKUPS and r.site is not None and same_key(b, b.term(r.site)["args"][1]):
                    return "under the None outcome of %s(same key)" % r.name.rsplit("::", 1)[-1]
        if a.kind == "call" and a.label == (False,) and str(a.subject[0]).endswith("contains_key"):
            if same_key(b, b.term(a.subject[2])["args"][1]):
                return "under !contains_key(same key)"
    # 2. inside a closure that only runs on the None outcome of such a lookup
    if b.is_closure:
        par = (P.closure_parents(b) or [None])[0]
        if par is not None:
            for pbb, pt in par.calls():
                last = (callee(pt) or "").rsplit("::", 1)[-1].split("<")[0]
                if last not in ON_NONE or len(pt["args"]) < 2:
                    continue
                if not any(r.kind in ("agg", "closure") and str(r.name).replace("closure:", "") == b.key
                           for a in pt["args"][1:] for r in prov(par, a)):
                    continue
                for r in prov(par, pt["args"][0]):
                    if r.kind == "call" and r.name in LOOKUPS and r.site is not None and same_key(par, par.term(r.site)["args"][1]):
                        return "in the %s closure of %s(same key)" % (last, r.name.rsplit("::", 1)[-1])
        return None
    # 3. every caller passes the key and is itself guarded
    if depth >= 3 or not all(k[0] == "param" for k in kn) or len(names) != 1:
        return None
    pidx = None
    for i in range(1, b.argc + 1):
        if b.local_name(i) in names:
            pidx = i
    callers = [c for c in q.callers_of(P, b.key) if q.not_test(c[0])]
    if pidx is None or not callers or q.value_refs_of(P, b.key):
        return None
    why = []
    for cb, cbb, ct in callers:
        if len(ct["args"]) != b.argc:
            return None
        w = _absent_guard(P, cb, cbb, ct["args"][pidx - 1], depth + 1)
        if w is None:
            return None
        why.append(w)
    return "every caller: " + "; ".join(sorted(set(why)))


def intern_impl_after_absent_lookup(P):
    """every records.insert of the intern store is reached only when a lookup of the same key found nothing: in the
    inserting function itself, or at every call site of it (followed up the call graph through the key argument)."""
    n = 0
    for b in sorted(P.bodies.values(), key=lambda b: b.key):
        if not q.not_test(b) or not b.key.startswith(("okane_core::report::intern", "<okane_core::report::intern")):
            continue
        for bb, t in b.calls():
            if callee_def(t) != "std::collections::HashMap::insert":
                continue
            n += 1
            w = _absent_guard(P, b, bb, t["args"][1])
            if w is None:
                return False, "%s: records.insert without a preceding absent lookup of the same key (%s)" % (b.key, b.loc(bb))
    if n == 0:
        return False, "no records.insert found in report::intern"
    return True, "%d records.insert site(s), each reached only after an absent lookup of the same key" % n


# ---------------------------------------------------------------------------
# E9 helper: error-chain obligations over a set of bodies
# ---------------------------------------------------------------------------

def error_chain(P, chk, bodies, rule, table_entries, used, error_names=None, select=None):
    """every call producing Result<_, E> (E a tracked error type) in `bodies` is consumed by `?`,
    returned, or matched with an Err arm that returns Err; anything else must be tabled."""
    from analysis import errchain as E
    names = error_names or E.ERROR_TYPES
    rc = E.result_calls(P, bodies, names)
    n = 0
    seen = {}
    for b, bb, t, e in rc:
        if panics.term_external_expansion(t):
            continue
        if select and not select(b, bb, t, e):
            continue
        n += 1
        uses = E.consumption(P, b, bb)
        bad = [u for u in uses if u.kind not in E.GOOD]
        cs = panics.short_callee(callee(t) or "?")
        cs = {"TryFrom::try_from": "TryInto::try_into", "From::from": "Into::into"}.get(cs, cs)   # same conversion, written from the other side
        if not bad:
            base = "%s|%s|%s" % (b.key, cs, "+".join(sorted(set(u.kind for u in uses))))
            k = seen.get(base, 0) + 1
            seen[base] = k
            chk.ok(rule, base if k == 1 else "%s#%d" % (base, k), b.loc(bb), "error type " + e.rsplit("::", 1)[-1])
            continue
        for u in bad:
            base = "%s|%s|%s:%s" % (b.key, cs, u.kind, u.detail)
            k = seen.get(base, 0) + 1
            seen[base] = k
            key = base if k == 1 else "%s#%d" % (base, k)
            ent = table_entries.get(key)
            if ent is not None:
                used.add(key)
                chk.ok(rule, key, b.loc(u.bb), "table: " + ent["reason"])
            else:
                chk.fail(rule, key, b.loc(u.bb),
                         "the %s of %s is not propagated: %s" % (e.rsplit("::", 1)[-1], cs, u.detail))
    chk.add_sites(n)
    return n


def main_exit(P, chk, rule):
    """main: the Err arm of cli.run(..) writes to stderr and reaches exit(non-zero) on all paths"""
    b = P.body("okane::main")
    chk.analysed(b)
    runs = mir.call_sites(b, ["okane::cmd::Cli::run"])
    if len(runs) != 1:
        chk.anchor_missing("main: expected exactly one call of Cli::run, found %d" % len(runs))
        return
    bb, t = runs[0]
    sw = t["target"]
    ds = mir.describe_switch(b, sw)
    if not ds or ds[0] != "variant":
        chk.anchor_missing("main: result of Cli::run is not matched")
        return
    err_targets = [tb for tb, labs in ds[2].items() if "Err" in labs]
    key = "okane::main|Err-arm-exits-nonzero"
    if not err_targets or any("Ok" in ds[2][tb] for tb in err_targets):
        chk.fail(rule, key, b.loc(sw), "the Err arm of cli.run(..) is not separated from Ok")
        return
    exits = mir.call_sites(b, ["std::process::exit"])
    exit_blocks = [e[0] for e in exits]
    ok = bool(exits)
    detail = []
    for ebb, et in exits:
        c = et["args"][0].get("int")
        if c is None or c == 0:
            ok = False
            detail.append("exit code is not a non-zero constant")
    for tb in err_targets:
        reach = b.reach_from(tb, without_blocks=tuple(exit_blocks))
        if any(b.term(x)["k"] == "return" for x in reach):
            ok = False
            detail.append("a path from the Err arm returns from main without exit(..)")
        ep = q.blocks_calling(b, ["std::io::_eprint"])
        if not ep or not any(b.must_pass_block(e, x) for e in exit_blocks for x in ep):
            ok = False
            detail.append("no eprint on the way to exit")
    chk.require(ok, rule, key, b.loc(sw), "; ".join(detail) or "no exit", "Err -> eprint -> exit(1) on all paths")
