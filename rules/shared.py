"""Obligations used by more than one property file."""
from analysis import mir, q, panics
from analysis.mir import norm, callee, callee_def, callee_names, prov

BK = "okane_core::report::book_keeping"
INTERN = "okane_core::report::intern::InternStore"


def try_from_syntax_table(P):
    """Exchange::try_from_syntax returns Ok only for a non-zero rate on a Single amount of a
    different commodity (so a ComputedPosting with an exchange never has a Zero amount)."""
    b = P.body(BK + "::Exchange::try_from_syntax")
    oks = [(bb, v, rv) for bb, v, rv in q.ok_err_assignments(b) if v == "Ok"]
    others = [(bb, v) for bb, v, rv in q.ok_err_assignments(b) if v not in ("Ok", "Err") and not v.startswith("call:<std::result::Result")]
    if not oks:
        return False, "no Ok return found"
    if others:
        return False, "return value written by something else than Ok/Err/?: %s" % others
    for bb, v, rv in oks:
        zero = single = diff = False
        for cn, lab, ct in q.guard_calls(b, bb):
            if cn == BK + "::Exchange::is_zero" and lab is False:
                zero = True
            if callee_def(ct) == "std::cmp::PartialEq::eq" and lab is False:
                names = " ".join(mir.prov_strs(b, ct["args"][0]) + mir.prov_strs(b, ct["args"][1]))
                if "commodity" in names:
                    diff = True
            if callee_def(ct) == "std::cmp::PartialEq::ne" and lab is True:
                names = " ".join(mir.prov_strs(b, ct["args"][0]) + mir.prov_strs(b, ct["args"][1]))
                if "commodity" in names:
                    diff = True
        for roots, labs in q.variant_guards(b, bb):
            if labs == ("Single",) and any(q.is_param(r, "posting_amount") for r in roots):
                single = True
        if not (zero and single and diff):
            miss = [n for n, x in (("rate non-zero", zero), ("amount is Single", single),
                                   ("commodities differ", diff)) if not x]
            return False, "an Ok return is not guarded by: " + ", ".join(miss)
    return True, "Ok only under !rate.is_zero(), PostingAmount::Single, different commodity"


def intern_impl_after_absent_lookup(P):
    """records.insert happens only in the two *_impl functions, and each call of those is
    reached only on the `None` outcome of a lookup of the same key."""
    impls = [INTERN + "::insert_canonical_impl", INTERN + "::insert_alias_impl"]
    n = 0
    for impl in impls:
        P.body(impl)
        callers = [c for c in q.callers_of(P, impl) if q.not_test(c[0])]
        if not callers:
            return False, "no caller of " + impl
        for b, bb, t in callers:
            n += 1
            val = t["args"][1]
            ok = False
            for a in mir.guards_at(b, bb):
                if a.kind != "variant" or a.label != ("None",):
                    continue
                for r in a.subject:
                    if r.kind == "call" and r.name in (INTERN + "::get", INTERN + "::resolve") and r.site is not None:
                        lk = b.term(r.site)
                        if panics.same_root_loose(b, lk["args"][1], val):
                            ok = True
            if not ok:
                return False, "%s calls %s without a preceding absent lookup of the same key" % (b.key, impl.rsplit("::", 1)[-1])
    # who may insert
    for b in P.bodies.values():
        if not q.not_test(b) or not b.key.startswith("okane_core::report::intern"):
            continue
        for bb, t in b.calls():
            if callee_def(t) == "std::collections::HashMap::insert" and b.key not in impls:
                return False, "records.insert outside the *_impl functions: " + b.key
    return True, "%d call(s) of the *_impl functions, each under a None lookup of the same key" % n


# ---------------------------------------------------------------------------
# E9 helper: error-chain obligations over a set of bodies
# ---------------------------------------------------------------------------

def error_chain(P, chk, bodies, rule, table_entries, used, error_names=None, select=None):
    """every call producing Result<_, E> (E a tracked error type) in `bodies` is consumed by `?`,
    returned, or matched with an Err arm that returns Err; anything else must be tabled."""
    from analysis import errchain as E
    names = error_names or E.ERROR_TYPES
    rc = E.result_calls(P, bodies, names)
    n = 0
    seen = {}
    for b, bb, t, e in rc:
        if panics.term_external_expansion(t):
            continue
        if select and not select(b, bb, t, e):
            continue
        n += 1
        uses = E.consumption(P, b, bb)
        bad = [u for u in uses if u.kind not in E.GOOD]
        cs = panics.short_callee(callee(t) or "?")
        if not bad:
            base = "%s|%s|%s" % (b.key, cs, "+".join(sorted(set(u.kind for u in uses))))
            k = seen.get(base, 0) + 1
            seen[base] = k
            chk.ok(rule, base if k == 1 else "%s#%d" % (base, k), b.loc(bb), "error type " + e.rsplit("::", 1)[-1])
            continue
        for u in bad:
            base = "%s|%s|%s:%s" % (b.key, cs, u.kind, u.detail)
            k = seen.get(base, 0) + 1
            seen[base] = k
            key = base if k == 1 else "%s#%d" % (base, k)
            ent = table_entries.get(key)
            if ent is not None:
                used.add(key)
                chk.ok(rule, key, b.loc(u.bb), "table: " + ent["reason"])
            else:
                chk.fail(rule, key, b.loc(u.bb),
                         "the %s of %s is not propagated: %s" % (e.rsplit("::", 1)[-1], cs, u.detail))
    chk.add_sites(n)
    return n


def main_exit(P, chk, rule):
    """main: the Err arm of cli.run(..) writes to stderr and reaches exit(non-zero) on all paths"""
    b = P.body("okane::main")
    chk.analysed(b)
    runs = mir.call_sites(b, ["okane::cmd::Cli::run"])
    if len(runs) != 1:
        chk.anchor_missing("main: expected exactly one call of Cli::run, found %d" % len(runs))
        return
    bb, t = runs[0]
    sw = t["target"]
    ds = mir.describe_switch(b, sw)
    if not ds or ds[0] != "variant":
        chk.anchor_missing("main: result of Cli::run is not matched")
        return
    err_targets = [tb for tb, labs in ds[2].items() if "Err" in labs]
    key = "okane::main|Err-arm-exits-nonzero"
    if not err_targets or any("Ok" in ds[2][tb] for tb in err_targets):
        chk.fail(rule, key, b.loc(sw), "the Err arm of cli.run(..) is not separated from Ok")
        return
    exits = mir.call_sites(b, ["std::process::exit"])
    exit_blocks = [e[0] for e in exits]
    ok = bool(exits)
    detail = []
    for ebb, et in exits:
        c = et["args"][0].get("int")
        if c is None or c == 0:
            ok = False
            detail.append("exit code is not a non-zero constant")
    for tb in err_targets:
        reach = b.reach_from(tb, without_blocks=tuple(exit_blocks))
        if any(b.term(x)["k"] == "return" for x in reach):
            ok = False
            detail.append("a path from the Err arm returns from main without exit(..)")
        ep = q.blocks_calling(b, ["std::io::_eprint"])
        if not ep or not any(b.must_pass_block(e, x) for e in exit_blocks for x in ep):
            ok = False
            detail.append("no eprint on the way to exit")
    chk.require(ok, rule, key, b.loc(sw), "; ".join(detail) or "no exit", "Err -> eprint -> exit(1) on all paths")
