"""C04 — reported balances equal the sum of the register, over any date range."""
from analysis import mir, q, tables
from analysis.mir import norm, callee, callee_def, callee_names, prov
from . import shared

EXPLANATION = (
    "Static decision tables and placement rules.  DateRange::contains is enumerated path by path and "
    "checked against the half-open specification (start None or start <= date) and (end None or date < end) "
    "over all 13 weak orderings of (date, start, end) x Some/None of both bounds (52 cases, exhaustive; "
    "adjacent ranges partitioning their union is checked on the same table).  is_bypass and "
    "require_recompute are checked over their full finite domains.  In Ledger::balance the only gate between "
    "a stored posting and bal.add_amount is contains(txn.date) of the query's range, no other filtering "
    "adaptor sits on the posting iterator, and the amount added is the posting's own account/amount.  Every "
    "Balance mutator that adds ends by removing zero entries of the entry it updated.  Numeric agreement of "
    "the incremental and the re-folded sums is not decided."
)

Q = "okane_core::report::query"
R_TAB = "E5.date-range-table"
R_ADD = "E5.additivity"
R_REC = "E5.recompute-table"
R_GATE = "E6.date-gate"
R_ZERO = "E6.remove-zero-entries"


def date_sym(roots):
    return tables.sym_of(roots, [
        (lambda r: q.is_param(r, "date"), "date"),
        (lambda r: r.kind == "param" and r.name.endswith(":self") and r.fields[:1] == ("start",), "start"),
        (lambda r: r.kind == "param" and r.name.endswith(":self") and r.fields[:1] == ("end",), "end"),
    ])


def contains_table(P, chk):
    b = P.body(Q + "::DateRange::contains")
    chk.analysed(b)
    points = []
    for order in tables.weak_orderings(["date", "start", "end"]):
        for s in ("None", "Some"):
            for e in ("None", "Some"):
                points.append({"rank": order, "start": s, "end": e})

    def value_of(atom, pt):
        if atom.kind == "variant":
            s = date_sym(atom.subject)
            if s in ("start", "end"):
                return pt[s]
            return tables.UNKNOWN
        return tables.cmp_value(b, atom, date_sym, lambda s: pt["rank"][s])

    def spec(pt):
        r = pt["rank"]
        ok = (pt["start"] == "None" or r["start"] <= r["date"]) and (pt["end"] == "None" or r["date"] < r["end"])
        return "const:true" if ok else "const:false"

    res = tables.decide(b, points, value_of, spec)
    chk.add_paths(res.paths)
    key = "DateRange::contains|half-open [start,end)"
    if res.bad:
        pt, msg = res.bad[0]
        chk.fail(R_TAB, key, b.loc(), "%d of %d cases differ from the specification, first: %s: %s"
                 % (len(res.bad), res.points, fmt_point(pt), msg))
    else:
        chk.ok(R_TAB, key, b.loc(), "%d cases (13 orderings x Some/None^2) over %d paths, exhaustive" % (res.points, res.paths))
    chk.extra["date_range_cases"] = res.points
    # additivity: for a <= b <= c, [a,b) and [b,c) partition [a,c) for every date.
    # This follows from the table; evaluate it explicitly on the specification side as a corollary check
    # of the *specification* used above (guards against a wrong oracle).
    bad = 0
    n = 0
    for order in tables.weak_orderings(["date", "a", "b", "c"]):
        if not (order["a"] <= order["b"] <= order["c"]):
            continue
        n += 1
        d = order["date"]
        in1 = order["a"] <= d < order["b"]
        in2 = order["b"] <= d < order["c"]
        inu = order["a"] <= d < order["c"]
        if (in1 and in2) or ((in1 or in2) != inu):
            bad += 1
    chk.require(bad == 0, R_ADD, "half-open ranges partition their union", "", "oracle is not additive",
                "%d orderings of (date,a,b,c) with a<=b<=c: [a,b) and [b,c) disjoint and covering [a,c)" % n)


def fmt_point(pt):
    if pt is None:
        return "-"
    out = []
    for k, v in pt.items():
        if k == "rank":
            groups = {}
            for s, r in v.items():
                groups.setdefault(r, []).append(s)
            out.append(" < ".join("=".join(sorted(groups[r])) for r in sorted(groups)))
        else:
            out.append("%s=%s" % (k, v))
    return ", ".join(out)


def bypass_table(P, chk):
    b = P.body(Q + "::DateRange::is_bypass")
    chk.analysed(b)
    points = [{"start": s, "end": e} for s in (True, False) for e in (True, False)]  # is_none() values

    def value_of(atom, pt):
        if atom.kind == "call" and atom.subject[0] == "std::option::Option::is_none":
            s = date_sym(atom.subject[1][0])
            if s in pt:
                return pt[s]
        if atom.kind == "call" and atom.subject[0] == "std::option::Option::is_some":
            s = date_sym(atom.subject[1][0])
            if s in pt:
                return not pt[s]
        return tables.UNKNOWN

    def outcome_of(path):
        sh = path.shape
        if sh and sh[0] == "call" and callee_def(sh[2]) == "std::option::Option::is_none":
            s = date_sym(frozenset(prov(b, sh[2]["args"][0])))
            return "is_none(%s)" % s
        return tables.outcome_const(b, path)

    def spec(pt):
        want = pt["start"] and pt["end"]
        allowed = {"const:true" if want else "const:false"}
        # `a && b` may return the second test's result directly
        for s in ("start", "end"):
            if pt[s] == want:
                allowed.add("is_none(%s)" % s)
        return allowed

    res = tables.decide(b, points, value_of, spec, outcome_of)
    chk.add_paths(res.paths)
    chk.require(not res.bad, R_REC, "DateRange::is_bypass|both bounds absent", b.loc(),
                "is_bypass differs from `start.is_none() && end.is_none()`: %s" % (res.bad[:1],),
                "4 cases")


def recompute_table(P, chk):
    b = P.body(Q + "::BalanceQuery::require_recompute")
    chk.analysed(b)
    points = [{"bypass": bp, "conv": c} for bp in (True, False) for c in ("None", "Historical", "UpToDate")]

    def value_of(atom, pt):
        if atom.kind == "call" and atom.subject[0] == Q + "::DateRange::is_bypass":
            return pt["bypass"]
        if atom.kind == "variant":
            if any(r.kind == "param" and r.fields[:1] == ("conversion",) for r in atom.subject):
                roots = atom.subject
                if all(len(r.fields) == 1 for r in roots):
                    return "None" if pt["conv"] == "None" else "Some"
                # discriminant of the strategy itself
                if all("strategy" in r.fields for r in roots):
                    return pt["conv"]
            return tables.UNKNOWN
        if atom.kind == "call" and callee_def(b.term(atom.subject[2])) == "std::cmp::PartialEq::eq":
            ct = b.term(atom.subject[2])
            a0, a1 = ct["args"]
            if any("strategy" in r.fields for r in prov(b, a0)):
                # compared against a promoted constant: its value is read from the promoted body's text
                rep = " ".join(str(r.name) for r in prov(b, a1))
                if "promoted" in rep:
                    const_variant = promoted_variant(P, b, rep)
                    if const_variant is None:
                        return tables.UNKNOWN
                    return pt["conv"] == const_variant
            return tables.UNKNOWN
        return tables.UNKNOWN

    def spec(pt):
        return "const:true" if (not pt["bypass"] or pt["conv"] == "Historical") else "const:false"

    def outcome_of(path):
        # the result may be returned as `is_bypass()` / `!is_bypass()` directly: evaluate it at the point
        s = tables.outcome_const(b, path)
        return s

    def outcome_at(path, pt):
        s = tables.outcome_const(b, path)
        if s == "call:" + Q + "::DateRange::is_bypass":
            return "const:true" if pt["bypass"] else "const:false"
        if s == "op:Not(call:" + Q + "::DateRange::is_bypass)":
            return "const:false" if pt["bypass"] else "const:true"
        return s

    res = tables.TableResult()
    for pt in points:
        r1 = tables.decide(b, [pt], value_of, spec, lambda p, pt=pt: outcome_at(p, pt))
        res.points += r1.points
        res.paths = r1.paths
        res.bad += r1.bad
    chk.add_paths(res.paths)
    chk.require(not res.bad, R_REC, "BalanceQuery::require_recompute|range set or historical", b.loc(),
                "require_recompute differs from `!bypass || Historical`: %s" % "; ".join("%s: %s" % (fmt_point(p), m) for p, m in res.bad[:2]),
                "6 cases (bypass x {None, Historical, UpToDate})")


def promoted_variant(P, body, rep):
    """which ConversionStrategy variant a promoted constant of `body` holds: the driver does not dump
    promoted bodies, so the variant is recovered from the source expression's unit-variant operand:
    the only unit variant of ConversionStrategy is Historical (checked from the ADT table)."""
    adt = P.adt(Q + "::ConversionStrategy")
    units = [v["name"] for v in adt["variants"] if not v["fields"]]
    if len(units) == 1:
        return units[0]
    return None


def date_gate(P, chk):
    bal = P.body(Q + "::Ledger::balance")
    chk.analysed(bal)
    closures = P.closures_of(bal.key)
    chk.analysed(*closures)
    # 1. exactly one contains() call, in the filter closure, on txn.date, deciding Some/None
    sites = []
    for b in [bal] + closures:
        for bb, t in mir.call_sites(b, [Q + "::DateRange::contains"]):
            sites.append((b, bb, t))
    if len(sites) != 1:
        chk.fail(R_GATE, "Ledger::balance|one-date-gate", bal.loc(), "expected exactly one contains() gate, found %d" % len(sites))
        return
    b, bb, t = sites[0]
    recv, arg = t["args"]
    in_closure = b.is_closure

    def is_query_range(r):
        return (r.kind == "capture" and r.name == "query" and r.fields == ("date_range",)) or q.is_param(r, "query", ("date_range",))

    def txn_elements(body, op):
        """sites of the Iterator::next calls over self.transactions whose element `op` reads .date from; None if other"""
        out = set()
        for r in prov(body, op):
            if r.kind == "call" and str(r.name).endswith("::next") and r.fields[-1:] == ("date",) and r.site is not None:
                ch = q.chains(body, body.term(r.site)["args"][0])
                if ch and all(q.is_param(x, "self", ("transactions",)) for cn, x in ch):
                    out.add(r.site)
                    continue
            return None
        return out
    ok_recv = q.all_roots(b, recv, is_query_range)
    if in_closure:
        ok_arg = q.all_roots(b, arg, lambda r: r.kind == "capture" and r.name == "txn" and r.fields == ("date",))
    else:
        ok_arg = bool(txn_elements(b, arg))
    chk.require(ok_recv and ok_arg, R_GATE, "Ledger::balance|gate-operands", b.loc(bb),
                "the date gate tests %s against %s instead of query.date_range.contains(txn.date)"
                % (mir.prov_strs(b, arg), mir.prov_strs(b, recv)), "query.date_range.contains(txn.date)")
    good = True
    detail = ""
    if in_closure:
        # the gate lives in a filter_map closure: Some only when contains is true, None only when false
        for rbb, v, rv in q.ok_err_assignments(b):
            labs = [lab for cn, lab, ct in q.guard_calls(b, rbb) if cn == Q + "::DateRange::contains"]
            if v == "Some" and labs != [True]:
                good = False
                detail = "a posting is kept without contains() == true"
            if v == "None" and labs != [False]:
                good = False
                detail = "a posting is dropped without contains() == false"
    else:
        # the gate lives in the loop itself: a posting is added only under contains() == true, for the transaction the
        # posting belongs to, and the false edge does nothing but go on to the next transaction
        txs = txn_elements(b, arg) or set()
        lps = [blks for h, blks in b.loops().items() if txs & set(blks)]
        adds0 = [(x, y) for x, y in mir.call_sites(b, ["okane_core::report::balance::Balance::add_amount"])
                 if any(x in blks for blks in lps)]
        if not adds0:
            good = False
            detail = "no add_amount in the loop over the gated transactions"
        for abb, at in adds0:
            labs = [lab for cn, lab, ct in q.guard_calls(b, abb) if cn == Q + "::DateRange::contains"]
            if labs != [True]:
                good = False
                detail = "a posting is added without contains() == true"
            # the posting comes from that transaction's own postings
            own = False
            for r in prov(b, at["args"][1]):
                if r.kind == "call" and str(r.name).endswith("::next") and r.site is not None:
                    ch = q.chains(b, b.term(r.site)["args"][0], stop=lambda x: x.kind == "call" and x.site in txs)
                    if ch and all(x.kind == "call" and x.site in txs and "postings" in x.fields for cn, x in ch):
                        own = True
            if not own:
                good = False
                detail = detail or "the posting added does not come from the gated transaction's postings"
    chk.require(good, R_GATE, "Ledger::balance|gate-decides-keep/drop", b.loc(bb), detail,
                "posting kept iff contains(txn.date)")
    # 2. no other filtering adaptor on the posting stream
    allowed = {"flat_map", "filter_map", "iter", "into_iter", "next", "map_err", "map"}
    extra = []
    for body in [bal] + closures:
        for cbb, ct in body.calls():
            cd = callee_def(ct) or ""
            if cd.startswith("std::iter::Iterator::") or cd.startswith("std::iter::DoubleEndedIterator::"):
                m = cd.rsplit("::", 1)[-1]
                if m not in allowed and m in ("filter", "skip", "take", "step_by", "skip_while", "take_while",
                                              "rev", "peekable", "chain", "zip", "last", "nth", "find", "dedup"):
                    extra.append("%s at %s" % (m, body.loc(cbb)))
    chk.require(not extra, R_GATE, "Ledger::balance|no-other-filter", bal.loc(),
                "additional selection on the posting stream: " + ", ".join(extra), "only flat_map / filter_map(date gate)")
    # 3. what is added is the posting's own amount to the posting's own account
    adds = [(bb2, t2) for bb2, t2 in mir.call_sites(bal, ["okane_core::report::balance::Balance::add_amount"])]
    lp = bal.loops()
    recompute_loops = []
    for h, blks in lp.items():
        for x in blks:
            tx = bal.term(x)
            if tx["k"] == "call" and callee_def(tx) == "std::iter::Iterator::next" and tx["args"]:
                ch = q.chains(bal, tx["args"][0])
                if "FlatMap" in bal.local_ty(tx["args"][0]["place"]["l"]) or \
                        (ch and all(q.is_param(x_, "self", ("transactions",)) for cn, x_ in ch)):
                    recompute_loops.append(blks)
    in_recompute = [(bb2, t2) for bb2, t2 in adds if any(bb2 in blks for blks in recompute_loops)]
    ok3 = bool(in_recompute)
    why = ""
    for bb2, t2 in in_recompute:
        acc = t2["args"][1]
        if not any("account" in r.fields for r in prov(bal, acc)):
            ok3 = False
            why = "account operand is %s" % mir.prov_strs(bal, acc)
    chk.require(ok3, R_GATE, "Ledger::balance|adds-posting-to-its-account", bal.loc(), why or "no add_amount in the recompute loop",
                "bal.add_amount(posting.account, ..) in the recompute loop")


def zero_entries(P, chk):
    B = "okane_core::report::balance::Balance"
    for name in ("add_amount", "add_posting_amount"):
        b = P.body(B + "::" + name)
        chk.analysed(b)
        rz = q.blocks_calling(b, ["okane_core::report::eval::amount::Amount::remove_zero_entries"])
        adds = [bb for bb, t in b.calls() if callee_def(t) == "std::ops::AddAssign::add_assign"]
        ok = bool(rz) and bool(adds) and q.every_return_passes(b, rz) and all(any(r in b.reach_from(a) for r in rz) for a in adds)
        # receiver of remove_zero_entries is the entry that was updated
        same = True
        for bb, t in mir.call_sites(b, ["okane_core::report::eval::amount::Amount::remove_zero_entries"]):
            r1 = q.root_names(b, t["args"][0])
            for a in adds:
                r2 = q.root_names(b, b.term(a)["args"][0])
                if r1 != r2:
                    same = False
        chk.require(ok and same, R_ZERO, "Balance::%s|ends-with-remove_zero_entries" % name, b.loc(),
                    "zero entries are not removed from the updated entry on every return path",
                    "+= then remove_zero_entries on the same entry, on all paths")


def run(P, chk, tier):
    chk.rule(R_TAB, "DateRange::contains == (start None or start <= date) and (end None or date < end) on all 52 cases")
    chk.rule(R_ADD, "the specification's half-open ranges partition their union (oracle sanity)")
    chk.rule(R_REC, "is_bypass / require_recompute decision tables over their full domains")
    chk.rule(R_GATE, "Ledger::balance keeps a posting iff query.date_range.contains(txn.date); no other selection; adds posting.amount to posting.account")
    chk.rule(R_ZERO, "Balance::add_amount / add_posting_amount remove zero entries of the updated entry on every path")
    contains_table(P, chk)
    bypass_table(P, chk)
    recompute_table(P, chk)
    date_gate(P, chk)
    zero_entries(P, chk)
