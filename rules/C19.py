"""C19 — formatted postings are laid out in aligned columns (narrow claim, DESIGN.md §4 C19)."""
from analysis import mir, q
from analysis.mir import norm, callee, callee_def, callee_names, prov

EXPLANATION = (
    "Narrow static claim on the two clauses whose truth is in the shape of the code.  (1) Display width: in the "
    "posting printer the `left` operand of both get_column calls is a pure sum whose terms are a unicode-width "
    "measurement (UnicodeWidthStr::width / width_cjk: East-Asian wide = 2 columns) of the posting's account, the "
    "width of the clear mark, and - for a posting with an amount - Alignment::absolute of the amount just "
    "rendered; the balance-only column is const + (unicode width of the rendered assertion - its alignment), both "
    "taken from the same rendering.  A byte or char count of the account / rendered assertion is a violation.  "
    "(2) Minimum separation: every width handed to the formatter comes from get_column (or is the constant 0 "
    "when an amount precedes the assertion); get_column returns either its `padding` argument, or colsize-left "
    "only under a comparison left+padding < (or <=) colsize, or max(padding, colsize.saturating_sub(left)); and the "
    "constant padding of each call leaves at least two spaces given the right-aligned literal it pads.  That the "
    "number ends at column 52, the indent literal and entry separation are not decided (format-string arithmetic "
    "over runtime widths)."
)

D = "okane_core::syntax::display"
PFMT = "<okane_core::syntax::display::WithContext<okane_core::syntax::Posting<Deco>> as std::fmt::Display>::fmt"
GC = D + "::get_column"
R_WIDTH = "E7.display-width"
R_PAD = "E5.minimum-padding"

UW = ("unicode_width::UnicodeWidthStr::width", "unicode_width::UnicodeWidthStr::width_cjk")
COUNTS = ("len", "count", "chars", "bytes", "char_indices", "encode_utf16")


def short(n):
    return (n or "?").rsplit("::", 1)[-1]


def is_uw(t):
    return t[0] == "call" and (t[1] in UW or any(t[1].endswith(s) for s in
                                                 ("UnicodeWidthStr>::width", "UnicodeWidthStr>::width_cjk")))


def call_tree_names(t, acc=None):
    acc = acc if acc is not None else []
    if t[0] == "call":
        acc.append(t[1])
        for a in t[3]:
            call_tree_names(a, acc)
    elif t[0] in ("add", "sub", "mul"):
        call_tree_names(t[1], acc)
        call_tree_names(t[2], acc)
    elif t[0] == "phi":
        for a in t[1]:
            call_tree_names(a, acc)
    elif t[0] == "try":
        call_tree_names(t[1], acc)
    return acc


def places_in(t, acc=None):
    acc = acc if acc is not None else []
    if t[0] == "place":
        acc.extend(t[1])
    elif t[0] == "call":
        for a in t[3]:
            places_in(a, acc)
    elif t[0] in ("add", "sub", "mul"):
        places_in(t[1], acc)
        places_in(t[2], acc)
    elif t[0] == "phi":
        for a in t[1]:
            places_in(a, acc)
    elif t[0] == "try":
        places_in(t[1], acc)
    return acc


def classify_left_leaf(leaf):
    """-> 'account' | 'mark' | 'alignment' | ('bad', why)"""
    if leaf[0] != "call":
        return ("bad", "term %s is not a measurement" % q.arith_str(leaf))
    name = leaf[1]
    pl = " ".join(places_in(leaf))
    inner = call_tree_names(leaf)
    if is_uw(leaf):
        if any(n.endswith("::print_clear_state") for n in inner):
            return "mark"
        if ".account" in pl and not any(short(n) in COUNTS for n in inner[1:]):
            return "account"
        return ("bad", "unicode width of something else: %s" % q.arith_str(leaf))
    if name.endswith("::Alignment::absolute"):
        if any("fmt_with_alignment" in n for n in inner):
            return "alignment"
        return ("bad", "alignment not taken from fmt_with_alignment")
    if short(name) in COUNTS and any(n.endswith("::print_clear_state") for n in inner):
        return "mark"   # the marks are ASCII literals: a byte count equals their width
    if ".account" in pl:
        return ("bad", "account measured with %s (bytes / chars, not display columns)" % short(name))
    return ("bad", "unrecognised term %s" % q.arith_str(leaf))


def width_rules(P, chk, b, gcs):
    for bb, t, branch in gcs:
        left = q.arith(b, t["args"][1])
        leaves = q.arith_leaves(left)
        kinds = []
        bad = []
        for path, leaf in leaves:
            if any(not p.startswith("add") for p in path):
                bad.append("term %s enters through %s" % (q.arith_str(leaf), path))
            c = classify_left_leaf(leaf)
            if isinstance(c, tuple):
                bad.append(c[1])
            else:
                kinds.append(c)
        want = ["account", "alignment", "mark"] if branch == "amount" else ["account", "mark"]
        ok = not bad and sorted(kinds) == want
        chk.require(ok, R_WIDTH, "Posting::fmt|%s branch|left = display width of mark + account%s"
                    % (branch, " + alignment" if branch == "amount" else ""), b.loc(bb),
                    "; ".join(bad) or "terms are %s, expected %s (%s)" % (sorted(kinds), want, q.arith_str(left)),
                    q.arith_str(left))
        if branch == "balance":
            col = q.arith(b, t["args"][0])
            ok = col[0] == "add" and any(x[0] == "const" for x in col[1:3])
            detail = q.arith_str(col)
            if ok:
                tr = [x for x in col[1:3] if x[0] != "const"][0]
                ok = tr[0] == "sub" and is_uw(tr[1]) and tr[2][0] == "call" and tr[2][1].endswith("::Alignment::absolute")
                if ok:
                    # both from the same rendering: the width is taken of the String that the
                    # fmt_with_alignment call (whose result is the alignment) wrote into
                    ok = same_rendering(b, tr[1], tr[2])
                    if not ok:
                        detail = "width and alignment are not taken from the same rendered string: " + detail
                elif tr[0] == "sub" and tr[1][0] == "call" and short(tr[1][1]) in COUNTS:
                    detail = "rendered assertion measured with %s (bytes / chars): %s" % (short(tr[1][1]), detail)
            chk.require(ok, R_WIDTH, "Posting::fmt|balance branch|column = const + (display width of rendered assertion - alignment)",
                        b.loc(bb), detail, detail)


def same_rendering(b, wtree, atree):
    """wtree = width(<str of local S>), atree = absolute(fmt_with_alignment(ctx, &mut S)?)"""
    wsite = wtree[2]
    wt = b.term(wsite)
    wl = set()
    for r in prov(b, wt["args"][0]):
        if r.kind == "call" and r.site is not None:
            wl.add(b.term(r.site)["dest"]["l"])
    fsites = []

    def find(t):
        if t[0] == "call":
            if "fmt_with_alignment" in t[1]:
                fsites.append(t[2])
            for a in t[3]:
                find(a)
        elif t[0] == "try":
            find(t[1])
    find(atree)
    if len(fsites) != 1:
        return False
    ft = b.term(fsites[0])
    fl = set()
    for r in prov(b, ft["args"][1]):
        if r.kind == "call" and r.site is not None:
            fl.add(b.term(r.site)["dest"]["l"])
    return bool(wl) and wl == fl


def get_column_rule(P, chk):
    g = P.body(GC)
    chk.analysed(g)
    names = [g.local_name(i) for i in range(1, g.argc + 1)]
    if names != ["colsize", "left", "padding"]:
        chk.anchor_missing("get_column: parameters are %s, expected (colsize, left, padding)" % names)
        return
    P_, L_, C_ = ("param", "padding"), ("param", "left"), ("param", "colsize")
    n_shift = 0
    bad = []
    assigns = []
    for bb, v, rv in q.ok_err_assignments(g):
        assigns.append((bb, v, rv))
    for bb, v, rv in assigns:
        if v.startswith("call:"):
            t = rv
            tree = ("call", callee(t), bb, [q.arith(g, a) for a in t["args"]])
        elif v == "other" and rv["k"] == "use":
            tree = q.arith(g, rv["op"])
        else:
            bad.append("return value built by %s" % v)
            continue
        if tree == P_:
            continue
        if tree == ("sub", C_, L_) or (tree[0] == "call" and short(tree[1]) in ("saturating_sub", "wrapping_sub") and tree[3] == [C_, L_]):
            n_shift += 1
            if not fits_guard(g, bb):
                bad.append("colsize - left is returned without left + padding < colsize being established (could leave fewer than `padding` spaces)")
            continue
        if tree[0] == "call" and short(tree[1]) == "max" and len(tree[3]) == 2:
            a0, a1 = tree[3]
            sat = [x for x in (a0, a1) if x[0] == "call" and short(x[1]) == "saturating_sub" and x[3] == [C_, L_]]
            if sat and P_ in (a0, a1):
                n_shift += 1
                continue
        bad.append("unrecognised result %s" % q.arith_str(tree))
    ok = not bad and n_shift >= 1
    chk.require(ok, R_PAD, "get_column|returns padding, or colsize-left only when left+padding fits", g.loc(),
                "; ".join(bad) or "never returns colsize - left", "if left + padding < colsize { colsize - left } else { padding }")


def fits_guard(g, bb):
    P_, L_, C_ = ("param", "padding"), ("param", "left"), ("param", "colsize")
    for rel, lo, ro in q.rel_in_force(g, bb):
        lt, rt = q.arith(g, lo), q.arith(g, ro)
        forms = [(rel, lt, rt)]
        flip = {"Lt": "Gt", "Le": "Ge", "Gt": "Lt", "Ge": "Le"}
        if rel in flip:
            forms.append((flip[rel], rt, lt))
        for r, a, c in forms:
            if r in ("Lt", "Le"):
                if a in (("add", L_, P_), ("add", P_, L_)) and c == C_:
                    return True
                if a == L_ and c == ("sub", C_, P_):
                    return True
                if a == P_ and c == ("sub", C_, L_):
                    return True
    return False


def literal_of_write(b, usize_site):
    """the promoted str literal displayed by the same format_args! as the from_usize at usize_site"""
    # the Argument array holding this from_usize result
    dest = b.term(usize_site)["dest"]["l"]
    for i, blk in enumerate(b.blocks):
        for st in blk["stmts"]:
            if st["k"] == "assign" and st["rv"]["k"] == "aggregate" and st["rv"].get("agg") == "array":
                ops = [f["op"] for f in st["rv"]["fields"]]
                if any(o.get("k") in ("copy", "move") and o["place"]["l"] == dest for o in ops):
                    lits = []
                    for o in ops:
                        if o.get("k") not in ("copy", "move"):
                            continue
                        for dk, dbb, di, dpl, payload in b.defs().get(o["place"]["l"], []):
                            if dk == "call" and short(callee_def(payload)) == "new_display":
                                from .C20 import const_promoted
                                for r in prov(b, payload["args"][0]):
                                    pass
                                lits += promoted_strs(b, payload["args"][0])
                    return lits
    return None


def promoted_strs(b, operand, depth=0, seen=None):
    seen = seen if seen is not None else set()
    out = []
    if depth > 10:
        return out
    if operand.get("k") == "const":
        for p in operand.get("promoted") or []:
            out.append(p)
        return out
    if operand.get("k") in ("copy", "move"):
        pl = operand["place"]
        key = (pl["l"], tuple(mir.proj_fields(pl)))
        if key in seen:
            return out
        seen.add(key)
        fields = mir.proj_fields(pl)
        for dk, dbb, di, dpl, payload in b.defs().get(pl["l"], []):
            if dk != "assign":
                continue
            rv = payload
            if rv["k"] in ("use", "cast"):
                out += promoted_strs(b, rv["op"], depth + 1, seen)
            elif rv["k"] in ("ref", "copyforderef"):
                out += promoted_strs(b, {"k": "copy", "place": rv["place"]}, depth + 1, seen)
            elif rv["k"] == "aggregate" and fields:
                for f in rv["fields"]:
                    if f["name"] == fields[0]:
                        out += promoted_strs(b, f["op"], depth + 1, seen)
    return out


def run(P, chk, tier):
    chk.rule(R_WIDTH, "column arithmetic measures the account and the rendered assertion in display columns (wide = 2), never bytes / chars")
    chk.rule(R_PAD, "every padding width comes from get_column, which never returns less than its minimum; the minimum leaves two spaces")
    b = P.body(PFMT)
    chk.analysed(b)
    calls = [(bb, t) for bb, t in b.calls() if GC in callee_names(t)]
    chk.add_sites(len(calls))
    chk.floor("get_column call sites in the posting printer", len(calls), 2)
    gcs = []
    for bb, t in calls:
        branch = None
        for roots, labs in q.variant_guards(b, bb):
            if labs == ("Some",) and any(r.fields[-1:] == ("amount",) and "value" in r.fields for r in roots):
                branch = "amount"
        if branch is None:
            for cn, lab, ct in q.guard_calls(b, bb):
                if cn == "std::option::Option::is_some" and lab is False and ".amount" in " ".join(mir.prov_strs(b, ct["args"][0])):
                    branch = "balance"
                if cn == "std::option::Option::is_none" and lab is True and ".amount" in " ".join(mir.prov_strs(b, ct["args"][0])):
                    branch = "balance"
            for roots, labs in q.variant_guards(b, bb):
                if labs == ("None",) and any(r.fields[-1:] == ("amount",) and "value" in r.fields for r in roots):
                    branch = "balance"
        if branch is None:
            chk.fail(R_PAD, "Posting::fmt|get_column call in an unrecognised branch", b.loc(bb), "cannot tell whether the posting has an amount here")
            continue
        gcs.append((bb, t, branch))
    have = sorted(x[2] for x in gcs)
    chk.require(have == ["amount", "balance"], R_PAD, "Posting::fmt|one get_column per layout branch", b.loc(),
                "get_column is used on branches %s" % have, "amount branch and balance-only branch")
    width_rules(P, chk, b, gcs)
    get_column_rule(P, chk)
    # every formatter width in the posting printer
    fus = [(bb, t) for bb, t in b.calls() if short(callee_def(t)) == "from_usize" and "fmt::rt::Argument" in (callee_def(t) or "")]
    chk.add_sites(len(fus))
    chk.floor("formatter width arguments in the posting printer", len(fus), 2)
    gsites = {bb: (t, br) for bb, t, br in gcs}
    for n, (bb, t) in enumerate(fus):
        rs = prov(b, t["args"][0])
        srcs = []
        ok = bool(rs)
        for r in rs:
            if r.kind == "call" and r.site in gsites:
                srcs.append(gsites[r.site])
            elif r.kind == "const" and r.name.startswith("0_"):
                # zero padding: only when an amount (with its own padding) precedes
                zb = [dbb for dk, dbb, di, dpl, payload in b.defs().get(first_local(b, t["args"][0]), [])
                      if dk == "assign" and payload["k"] == "use" and payload["op"].get("int") == 0]
                for z in zb:
                    g = [(cn, lab) for cn, lab, ct in q.guard_calls(b, z) if cn in ("std::option::Option::is_some", "std::option::Option::is_none")
                         and ".amount" in " ".join(mir.prov_strs(b, ct["args"][0]))]
                    if not any((cn.endswith("is_some") and lab is True) or (cn.endswith("is_none") and lab is False) for cn, lab in g):
                        ok = False
            else:
                ok = False
        key = "Posting::fmt|width #%d comes from get_column" % (n + 1)
        chk.require(ok and bool(srcs), R_PAD, key, b.loc(bb), "formatter width is %s" % sorted(mir.show_root(r) for r in rs),
                    "get_column(..)%s" % (" or 0 after an amount" if len(rs) > 1 else ""))
        lits = literal_of_write(b, bb) or []
        lits = [l for l in lits if l.startswith('"')]
        for gt, br in srcs:
            p = gt["args"][2].get("int")
            if p is None or len(lits) != 1:
                chk.fail(R_PAD, "Posting::fmt|%s branch|minimum padding constant" % br, b.loc(bb),
                         "padding argument / padded literal not constant (padding=%s, literals=%s)" % (p, lits))
                continue
            lit = lits[0][1:-1]
            spaces = p - len(lit) + (len(lit) - len(lit.lstrip(" ")))
            chk.require(spaces >= 2, R_PAD, "Posting::fmt|%s branch|at least two spaces after the account" % br, b.loc(bb),
                        "minimum padding %d around the right-aligned literal %r leaves %d space(s)" % (p, lit, spaces),
                        "padding %d, literal %r -> %d spaces" % (p, lit, spaces))


def first_local(b, operand):
    """the user local a `&x` operand ultimately borrows"""
    o = operand
    for _ in range(8):
        if o.get("k") not in ("copy", "move"):
            return None
        l = o["place"]["l"]
        if b.local_name(l):
            return l
        d = mir.single_def(b, l)
        if d is None or d[0] != "assign":
            return l
        rv = d[4]
        if rv["k"] in ("ref", "copyforderef"):
            o = {"k": "copy", "place": rv["place"]}
        elif rv["k"] == "use":
            o = rv["op"]
        else:
            return l
    return None
