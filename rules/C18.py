"""C18 — Camt053 import conserves the statement (partial: the finite tables and placements)."""
from analysis import mir, q
from analysis.mir import norm, callee, callee_def, callee_names, prov
from . import importers

EXPLANATION = (
    "Static decision / placement rules over the ISO Camt053 importer.  Sign: Amount::to_data is +value for Credit and "
    "-value for Debit, and every call of it signs an amount with the credit/debit indicator of the *same* statement "
    "object (entry, detail, balance, charge record); charges are negated once more and zero charges skipped.  Records: "
    "an entry without details is booked itself, every detail of a batched entry is booked, nothing filters the entry / "
    "detail streams (shared with C15).  Dates: transactions are dated by value_date.unwrap_or(booking_date) of the entry "
    "with the entry's booking date as effective date.  Balances: the opening balance is asserted on an initial "
    "zero-amount transaction pushed before the statement's entries, the closing balance on the last pushed transaction "
    "after the entry loop.  Row order: entries are walked forwards for old_to_new and through rev() for new_to_old.  "
    "Conservation itself (sums, acceptance by the book-keeping) is numerical and not decided."
)

M = "okane::import::iso_camt053"
IMPORT = M + "::import"
TO_DATA = M + "::to_data"
SE = "okane::import::single_entry"

R_SIGN = "E5.credit-debit-sign"
R_DATE = "E7.dates"
R_BAL = "E6.opening-closing-balance"
R_ORDER = "E6.row-order"
R_CHG = "E5.charges"


def short(n):
    return (n or "?").rsplit("::", 1)[-1]


def sign_rules(P, chk):
    b = P.body(TO_DATA)
    chk.analysed(b)
    aggs = [a for a in q.aggregates_of(P, "okane::import::amount::OwnedAmount") if a[0].key == TO_DATA]
    ok = len(aggs) == 1
    detail = "expected one OwnedAmount literal in to_data"
    if ok:
        f = {x["name"]: x["op"] for x in aggs[0][3]["fields"]}
        vl = f["value"]["place"]["l"] if f["value"].get("k") in ("copy", "move") else None
        # `let signed = match ..; OwnedAmount { value: signed, .. }`: go back through plain copies to the match temporary
        for _ in range(6):
            ds_ = [d for d in b.defs().get(vl, []) if not d[3]["p"]] if vl is not None else []
            if len(ds_) == 1 and ds_[0][0] == "assign" and ds_[0][4]["k"] == "use" and \
                    ds_[0][4]["op"].get("k") in ("copy", "move") and not ds_[0][4]["op"]["place"]["p"] and \
                    not (1 <= ds_[0][4]["op"]["place"]["l"] <= b.argc):
                vl = ds_[0][4]["op"]["place"]["l"]
            else:
                break
        table = {}
        for dk, dbb, di, dpl, pl in b.defs().get(vl, []) if vl is not None else []:
            lab = None
            for roots, labs in q.variant_guards(b, dbb):
                if any(q.is_param(r, "credit_or_debit") for r in roots):
                    lab = labs
            if dk == "assign" and pl["k"] == "use":
                rs = prov(b, pl["op"])
                neg = set(sum(1 for v in r.via if v == "neg") % 2 for r in rs)
                src = all(q.is_param(r, "self", ("value",)) for r in rs)
                table[lab] = (neg, src)
            elif dk == "call" and callee_def(pl) == "std::ops::Neg::neg":
                rs = prov(b, pl["args"][0])
                src = all(q.is_param(r, "self", ("value",)) for r in rs)
                table[lab] = ({1}, src)
        ok = table.get(("Credit",)) == ({0}, True) and table.get(("Debit",)) == ({1}, True)
        detail = "value by indicator: %s" % {str(k): v for k, v in table.items()}
        if not ok:
            # the same table read off the enumerated paths (covers `let neg = matches!(cd, Debit); if neg { -v } else { v }`)
            t2 = {}
            try:
                paths = mir.enumerate_paths(b, limit=2000)
            except mir.TooManyPaths:
                paths = []
            for p in paths:
                lab = None
                for a in p.atoms:
                    if a.kind == "variant" and len(a.label) == 1 and any(q.is_param(r, "credit_or_debit") for r in a.subject):
                        lab = a.label[0]
                pb = mir.path_body(b, p.blocks)
                ag = [x for i_ in pb.live_blocks() for x in pb.blocks[i_]["stmts"]
                      if x["k"] == "assign" and x["rv"]["k"] == "aggregate" and norm(x["rv"].get("adt") or "") == "okane::import::amount::OwnedAmount"]
                if len(ag) != 1 or lab is None:
                    t2 = None
                    break
                fv = {x["name"]: x["op"] for x in ag[0]["rv"]["fields"]}["value"]
                rs = prov(pb, fv)
                neg = set(sum(1 for v in r.via if v == "neg") % 2 for r in rs)
                src = bool(rs) and all(q.is_param(r, "self", ("value",)) for r in rs)
                t2.setdefault(lab, set()).add((tuple(sorted(neg)), src))
            if t2 is not None and t2.get("Credit") == {((0,), True)} and t2.get("Debit") == {((1,), True)}:
                ok = True
                detail = "value by indicator (per path): %s" % {k: sorted(v) for k, v in t2.items()}
        okc = q.all_roots(b, f["commodity"], lambda r: q.is_param(r, "self", ("currency",)))
        ok = ok and okc
    chk.require(ok, R_SIGN, "Amount::to_data|Credit -> +value, Debit -> -value", b.loc(), detail, "match { Credit => self.value, Debit => -self.value }")
    # every use signs with the indicator of the same object
    n = 0
    for x in P.bodies.values():
        if not q.not_test(x) or M not in x.key:
            continue
        seen = {}
        for bb, t in x.calls():
            if TO_DATA not in callee_names(t):
                continue
            n += 1
            chk.analysed(x)
            recv = prov(x, t["args"][0])
            ind = prov(x, t["args"][1])
            ok = bool(recv) and bool(ind) and len(recv) == 1 and len(ind) == 1
            detail = "amount %s signed by %s" % (sorted(mir.show_root(r) for r in recv), sorted(mir.show_root(r) for r in ind))
            if ok:
                r0, r1 = next(iter(recv)), next(iter(ind))
                same_root = (r0.kind, r0.name, r0.site) == (r1.kind, r1.name, r1.site)
                base = tuple(r1.fields[:-2]) if r1.fields[-2:] == ("credit_or_debit", "value") else None
                ok = same_root and base is not None and tuple(r0.fields[:len(base)]) == base and r0.fields[-1:] == ("amount",)
            what = ".".join(f for f in (next(iter(recv)).fields if recv else ()) if not f.startswith("#")) or "?"
            basekey = "%s|%s signed by its own indicator" % (short(x.key.split("::{closure")[0]), what)
            k = seen.get(basekey, 0) + 1
            seen[basekey] = k
            chk.require(ok, R_SIGN, basekey if k == 1 else "%s#%d" % (basekey, k), x.loc(bb), detail + " (an amount signed with another object's credit/debit indicator)", detail)
    chk.add_sites(n)
    chk.floor("uses of Amount::to_data", n, 5)


def date_rules(P, chk):
    g = P.body("okane::import::iso_camt053::<impl okane::import::iso_camt053::xmlnode::Entry>::guess_value_date") if \
        "okane::import::iso_camt053::<impl okane::import::iso_camt053::xmlnode::Entry>::guess_value_date" in P.bodies else None
    if g is None:
        cands = [b for k, b in P.bodies.items() if k.endswith("::guess_value_date")]
        if len(cands) != 1:
            chk.anchor_missing("guess_value_date not found")
            return
        g = cands[0]
    chk.analysed(g)
    uo = [(bb, t) for bb, t in g.calls() if short(callee_def(t)) in ("unwrap_or", "unwrap_or_else")]
    ok = len(uo) == 1
    detail = "expected value_date.unwrap_or(booking_date)"
    if not uo:
        # match &self.value_date { Some(v) => v.as_naive_date(), None => self.booking_date.as_naive_date() }
        conv = [(bb, t) for bb, t in g.calls() if short(callee_def(t)) == "as_naive_date" and not t["dest"]["p"]]
        seen_ = set()
        ok = bool(conv)
        for bb, t in conv:
            gs = [labs for roots, labs in q.variant_guards(g, bb) if any(q.is_param(r, "self", ("value_date",)) for r in roots)]
            rs = prov(g, t["args"][0])
            if gs == [("Some",)] and rs and all(q.is_param(r, "self") and r.fields[:1] == ("value_date",) for r in rs):
                seen_.add("Some")
            elif gs == [("None",)] and rs and all(q.is_param(r, "self", ("booking_date",)) for r in rs):
                seen_.add("None")
            else:
                ok = False
        rs0 = prov(g, {"l": 0, "p": []})
        ok = ok and seen_ == {"Some", "None"} and bool(rs0) and all(r.kind == "call" and r.site in [x[0] for x in conv] for r in rs0)
        detail = "arms seen: %s" % sorted(seen_)
    elif ok:
        t = uo[0][1]
        r0 = q.chains(g, t["args"][0])
        r1 = q.chains(g, t["args"][1])
        ok = bool(r0) and all(q.is_param(r, "self", ("value_date",)) for cn, r in r0) and bool(r1) and all(q.is_param(r, "self", ("booking_date",)) for cn, r in r1)
        detail = "unwrap_or(%s, %s)" % (mir.prov_strs(g, t["args"][0]), mir.prov_strs(g, t["args"][1]))
    chk.require(ok, R_DATE, "Entry::guess_value_date|value date, else booking date", g.loc(), detail, "self.value_date.unwrap_or(self.booking_date)")
    b = P.body(IMPORT)
    chk.analysed(b)
    news = [(bb, t) for bb, t in b.calls() if callee_def(t) == SE + "::Txn::new"]
    effs = [(bb, t) for bb, t in b.calls() if callee_def(t) == SE + "::Txn::effective_date"]
    chk.floor("Txn::new sites in the camt importer", len(news), 3)
    n = 0
    for bb, t in news:
        n += 1
        cs = q.chains(b, t["args"][0])
        ok = bool(cs) and all(any(x.endswith("guess_value_date") for x in cn) for cn, r in cs)
        chk.require(ok, R_DATE, "import|transaction #%d dated by the entry's value date" % n, b.loc(bb), "date = %s" % mir.prov_strs(b, t["args"][0]), "entry.guess_value_date()")
    m = 0
    for bb, t in effs:
        m += 1
        cs = q.chains(b, t["args"][1], stop=lambda r: "booking_date" in r.fields)
        ok = bool(cs) and all("booking_date" in r.fields and set(short(n) for n in cn) <= {"as_naive_date"} for cn, r in cs)
        chk.require(ok, R_DATE, "import|effective date #%d is the booking date" % m, b.loc(bb), "effective date = %s" % mir.prov_strs(b, t["args"][1]), "entry.booking_date")
    chk.require(m == 2, R_DATE, "import|both record kinds set the effective date", b.loc(), "%d effective_date calls" % m, "2")


def balance_rules(P, chk):
    b = P.body(IMPORT)
    fb = [(bb, t) for bb, t in b.calls() if callee_def(t) == M + "::find_balance"]
    kinds = {}
    for bb, t in fb:
        for r in prov(b, t["args"][1]):
            if r.kind == "agg":
                kinds[r.name.rsplit("::", 1)[-1]] = (bb, t)
    ok = set(kinds) == {"Opening", "Closing"}
    chk.require(ok, R_BAL, "import|opening and closing balance are looked up", b.loc(), "find_balance kinds: %s" % sorted(kinds), "Opening, Closing")
    if not ok:
        return
    loops = b.loops()
    bals = [(bb, t) for bb, t in b.calls() if callee_def(t) == SE + "::Txn::balance"]
    pushes = [(bb, t) for bb, t in b.calls() if callee_def(t) == "std::vec::Vec::push" and "Txn" in b.local_ty(t["args"][0]["place"]["l"])]
    # entry loop = the loop iterating the Either<iter, rev>
    entry_loop = None
    for h, blks in loops.items():
        for x in blks:
            t = b.term(x)
            if t["k"] == "call" and callee_def(t) == "std::iter::Iterator::next" and "Either" in (callee(t) or ""):
                if entry_loop is None or len(blks) < len(loops[entry_loop]):
                    entry_loop = h
    if entry_loop is None:
        chk.anchor_missing("camt import: the entry loop was not found")
        return
    eblks = loops[entry_loop]
    outer = [h2 for h2, blks2 in loops.items() if h2 != entry_loop and entry_loop in blks2]
    if not outer:
        chk.anchor_missing("camt import: the statement loop around the entry loop was not found")
        return
    stmt_h = min(outer, key=lambda h2: len(loops[h2]))
    sblks = loops[stmt_h]
    after_entries = b.reach_from(entry_loop, without_blocks=(stmt_h,)) - eblks     # same statement, entries done
    opening = closing = None
    n_open = n_close = 0
    for bb, t in bals:
        src = set()
        for cn, r in q.chains(b, t["args"][1], stop=lambda r: r.kind == "call" and r.name == M + "::find_balance"):
            if r.kind == "call" and r.name == M + "::find_balance":
                for k, (fbb, ft) in kinds.items():
                    if fbb == r.site:
                        src.add(k)
        if src == {"Opening"}:
            opening = (bb, t)
            n_open += 1
        elif src == {"Closing"}:
            closing = (bb, t)
            n_close += 1
        else:
            chk.fail(R_BAL, "import|balance assertion from an unknown source", b.loc(bb), "Txn::balance fed by %s" % mir.prov_strs(b, t["args"][1]))
    chk.require(n_open == 1 and n_close == 1, R_BAL, "import|exactly one opening and one closing assertion per statement", b.loc(),
                "%d opening / %d closing Txn::balance calls" % (n_open, n_close), "1 / 1")
    ok = opening is not None
    detail = "no Txn::balance fed by the opening balance"
    if ok:
        obb, ot = opening
        recv = q.named_local(b, ot["args"][0])
        new_sites = [bb for bb, t in b.calls() if callee_def(t) == SE + "::Txn::new" and b.term(bb)["dest"]["l"] == recv]
        # the pushed value is that transaction: the same local, or the value built by that Txn::new handed on through
        # an Option / a helper's return value
        first_push = [pb for pb, pt in pushes if q.named_local(b, pt["args"][1]) == recv or
                      (new_sites and q.all_roots(b, pt["args"][1], lambda r: r.kind == "call" and r.site in new_sites))]
        zero = False
        for bb, t in b.calls():
            if callee_def(t) == SE + "::Txn::new" and b.term(bb)["dest"]["l"] == recv:
                agg = mir.single_def(b, t["args"][2]["place"]["l"]) if t["args"][2].get("k") in ("copy", "move") else None
                if agg and agg[0] == "assign" and agg[4]["k"] == "aggregate":
                    f = {x["name"]: x["op"] for x in agg[4]["fields"]}
                    zero = "ZERO" in (f["value"].get("repr") or "") or any("ZERO" in (r.name or "") for r in prov(b, f["value"]))
        before = bool(first_push) and first_push[0] in sblks and first_push[0] not in eblks and first_push[0] not in after_entries
        ok = zero and before
        detail = "opening assertion on a zero-amount transaction=%s, pushed inside the statement before its entries=%s" % (zero, before)
    chk.require(ok, R_BAL, "import|opening balance asserted on an initial zero-amount transaction before the entries", b.loc(opening[0]) if opening else b.loc(), detail,
                "Txn::new(first date, \"Initial Balance\", 0) .balance(opening) pushed first")
    ok = closing is not None
    detail = "no Txn::balance fed by the closing balance"
    if ok:
        cbb, ct = closing
        on_last = any(any(short(n) == "last_mut" for n in cn) for cn, r in q.chains(b, ct["args"][0])) or \
            any(r.kind == "call" and short(r.name) == "last_mut" for r in prov(b, ct["args"][0]))
        after = cbb in after_entries and cbb in sblks
        # no transaction of this statement is pushed after it
        none_later = not any(pb in b.reach_from(cbb, without_blocks=(stmt_h,)) for pb, pt in pushes)
        ok = on_last and after and none_later
        detail = "closing assertion on res.last_mut()=%s, after the entry loop inside the statement=%s, nothing pushed afterwards=%s" % (on_last, after, none_later)
    chk.require(ok, R_BAL, "import|closing balance asserted on the last transaction of the statement", b.loc(closing[0]) if closing else b.loc(), detail,
                "after the entries: res.last_mut().balance(closing)")


def order_rule(P, chk):
    b = P.body(IMPORT)
    aggs = []
    for i in sorted(b.live_blocks()):
        for st in b.blocks[i]["stmts"]:
            if st["k"] == "assign" and st["rv"]["k"] == "aggregate" and norm(st["rv"].get("adt") or "") == "either::Either":
                aggs.append((i, st["rv"]))
    table = {}
    for i, rv in aggs:
        lab = None
        for roots, labs in q.variant_guards(b, i):
            if labs in (("OldToNew",), ("NewToOld",)):
                lab = labs[0]
        cs = q.chains(b, rv["fields"][0]["op"], stop=lambda r: "entries" in r.fields)
        names = [short(n) for cn, r in cs for n in cn]
        src = [r for cn, r in cs]
        table[lab] = (names.count("rev") % 2 == 1, all("entries" in r.fields for r in src) and bool(src), sorted(set(names) - {"rev", "iter", "deref", "into_iter"}))
    ok = table.get("OldToNew", (None,))[0] is False and table.get("NewToOld", (None,))[0] is True and \
        all(v[1] and not v[2] for v in table.values()) and len(table) == 2
    chk.require(ok, R_ORDER, "import|old_to_new walks forwards, new_to_old through rev()", b.loc(aggs[0][0]) if aggs else b.loc(),
                "entry order by row_order: %s" % table, "OldToNew => entries.iter(), NewToOld => entries.iter().rev()")


def no_reorder(P, chk):
    """the transactions are pushed in statement order and the vector is never reordered afterwards (the opening /
    closing assertions were attached by position)"""
    b = P.body(IMPORT)
    bad = []
    for bb, t in b.calls():
        nm = short(callee_def(t))
        if nm in ("reverse", "sort", "sort_by", "sort_by_key", "sort_by_cached_key", "sort_unstable", "sort_unstable_by", "sort_unstable_by_key",
                  "rotate_left", "rotate_right", "swap", "dedup", "dedup_by_key", "retain", "truncate", "drain", "insert", "remove", "pop", "swap_remove", "clear"):
            if t["args"] and b.local_name(q.named_local(b, t["args"][0]) or 0) == "res":
                bad.append("%s at %s" % (nm, b.loc(bb)))
    chk.require(not bad, R_BAL, "import|the result is never reordered after the assertions were placed", b.loc(),
                "the transaction vector is modified by %s: the opening / closing assertions no longer sit on the first / last transaction" % bad,
                "only push and last_mut touch `res`")


def charge_rules(P, chk):
    b = P.body(M + "::add_charges")
    chk.analysed(b)
    tds = [(bb, t) for bb, t in b.calls() if TO_DATA in callee_names(t)]
    negs = [(bb, t) for bb, t in b.calls() if callee_def(t) == "std::ops::Neg::neg" and any(r.kind == "call" and r.site in [x[0] for x in tds] for r in prov(b, t["args"][0]))]
    uses = [(bb, t) for bb, t in b.calls() if short(callee_def(t)) in ("add_charge", "try_add_charge_not_included")]
    ok = len(tds) == 1 and len(uses) == 2
    detail = "expected one to_data and the two charge setters"
    if ok:
        okn = True
        for bb, t in uses:
            rs = prov(b, t["args"][2])
            okn = okn and bool(rs) and all("neg" in r.via and r.kind == "call" and r.site == tds[0][0] for r in rs)
        # dispatch on is_charge_included
        disp = {}
        for bb, t in uses:
            for a in mir.guards_at(b, bb):
                if a.kind == "bool" and any("is_charge_included" in r.fields for r in a.subject):
                    disp[short(callee_def(t))] = a.label
        okd = disp.get("add_charge") == (True,) and disp.get("try_add_charge_not_included") == (False,)
        # zero charges skipped, nothing else
        zs = [(cn, lab) for bb, t in uses for cn, lab, ct in q.guard_calls(b, bb) if short(cn) == "is_zero"]
        okz = bool(zs) and all(lab is False for cn, lab in zs)
        ok = okn and okd and okz
        detail = "charge negated once=%s, included -> add_charge / not included -> try_add_charge_not_included=%s, zero charges skipped=%s" % (okn, okd, okz)
    chk.require(ok, R_CHG, "add_charges|a charge is the negated signed amount; included / not included dispatch", b.loc(), detail,
                "-cr.amount.to_data(cr.credit_or_debit.value); is_charge_included ? add_charge : try_add_charge_not_included")
    imp = P.body(IMPORT)
    calls = [(bb, t) for bb, t in imp.calls() if callee_def(t) == M + "::add_charges"]
    chk.require(len(calls) == 3, R_CHG, "import|entry charges on entry bookings, entry + detail charges on detail bookings", imp.loc(),
                "%d add_charges calls" % len(calls), "3 call sites")



def calendar_date_rule(P, chk):
    """A camt date is the calendar date the bank wrote.  `<Dt>` is a plain date; `<DtTm>` carries an offset, and its date
    is the date *at that offset*: the timestamp type must keep the written offset (DateTime<FixedOffset>) or be naive -
    DateTime<Utc> / DateTime<Local> convert the instant while parsing and move times near midnight to the neighbouring
    day (seed C18-E) - and as_naive_date takes the date without converting the zone."""
    D = "okane::import::iso_camt053::xmlnode::Date"
    a = P.adts.get(D)
    if not a:
        chk.anchor_missing("xmlnode::Date not found")
        return
    tys = [(v["name"], f["ty"]) for v in a.get("variants", []) for f in v.get("fields", [])]
    chk.floor("payload types of xmlnode::Date", len(tys), 2)
    for vn, ty in tys:
        t_ = norm(ty)
        ok = True
        if "DateTime<" in t_:
            ok = "FixedOffset" in t_
        chk.require(ok, R_DATE, "xmlnode::Date::%s|timestamp keeps the offset it was written with" % vn, "cli/src/import/iso_camt053/xmlnode.rs",
                    "payload type is %s" % t_, "chrono::DateTime<chrono::FixedOffset>, NaiveDateTime or NaiveDate")
    b = P.maybe_body(D + "::as_naive_date")
    if b is None:
        chk.anchor_missing("xmlnode::Date::as_naive_date not found")
        return
    chk.analysed(b)
    bad = [short_(callee_def(t)) for bb, t in b.calls() if short_(callee_def(t)) in
           ("with_timezone", "naive_utc", "to_utc", "date_naive_utc", "fixed_offset", "timestamp", "from_utc_datetime", "and_utc")]
    chk.require(not bad, R_DATE, "xmlnode::Date::as_naive_date|local calendar date, no zone conversion", b.loc(),
                "calls %s" % bad if bad else "no zone conversion", "date_naive() / naive_local().date() of the value as written")


def short_(n):
    return (n or "").rsplit("::", 1)[-1]


def run(P, chk, tier):
    chk.rule(R_SIGN, "credit is positive, debit negative, and every amount is signed with its own object's indicator")
    chk.rule(R_DATE, "value date (else booking date) as the date, booking date as the effective date")
    chk.rule(R_BAL, "opening balance asserted first, closing balance on the last transaction of the statement")
    chk.rule(R_ORDER, "entries are walked oldest first under either row_order")
    chk.rule(R_CHG, "charges are negated signed amounts, zero ones skipped, included / not included dispatched")
    chk.rule(importers.R_ROWS, "an entry without details and every detail of a batched entry become one transaction each")
    sign_rules(P, chk)
    date_rules(P, chk)
    calendar_date_rule(P, chk)
    balance_rules(P, chk)
    no_reorder(P, chk)
    order_rule(P, chk)
    charge_rules(P, chk)
    importers.record_loop(P, chk, IMPORT, "entry / detail", only_if=(("is_empty", True),), not_record_loops=("statements",))
