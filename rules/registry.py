"""Which properties are claimed, at what level, by which technique (feeds MANIFEST.json)."""

TRUSTED = ("Trusted base: rustc nightly's MIR for the dev profile (opt-level 0, overflow checks on) "
           "is representative of the shipped program; the okfacts driver and analysis/*.py; the "
           "reviewed reasons in rules/tables/*.toml (those with a `support` list are re-checked "
           "mechanically on every run); dependencies (winnow, rust_decimal, chrono, glob, std) honour "
           "their documented panics and iteration order; analysis/inline.py and analysis/desugar.py "
           "(helper inlining, jump threading, std combinators and `?` written out as the match / loop their "
           "documentation defines) preserve behaviour - an obligation counts as discharged when it is "
           "discharged on the program as compiled or on one of these equivalent views (DESIGN.md 10.8).  "
           "Decides the structural clauses named in the text, not numeric results.")

CLAIMED = {
    "C06": {
        "text": "Static, all-paths: every construct in okane-core + the report/format commands + main "
                "that can panic or diverge by contract (overflow/bounds/div asserts, unwrap/expect/panic!/"
                "index/split_at/Decimal division, unbounded ranges, loops, recursion cycles) is enumerated "
                "from MIR and must be discharged by a dominating guard on the same operand, a reviewed table "
                "entry with machine-checked support, or be a listed known finding; main's Err arm must reach "
                "exit(non-zero).  A new unguarded panic source, a removed guard or a new recursion cycle is a "
                "violation.  Does not bound running time or the internals of dependencies.",
        "design_ref": "DESIGN.md §3 E2/E3, §4 C06",
        "note": TRUSTED,
        "technique": "static analysis: MIR panic/divergence-surface enumeration with dominance-based guard discharge, call-graph SCCs, reviewed allow-table",
    },
    "C01": {
        "text": "Static, all-paths over the balance check: every Ok return of check_balance is reachable only under "
                "is_zero() of the rounded residual or under a complete implied-exchange test (maybe_pair()==Some, both "
                "members tested non-zero, signs tested different); every other return is Err(UnbalancedPostings); "
                "maybe_pair yields Some only under len()==2; the one-omitted-amount branch reaches neither check_balance "
                "nor an Err; every Result produced in book_keeping is propagated up to main's exit(1); and no unguarded "
                "panic source (division, index, unreachable!) exists in the book-keeping / evaluation / price modules, "
                "with try_from_syntax's rejection of zero rate / zero amount / same commodity checked as the support of "
                "posting_price_event's unreachable!.  Necessary conditions of the statement; the valuation arithmetic "
                "(lot, cost, rate*quantity, rounding) is not decided."
                "  Also: each commodity is rounded with the precision looked up for that same commodity, and a `format` sub-directive is stored for the commodity being declared.",
        "design_ref": "DESIGN.md §4 C01, §3 E3/E5/E6/E9",
        "note": TRUSTED,
        "technique": "static analysis: dominance-based accept-path rule over MIR (guards in force at every Ok return), error-chain consumption analysis, panic-surface enumeration",
    },
    "C02": {
        "text": "Static order / provenance / decision rules: assert_balance is applied to the very value add_posting_amount "
                "returned for that posting (no clone / rounding / other call in between) against the evaluated `= X` of the "
                "same posting; every Ok of the amount arm lies (on every path) behind `no assertion` or behind "
                "is_absolute_zero() of that result, the other edge returns BalanceAssertionFailure built from this posting's "
                "spans and the asserted balance; Amount::assert_balance returns zero() only under is_zero() of the whole "
                "balance (`= 0`) or of single.value - get_part(single.commodity) (`= X C`); all balance mutators drop zero "
                "entries of the entry they update; postings are folded by a plain enumerate() loop over txn.posts.  The "
                "subtraction itself is not decided.",
        "design_ref": "DESIGN.md §4 C02",
        "note": TRUSTED,
        "technique": "static analysis: operand provenance chains and disjunctive must-pass-edge rules over MIR",
    },
    "C03": {
        "text": "Static path / provenance rules: a second unconstrained posting always returns UndeduciblePostingAmount; the "
                "deduced amount is negate() applied directly to the accumulator of balance deltas, stored in postings[u] and "
                "added to postings[u].account with the same u; balance mutators are called only while processing the posting "
                "in hand on its own account; the assignment arm computes X.check_sub(prev) with prev returned by "
                "set_partial(account, X); Balance::set_partial's bare-zero arm converts the previous balance with the "
                "cardinality-checking conversion and returns its error; Amount::set_partial removes on zero / inserts "
                "otherwise and returns the previous value of that commodity.  The value of the difference is not decided.",
        "design_ref": "DESIGN.md §4 C03",
        "note": TRUSTED,
        "technique": "static analysis: operand provenance chains, who-may-call, must-pass rules over MIR",
    },
    "C04": {
        "text": "Static decision tables and placement rules: DateRange::contains is enumerated path by path and equals the "
                "half-open specification on all 52 cases (13 weak orderings of date/start/end x Some/None of both bounds, "
                "exhaustive), so adjacent ranges partition their union; is_bypass and require_recompute equal their "
                "specifications on their full domains; in Ledger::balance a posting is kept iff "
                "query.date_range.contains(txn.date), no other selection sits on the posting stream and the amount goes to "
                "the posting's own account; Balance::add_amount / add_posting_amount remove zero entries of the updated "
                "entry on every path.  Necessary conditions; numeric agreement of the incremental and re-folded sums is not decided.",
        "design_ref": "DESIGN.md §4 C04, §3 E5/E6",
        "note": TRUSTED,
        "technique": "static analysis: exhaustive decision-table check of MIR paths over weak orderings; dominance / provenance rules",
    },
    "C08": {
        "text": "Static decision tables and structure rules: the operand-kind typing of check_add/sub/mul/div equals the "
                "specification on every (lhs kind, rhs kind[, zero divisor]) case, the arithmetic on each accepting arm is the "
                "operator's own trait applied to (self, rhs) in order, BinaryOp variants dispatch to the matching check_* with "
                "eval(lhs) as receiver and eval(rhs) as argument, unary minus negates; the grammar's precedence strata, operator "
                "symbol tables and left fold are read from the function-value reference graph and constants; conversions to a "
                "single amount test the commodity count before taking an element.  Numeric results are not decided."
                "  Also: the unary minus always builds Unary(Negate, operand) and the parser never alters the operand's sign itself.",
        "design_ref": "DESIGN.md §4 C08, §3 E5/E7/E8",
        "note": TRUSTED,
        "technique": "static analysis: exhaustive decision tables over enum-kind domains from MIR paths; function-reference graph and constant-set comparison for the grammar",
    },
    "C09": {
        "text": "Static structure / decision rules over the price repository: the as-of predicate is record_date <= date on "
                "all three orderings, the looked-up index is partition_point-1 of the same vector under a non-zero guard "
                "and the staleness passed on is date - record_date; NaivePriceRepository is constructed only after every "
                "rate vector was sorted unconditionally (no selecting adaptor, no conditional sort) and only the builder "
                "pushes rates; a higher-priority source clears lower-priority rates exactly under stored < new with the "
                "derived order Ledger < PriceDB, both directions are stored, loaders use the right source; chain cost is the "
                "derived lexicographic (ledger hops, hops, staleness) and extend updates it as specified; convert_single is "
                "identity / value*rate / RateNotFound; conversion errors are propagated; neighbours are relaxed in sorted "
                "order.  Search optimality and the rate product are not decided."
                "  Also: only reviewed operations (push, sort, the tabled clear, reads) touch a rate vector - recorded prices are never dropped, merged or rewritten.",
        "design_ref": "DESIGN.md §4 C09",
        "note": TRUSTED,
        "technique": "static analysis: ADT-table order checks, decision tables over orderings, typestate (sorted-before-lookup) via who-may-construct + dominance, error-chain analysis",
    },
    "C10": {
        "text": "Narrow static claim: a missing rate is an error on every path from its creation to exit(1) (never dropped, "
                "defaulted, matched away or skipped); each strategy converts the right amount at the right date into the "
                "query's target; convert_amount converts and adds every commodity with no selecting adaptor; amounts already "
                "in the target are returned unchanged; the fast path is chosen only without range and without historical "
                "conversion; nothing is rounded inside Ledger::balance before the final Balance::round.  Completeness and "
                "linearity of the sums as numbers are not decided.",
        "design_ref": "DESIGN.md §4 C10, §3 E9/E7",
        "note": TRUSTED,
        "technique": "static analysis: error-chain consumption over MIR, operand provenance per strategy arm, loop must-pass rules",
    },
    "C11": {
        "text": "Static placement / provenance rules over Loader::load_impl: glob matches are sorted by Path order (natural "
                "sort or a comparator that is exactly Ord::cmp of the two paths) before the recursion, on the same vector; the "
                "recursive load sits inside the entry loop and walks the sorted matches in order; the callback is unreachable "
                "for Include entries and reached for every other kind; an empty match returns an error; include targets are "
                "parent(canonical current path).join(include path) and the callback / file read use that canonical path; both "
                "file systems glob with glob_match_options() = all three literal options true; the include stack tests, pushes "
                "and pops the canonical path on every successful return and is passed down the recursion.  Report equivalence "
                "under splitting is not decided."
                "  The include-resolution rules follow a local helper if the glob / sort / empty-check have been extracted into one (arguments tied back to the call in load_impl).",
        "design_ref": "DESIGN.md §4 C11",
        "note": TRUSTED,
        "technique": "static analysis: dominance / loop-membership placement rules, operand provenance chains, constant-aggregate comparison over MIR",
    },
    "C12": {
        "text": "Static decision tables and placement rules: over the lookup state {absent, canonical, alias}, insert_canonical = "
                "{insert, reuse, Err(AlreadyAlias)}, insert_alias = {insert for the given canonical, Err(AlreadyCanonical), no-op}, "
                "ensure = resolve-or-insert, resolve / as_canonical return the canonical member on the alias arm, get builds "
                "Alias{canonical} from the stored canonical; records are written only by the *_impl functions after an absent "
                "lookup of the same key; typed names are minted only inside intern.rs; account / commodity declarations register "
                "the canonical name and - on every path, for every detail, unfiltered - each alias for that canonical, with both "
                "errors propagated; store facades forward 1:1; posting accounts and amount commodities are resolved through the "
                "store.  Equality of reports under alias substitution is not decided."
                "  Also: a commodity `format` is stored for the canonical commodity of its own declaration.",
        "design_ref": "DESIGN.md §4 C12",
        "note": TRUSTED,
        "technique": "static analysis: decision tables over lookup-state atoms in force, who-may-call / who-may-construct, loop must-pass rules over MIR",
    },
    "C13": {
        "text": "Static, all-sites: every place where HashMap/HashSet iteration order enters the three crates "
                "(std iterators, the local wrapper types AmountIter / intern::Iter, local functions returning them, "
                "retain) is followed along the typed adaptor chain to its consumer; the consumer must be "
                "order-insensitive by a checked idiom (order-free reduction, collect into a keyed container, "
                "collect-then-sort before any other use, single element under a len<=1 guard, returned to tracked "
                "callers) or by a reviewed table entry keyed on the fingerprint of what the loop does per element "
                "and how it can exit early; ambient nondeterminism APIs (clock, env, dir listing, threads, random "
                "state) must be tabled.  A new unsorted iteration that reaches output, an error path or a "
                "positional use is a violation."
                "  A collect-then-sort only counts when the sort key / comparator cannot merge distinct elements (plain projections; no lower-casing, lengths, prefixes).",
        "design_ref": "DESIGN.md §3 E4, §4 C13",
        "note": TRUSTED,
        "technique": "static analysis: type-directed hash-order flow over MIR with consumer fingerprints and checked order-insensitivity idioms",
    },
    "C20": {
        "text": "Static who-may-write / dominance / provenance rules over the whole okane_golden crate: every call that can create or "
                "modify a file sits in Golden::assert behind the true edge of is_update_golden(), writes the unmodified `got` to "
                "self.path, its io::Result is consumed by expect/unwrap/?, and in update mode no return precedes it; is_update_golden "
                "reads exactly UPDATE_GOLDEN and is true only behind a non-emptiness test of the value; nothing else reads or sets "
                "the environment; Golden::new produces a Golden without file content only under kind()==NotFound && "
                "is_update_golden(), other read errors propagate, content = read_as_utf8(path) which applies exactly CRLF->LF; every "
                "normal return of assert lies behind == of the unmodified `got` against want (self.content in read mode, got in "
                "update mode) and the unequal edge panics; Golden.content is never modified.  str equality and the file system are trusted.",
        "design_ref": "DESIGN.md §4 C20",
        "note": TRUSTED,
        "technique": "static analysis: who-may-call enumeration with positive control, dominance by guard edges, operand provenance, constant comparison over MIR",
    },
    "C19": {
        "text": "Narrow static claim (two clauses of the statement).  Display width: the `left` operand of both get_column calls of the "
                "posting printer is a pure sum of a unicode-width measurement (wide = 2 columns) of the posting's account, the width of "
                "the clear mark and - with an amount - the alignment of the amount just rendered; the balance-only column is a constant "
                "plus (unicode width of the rendered assertion - its alignment) taken from one rendering; byte / char counts are "
                "violations.  Minimum separation: every formatter width of the posting printer comes from get_column (or is 0 after an "
                "amount), get_column returns padding, or colsize-left only under left+padding <(=) colsize (or the equivalent max form), "
                "and each call's constant padding leaves two spaces given the right-aligned literal it pads.  That the number ends at "
                "column 52, the indent literals and entry separation are not decided (DESIGN.md section 6.4).",
        "design_ref": "DESIGN.md §4 C19, §6.4",
        "note": TRUSTED,
        "technique": "static analysis: arithmetic expression trees over MIR (operand provenance through +/-), guard-in-force check of the column helper, constant comparison",
    },
    "C17": {
        "text": "Static provenance / placement / decision rules: ConfigFragment::merge takes every optional setting as later.or(earlier), "
                "the later path, and earlier rewrite rules followed by later ones; select_impl keeps a document iff the file path contains "
                "its path, orders them by a stable sort keyed on path length (ascending) and folds merge(accumulated, next) left to "
                "right; Extractor::extract applies rules front to back on the running fragment and merges each result back; "
                "Fragment+=, Fragment+Matched and ExtractRule give precedence captures < rule payee, later < earlier never, account "
                "replaced by the rule's account; the cleared flag equals cleared||!pending on all four cases and changes only for "
                "account-assigning rules; OR-lists are consumed by a first-match combinator and AND-lists by an all-must-match fold "
                "threading the fragment; all three matcher implementations read the rewritten payee; all four extraction sites hand "
                "fragment.account to dest_account_option and mark pending exactly under !fragment.cleared; to_double_entry defaults to "
                "Income:Unknown / Expenses:Unknown by sign and to Pending exactly without an assigned account.  Regex outcomes are not decided.",
        "design_ref": "DESIGN.md §4 C17",
        "note": TRUSTED,
        "technique": "static analysis: operand provenance (receiver/argument order of Option::or, merge, fold), boolean store tables enumerated over finite valuations, placement / adaptor-chain rules, sibling cross-check over MIR",
    },
    "C14": {
        "text": "Static provenance / placement rules over the diagnostic plumbing: ErrorContext.path is the path parameter of its only "
                "constructor, whose only caller passes the path and context the loader's callback received for that entry (traced "
                "through the nested closure captures); load errors carry the canonicalised path of the file being read; line_start, "
                "text and parsed_span of a context come from one ParsedContext, which is only built by the parse adaptor from the "
                "whole-file text and the entry's with_span range; compute_line_start passes (initial, span.start); ParseError::new "
                "measures the error offset, rewinds to the entry checkpoint before anything else reads the stream, counts lines in "
                "the un-sliced text at the rewound position; compute_line_number consumes its offset with a byte-indexed prefix "
                "operation and returns 1 + the count of b'\\n' in the prefix half; BookKeepError spans are span() of parts of the "
                "function's own posting / exchange; resolve clips with max/min minus the entry start; TrackedSpan is minted only "
                "from with_span ranges.  Counting newlines for arbitrary content is not decided."
                "  Also: both file-system implementations hand the file text on unedited and load_impl parses exactly that text.",
        "design_ref": "DESIGN.md §4 C14",
        "note": TRUSTED,
        "technique": "static analysis: operand provenance incl. closure-capture tracing, who-may-construct, dominance (rewind before read), arithmetic expression trees over MIR",
    },
    "C07": {
        "text": "Narrow static claim over the literal scanner (PrettyDecimal::from_str + closures), the grouped printer, try_find_char "
                "and primitive::pretty_decimal.  Decided: every panic / overflow source there is guarded, tabled with checked support or a "
                "finding; every integer cast is value preserving for all source values; no wrapping / saturating / overflowing "
                "arithmetic in the scanner; the None of every checked_* step reaches ok_or(..)? and the Result of "
                "Decimal::try_from_i128_with_scale is propagated, with value = sign * checked accumulator; the token parser maps the "
                "consumed characters (digits , . -) through try_map(str::parse); and five necessary acceptance guards of the statement, "
                "as placement rules on the scanner's state variables: the decimal-point transition is dominated by scale.is_none() (at "
                "most one point) and reachable only through comma_pos.is_none() / == Some(i) (only after a complete group), a test of "
                "comma_pos against s.len() that can reject lies on every path from the end of the loop to Ok (complete last group), "
                "and so does a test of a flag set only on the digit arm (at least one digit); every path that takes the first comma "
                "(comma_pos still None) lies under a two-sided bound of the leading group - two ordering tests, one plus a digit-seen "
                "flag, or a range test (a leading group of one to three; the constants are not decided).  The rest of the accepted language and "
                "the value function of the state machine are not decided (DESIGN.md section 6.1).",
        "design_ref": "DESIGN.md §4 C07, §6.1",
        "note": TRUSTED,
        "technique": "static analysis: MIR panic-surface enumeration restricted to the scanner, cast-range check, Option/Result consumption flow, must-pass / dominance rules on the scanner's state variables",
    },
    "C05": {
        "text": "Static structure rules over the syntax tree types, the printer and the parser.  Printer: every field of every struct and "
                "the payload of every variant of the syntax types contained in LedgerEntry is read by a Display impl reachable from the "
                "entry printer (following calls, format arguments and to_string), variant payloads on their own arm.  Parser: every "
                "variant of every syntax enum is constructed in okane_core::parse (or is the declared Default); every struct literal the "
                "parser builds takes each field from parsed input - a field left to a ::new()/Default base or to a constant is a "
                "violation unless tabled and behind its guard; Lot's three fields are all assigned.  Writer/reader agreement: for each "
                "multi-line text (top comment, account / commodity comment and note) the printer's prefix ends in a blank exactly when "
                "the parser's prefix consumes the following blanks.  End of file: every parser that references winnow's bare "
                "line_ending pairs it with eof in the same alternation, or is tabled as lookahead-only with every reference under "
                "has_peek.  Round-trip equality of values and idempotence as such are not decided (value level)."
                "  Also: LineWrapStr writes the prefix verbatim in front of every line; `format` and `primitive flatten` render "
                "with DisplayContext::default() and nothing configures a precision on it (numbers keep the decimal places they were "
                "written with).",
        "design_ref": "DESIGN.md §4 C05, §10.11",
        "note": TRUSTED,
        "technique": "static analysis: field / variant coverage over the ADT table and MIR place projections, who-may-construct and who-may-reference rules, constant comparison between printer and parser prefixes",
    },
    "C15": {
        "text": "Static flow / structure rules: every text placed into a line-oriented field of the printed transaction (payee, code, "
                "comment, tag text, posting account, commodity) is traced from Txn::to_double_entry back through closures, helper "
                "returns and the Txn setters' callers to its origin; configuration text (config.account, config.operator, the rule's "
                "own account) is separated from statement text, and every statement-text flow must pass a sanitiser (a local function "
                "inspecting line breaks) - the four flows that exist today are listed findings, each reproduced; every field of Txn "
                "and Charge is read when the transaction is built and no printed field is left to a default except the tabled ones; "
                "display::rescale requests max(own scale, configured precision) of the value's own clone and as_syntax_amount wraps "
                "the importer's Decimal unchanged; ImportCmd::run prints every imported transaction in order through the display "
                "context built from config.format.commodity and propagates to_double_entry and write errors.  Equality of the "
                "re-read tree is not decided (value level).",
        "design_ref": "DESIGN.md §4 C15",
        "note": TRUSTED,
        "technique": "static analysis: inter-procedural text-flow (taint) tracing over MIR provenance with source classification, field-coverage, operand provenance of the scale argument, loop / error-consumption rules",
    },
    "C16": {
        "text": "Static decision / placement rules over the CSV importer (the finite part of the statement): FieldMap::amount yields "
                "+credit only when the credit column is non-empty, -debit only when the debit column is non-empty, an error when both "
                "are empty, and the amount column as is for an asset and negated for a liability account - and nothing else; the "
                "counter posting is the negated account amount or the transferred amount signed like it; price-of-primary / "
                "price-of-secondary attach the rate to the commodity it prices and compute amount*rate / amount/rate, extract / compute "
                "choose the secondary-amount column or the computed value, the booked rate is the row's rate; the collected "
                "transactions are reversed exactly and unconditionally under new_to_old and never reordered otherwise; a parsed "
                "balance column is attached unchanged, in the row's commodity, on every path to the push, and both sign branches of "
                "to_double_entry assert it on the statement account's posting; the CSV reader uses only reviewed options and every "
                "record is pushed once (tabled skip: empty date).  That a consistent statement imports into a ledger the "
                "book-keeping accepts and ends at the last balance is numerical and not decided.",
        "design_ref": "DESIGN.md §10.2 (C16), §6.2",
        "note": TRUSTED,
        "technique": "static analysis: decision tables over guards in force (sign, conversion mode), operand provenance with negation parity, dominance / must-pass placement rules, who-may-call over reader options",
    },
    "C18": {
        "text": "Static decision / placement rules over the Camt053 importer (the finite part of the statement): Amount::to_data is "
                "+value for Credit and -value for Debit; each of its five uses signs an amount with the credit/debit indicator of the "
                "same statement object; charges are the negated signed amount, zero charges skipped, included / not-included "
                "dispatched on is_charge_included; an entry without details and every detail of a batched entry is pushed exactly once "
                "and neither stream is filtered; transactions are dated by value_date.unwrap_or(booking_date) with the booking date "
                "as effective date; a <DtTm> timestamp keeps the offset it was written with (DateTime<FixedOffset>, never Utc / Local) "
                "and as_naive_date converts no zone, so the calendar date is the bank's; exactly one opening assertion, on a zero-amount transaction pushed inside the statement before "
                "its entries, and exactly one closing assertion, on res.last_mut() after the entry loop with nothing pushed "
                "afterwards; entries are walked forwards for old_to_new and through an odd number of rev() for new_to_old.  "
                "Conservation of the sums and acceptance by the book-keeping are numerical and not decided.",
        "design_ref": "DESIGN.md §10.2 (C18), §6.3",
        "note": TRUSTED,
        "technique": "static analysis: decision table of the sign function, same-object provenance of (amount, indicator) pairs, loop-structure placement of the balance assertions, must-pass push rules",
    },
}

_WIP = "check not built yet in this session (design: DESIGN.md §4); not claimed until it is"
NOT_APPLICABLE = {
}
for _p in ["C%02d" % i for i in range(1, 21)]:
    if _p not in CLAIMED and _p not in NOT_APPLICABLE:
        NOT_APPLICABLE[_p] = _WIP

NOTES = ("All checks are static: they read MIR facts extracted from /repo's current working tree "
         "(cached by a hash of the sources) and never run okane code.  Genuine defects found are "
         "repaired by `fix:` commits in /repo or listed in known_findings.json.")
