"""C06 — every input yields output or a diagnostic: no crash, no hang.

E3 (panic / divergence surface) + E2 (recursion cycles) over the cone
okane-core + report/format commands + main, and E9-top (main maps Err to exit(1)).
"""
from analysis import mir, panics, q
from analysis.mir import norm, callee, callee_def, callee_names, prov
from . import common, surface, shared, spans

EXPLANATION = (
    "Static enumeration over MIR of every construct in okane-core, the report/format "
    "commands and main that can panic or diverge by contract (Assert terminators for "
    "overflow / bounds / division, calls to unwrap/expect/panic!/index/split_at/Decimal "
    "division, unbounded RangeFrom iteration, natural loops, call-graph recursion cycles). "
    "Each instance must be discharged by a structural guard idiom checked on every path "
    "(dominating comparison / is_zero / is_some test on the same operand), by a reviewed "
    "table entry whose supporting obligations are re-checked on every run, or be a listed "
    "known finding; anything else is a violation.  Byte ranges handed to the snippet renderer "
    "(which slices the source text with them) are traced back to where their bounds are computed: "
    "an offset +/- a literal byte count that is not filtered through is_char_boundary is a violation.  "
    "main's Err arm must reach exit(non-zero)."
)

R_MAIN = "E9.main-exit"

# floors: numbers counted on the pinned tree
# floors: about three quarters of the numbers counted on the pinned tree (they guard against a vacuous
# enumeration, not against a refactoring that removes a few sites)
FLOOR_BODIES = 600
FLOOR_SOURCES = 30
FLOOR_LOOPS = 26


def check_main_exit(P, chk):
    shared.main_exit(P, chk, R_MAIN)


def run(P, chk, tier):
    chk.rule(R_MAIN, "main: Err of cli.run reaches process::exit(non-zero) after writing to stderr")
    bodies = common.c06_cone(P)
    chk.analysed(*bodies)
    chk.floor("bodies in cone", len(bodies), FLOOR_BODIES)
    S = surface.Surface(P, chk)
    src = S.sources(bodies)
    chk.floor("panic sources", len(src), FLOOR_SOURCES)
    S.ranges(bodies)
    loops = S.loops(bodies)
    chk.floor("natural loops", len(loops), FLOOR_LOOPS)
    nscc = S.sccs(bodies)
    chk.floor("recursion cycles", nscc, 3)
    S.finish()
    spans.check(P, chk)
    check_main_exit(P, chk)
