"""C17 — rewrite rules and layered configuration resolve as documented."""
from analysis import mir, q, tables
from analysis.mir import norm, callee, callee_def, callee_names, prov

EXPLANATION = (
    "Static provenance / placement / decision rules over cli/src/import/{config,extract,single_entry}.rs and the three "
    "importers.  ConfigFragment::merge: every optional setting is later.or(earlier) (receiver = the later document), path "
    "is the later one, rewrite = earlier rules with the later ones appended.  ConfigSet::select_impl: documents are kept "
    "iff file_path.contains(document path), ordered by a *stable* sort whose key is the length of the document's path, "
    "and folded left to right with merge(accumulated, next).  Extractor::extract walks the rules front to back, hands "
    "each the running fragment and merges its result into that same fragment.  Fragment += : later Some wins for "
    "payee/account/code/conversion, cleared is or-ed; Fragment + Matched: captures win over the running payee/code; "
    "ExtractRule: the rule's payee wins over captures, the rule's account is stored, and the new cleared flag equals "
    "old || !pending (exhaustive over the four cases) only when the rule assigns an account.  OR-lists are consumed "
    "by a first-match combinator, AND-lists by an all-must-match fold threading the fragment.  Every payee matcher "
    "reads the fragment's (rewritten) payee.  Every importer applies fragment.account via dest_account_option and "
    "marks the transaction pending exactly under !fragment.cleared; to_double_entry defaults the counter account to "
    "Income:Unknown (positive) / Expenses:Unknown (negative) and the posting state to the set state, else Pending "
    "exactly when no account was assigned.  Regex matching outcomes are not decided."
)

CFG = "okane::import::config"
EX = "okane::import::extract"
MERGE = CFG + "::ConfigFragment::merge"
SEL = CFG + "::ConfigSet::select_impl"
HASM = SEL + "::has_matches"
FRAG = EX + "::Fragment"
XEXTRACT = EX + "::Extractor::extract"
REXTRACT = EX + "::ExtractRule::extract"
OREX = EX + "::MatchOrExpr::extract"
ANDEX = EX + "::MatchAndExpr::extract"
ADDASSIGN = "<okane::import::extract::Fragment as std::ops::AddAssign>::add_assign"
ADDM = "<okane::import::extract::Fragment as std::ops::Add<okane::import::extract::Matched>>::add"
TODE = "okane::import::single_entry::Txn::to_double_entry"

R_MERGE = "E7.merge-precedence"
R_SEL = "E6.select-order"
R_RULES = "E6.rules-in-order"
R_FRAG = "E7.fragment-precedence"
R_CLR = "E5.cleared-table"
R_LIST = "E6.or-any-and-all"
R_PAYEE = "E8.matchers-see-rewritten-payee"
R_APPLY = "E6.importers-apply-fragment"
R_DEF = "E5.unknown-account-defaults"


def short(n):
    return (n or "?").rsplit("::", 1)[-1]


def is_p(r, name, fields=None):
    return q.is_param(r, name, fields)


def opt_or_fields(b, operand):
    """operand is the result of Option::or(recv, arg): -> (recv roots, arg roots) or None"""
    rs = prov(b, operand)
    if len(rs) != 1:
        return None
    r = next(iter(rs))
    if r.kind != "call" or r.name != "std::option::Option::or" or r.site is None or r.fields:
        return None
    t = b.term(r.site)
    return prov(b, t["args"][0]), prov(b, t["args"][1])


# --------------------------------------------------------------------------- merge

def merge_rule(P, chk):
    b = P.body(MERGE)
    chk.analysed(b)
    adt = P.adt(CFG + "::ConfigFragment")
    aggs = [a for a in q.aggregates_of(P, CFG + "::ConfigFragment") if a[0].key == MERGE]
    if len(aggs) != 1:
        chk.anchor_missing("ConfigFragment::merge: expected one ConfigFragment aggregate, found %d" % len(aggs))
        return
    ab, abb, aj, rv = aggs[0]
    fields = {f["name"]: f["op"] for f in rv["fields"]}
    names = [f["name"] for f in adt["variants"][0]["fields"]] if adt.get("variants") else list(fields)
    chk.floor("settings of ConfigFragment", len(fields), 8)
    for name, op in sorted(fields.items()):
        key = "ConfigFragment::merge|%s" % name
        if name == "path":
            ok = q.all_roots(b, op, lambda r: is_p(r, "other", ("path",)))
            chk.require(ok, R_MERGE, key + "|later document's path", b.loc(abb), "path = %s" % mir.prov_strs(b, op), "other.path")
        elif name == "rewrite":
            rs = prov(b, op)
            base = bool(rs) and all(is_p(r, "self", ("rewrite",)) and not (set(r.via) - {"φ"}) for r in rs)
            apps = []
            for bb, t in b.calls():
                if short(callee_def(t)) in ("append", "extend", "extend_from_slice") and "Vec" in (callee_def(t) or "") or \
                        short(callee_def(t)) == "extend":
                    recv = prov(b, t["args"][0])
                    arg = prov(b, t["args"][1])
                    if recv and all(is_p(r, "self", ("rewrite",)) for r in recv) and arg and all(is_p(r, "other", ("rewrite",)) for r in arg):
                        apps.append(bb)
                    elif recv and all(is_p(r, "other", ("rewrite",)) for r in recv):
                        base = False
            ok = base and len(apps) == 1 and b.must_pass_block(abb, apps[0])
            chk.require(ok, R_MERGE, key + "|earlier rules then later rules", b.loc(abb),
                        "rewrite = %s with %d append(s) of other.rewrite" % (mir.prov_strs(b, op), len(apps)),
                        "self.rewrite.append(&mut other.rewrite)")
        else:
            pr = opt_or_fields(b, op)
            ok = pr is not None and all(is_p(r, "other", (name,)) for r in pr[0]) and bool(pr[0]) \
                and all(is_p(r, "self", (name,)) for r in pr[1]) and bool(pr[1])
            detail = "%s = %s" % (name, mir.prov_strs(b, op))
            if pr is not None and not ok:
                detail = "%s = Option::or(%s, %s)" % (name, sorted(mir.show_root(r) for r in pr[0]), sorted(mir.show_root(r) for r in pr[1]))
            chk.require(ok, R_MERGE, key + "|later.or(earlier)", b.loc(abb), detail, "other.%s.or(self.%s)" % (name, name))


# --------------------------------------------------------------------------- select

def len_of_path(tree):
    """tree is len(<something>.path)"""
    if tree[0] != "call" or short(tree[1]) != "len":
        return False
    pl = []

    def walk(t):
        if t[0] == "place":
            pl.extend(t[1])
        elif t[0] == "call":
            for a in t[3]:
                walk(a)
        elif t[0] == "param":
            pl.append("param:" + t[1])
    walk(tree)
    return any(x.endswith(".path") or ".path " in x for x in pl)


def tuple0_is_path_len(P, bodies):
    """every (usize, &ConfigFragment) tuple built in `bodies` has .0 = len(entry.path) of the entry in .1"""
    n = 0
    for b in bodies:
        for i, blk in enumerate(b.blocks):
            if blk["cleanup"]:
                continue
            for st in blk["stmts"]:
                if st["k"] == "assign" and st["rv"]["k"] == "aggregate" and st["rv"].get("agg") == "tuple" and len(st["rv"]["fields"]) == 2:
                    ty = b.local_ty(st["place"]["l"])
                    if "ConfigFragment" not in ty or "usize" not in ty:
                        continue
                    n += 1
                    f0 = q.arith(b, st["rv"]["fields"][0]["op"])
                    if not len_of_path(f0):
                        return False, "a (key, document) pair is built with key %s" % q.arith_str(f0)
                    r1 = set((r.kind, r.name) for r in prov(b, st["rv"]["fields"][1]["op"]))
                    r0 = set()
                    for s in q.arith_leaves(f0):
                        pass
                    t0 = b.term(f0[2])
                    r0 = set((r.kind, r.name) for r in prov(b, t0["args"][0]))
                    if r0 != r1:
                        return False, "key is the path length of another document"
    return n > 0, "%d pair(s), key = document.path.len()" % n


def closure_of_operand(P, b, operand):
    if operand.get("k") == "const" and operand.get("closure"):
        return P.bodies.get(norm(operand["closure"]))
    for r in prov(b, operand):
        if r.kind == "closure":
            return P.bodies.get(r.name)
        if r.kind == "agg" and r.name.startswith("closure:"):
            return P.bodies.get(r.name[len("closure:"):])
        if r.kind == "fn":
            return P.bodies.get(r.name)
    return None


def key_tree_ok(P, c, tree, pname, bodies):
    """tree (in closure c) is the path-length key of closure parameter `pname`"""
    if tree[0] == "place":
        if all(x.startswith("param:") and x.split(":", 2)[2].split(".", 1)[0] == pname and x.endswith(".0") for x in tree[1]):
            return tuple0_is_path_len(P, bodies)[0]
        return False
    return len_of_path(tree) and all(("param:%s" % pname) in x or (":%s." % pname) in x or x.endswith(":" + pname) for x in places(tree))


def places(tree):
    out = []

    def walk(t):
        if t[0] == "place":
            out.extend(t[1])
        elif t[0] == "call":
            for a in t[3]:
                walk(a)
        elif t[0] == "param":
            out.append("param:" + t[1])
    walk(tree)
    return out


def select_rule(P, chk):
    b = P.body(SEL)
    chk.analysed(b)
    bodies = [b] + P.closures_of(SEL) + [x for k, x in P.bodies.items() if k.startswith(SEL + "::")]
    seen = set()
    bodies = [x for x in bodies if not (x.key in seen or seen.add(x.key))]
    for x in bodies:
        chk.analysed(x)
    # (a) substring match of the file path
    cont = []
    for x in bodies:
        for bb, t in x.calls():
            if callee_def(t) in ("core::str::contains", "str::contains") or (short(callee_def(t)) == "contains" and "str" in (callee_def(t) or "")):
                cont.append((x, bb, t))
    ok = len(cont) == 1
    detail = "expected one str::contains in select_impl, found %d" % len(cont)
    if ok:
        x, bb, t = cont[0]
        hay = prov(x, t["args"][0])
        needle = q.chains(x, t["args"][1])
        okh = bool(hay) and all(r.kind in ("param", "capture") and (r.name.endswith("fp") or r.name == "fp") for r in hay)
        plain = {"from_slash", "to_str", "deref", "as_path", "as_ref", "as_str", "borrow", "as_os_str", "to_string_lossy", "display"}
        okn = bool(needle) and all((any(short(n) == "from_slash" for n in cn) or (r.kind == "param" and "path" in r.fields))
                                   and set(short(n) for n in cn) <= plain for cn, r in needle)
        if needle and not okn:
            extra = sorted(set(short(n) for cn, r in needle for n in cn) - plain)
            if extra:
                detail_needle = "the document path is rewritten by %s before the substring test" % extra
        # Some(..) only on the true edge
        somes = [bb2 for bb2, v, rv in q.ok_err_assignments(x) if v == "Some"]
        oks = bool(somes) and all(any(ct is t and lab is True for cn, lab, ct in q.guard_calls(x, s)) for s in somes)
        trues = [bb2 for bb2, v, rv in q.ok_err_assignments(x) if v == "other" and rv.get("k") == "use" and rv["op"].get("int") == 1]
        if not somes and x.key != SEL:
            rs0 = prov(x, {"l": 0, "p": []})
            oks = bool(rs0) and any(r.kind == "call" and r.site == bb for r in rs0) and \
                all((r.kind == "call" and r.site == bb) or (r.kind == "const" and str(r.name).replace("const ", "") == "false") for r in rs0) or \
                (bool(trues) and all(any(ct is t and lab is True for cn, lab, ct in q.guard_calls(x, s)) for s in trues))
        if not oks and str(x.local_ty(0)) == "bool":
            # a boolean predicate with the decision spread over temporaries: path by path, `true` only after contains() held
            try:
                ps = mir.enumerate_paths(x, limit=2000)
                n_true = 0
                good = True
                for p_ in ps:
                    sh = p_.shape
                    val = None
                    if sh and sh[0] == "assign" and sh[2].get("k") == "use" and sh[2]["op"].get("k") == "const" and "int" in sh[2]["op"]:
                        val = bool(sh[2]["op"]["int"])
                    held = any(a.kind == "call" and a.subject[2] == bb and tuple(a.label) == (True,) for a in p_.atoms)
                    if val is True:
                        n_true += 1
                        good = good and held
                    elif val is None and not (sh and sh[0] == "call" and sh[1] == bb):
                        good = False
                oks = good and (n_true > 0 or any(sh_ and sh_[0] == "call" and sh_[1] == bb for sh_ in [p_.shape for p_ in ps]))
            except mir.TooManyPaths:
                pass
        ok = okh and okn and oks
        detail = "file path is the haystack=%s, document path the needle=%s, kept only when contained=%s" % (okh, okn, oks)
    chk.require(ok, R_SEL, "select_impl|document kept iff file path contains its path", b.loc(), detail, "fp.contains(entry path)")
    # the filter uses that predicate, over self.entries in order
    col = [(bb, t) for bb, t in b.calls() if callee_def(t) == "std::iter::Iterator::collect"]
    if len(col) != 1:
        chk.anchor_missing("select_impl: expected one collect(), found %d" % len(col))
        return
    cbb, ct = col[0]
    chain = [short(n) for cn, r in q.chains(b, ct["args"][0]) for n in cn]
    roots = [r for cn, r in q.chains(b, ct["args"][0])]
    okc = bool(roots) and all(is_p(r, "self", ("entries",)) for r in roots) and \
        set(chain) <= {"filter_map", "filter", "iter", "deref", "map", "into_iter", "cloned"} and \
        ("filter_map" in chain or "filter" in chain)
    chk.require(okc, R_SEL, "select_impl|all entries, in file order, filtered only by the match", b.loc(cbb),
                "candidates come through %s from %s" % (chain, sorted(mir.show_root(r) for r in roots)), "self.entries.iter().filter_map(has_matches)")

    def is_matched(o):
        return q.all_roots(b, o, lambda r: r.kind == "call" and r.site == cbb)
    # (b) stable sort by path length
    sorts = [(bb, t, short(callee_def(t))) for bb, t in b.calls() if short(callee_def(t)).startswith("sort") and t["args"] and is_matched(t["args"][0])]
    ok = len(sorts) == 1
    detail = "expected exactly one sort of the matching documents, found %d" % len(sorts)
    sbb = None
    if ok:
        sbb, st_, m = sorts[0]
        if "unstable" in m:
            ok = False
            detail = "%s: documents with equally long paths lose their file order" % m
        elif m in ("sort_by_key", "sort_by_cached_key"):
            c = closure_of_operand(P, b, st_["args"][1])
            ok = c is not None
            detail = "sort key closure not found"
            if ok:
                pn = c.local_name(2) or "arg2"
                rets = [q.arith(c, rv["op"]) if rv.get("k") == "use" else None for bb2, v, rv in q.ok_err_assignments(c) if v == "other"]
                rets += [("call", callee(rv), bb2, [q.arith(c, a) for a in rv["args"]]) for bb2, v, rv in q.ok_err_assignments(c) if v.startswith("call:")]
                ok = bool(rets) and all(r is not None and key_tree_ok(P, c, r, pn, bodies) for r in rets)
                detail = "sort key is %s" % [q.arith_str(r) if r else "?" for r in rets]
        elif m == "sort_by":
            c = closure_of_operand(P, b, st_["args"][1])
            ok = c is not None
            detail = "comparator closure not found"
            if ok:
                cmps = [(bb2, t2) for bb2, t2 in c.calls() if short(callee_def(t2)) in ("cmp", "partial_cmp")]
                ok = len(cmps) == 1 and len(list(c.calls())) <= 3
                detail = "comparator is not a single cmp"
                if ok:
                    t2 = cmps[0][1]
                    a0, a1 = q.arith(c, t2["args"][0]), q.arith(c, t2["args"][1])
                    p2, p3 = c.local_name(2) or "arg2", c.local_name(3) or "arg3"
                    ok = key_tree_ok(P, c, a0, p2, bodies) and key_tree_ok(P, c, a1, p3, bodies)
                    detail = "comparator is cmp(%s, %s): not ascending path length" % (q.arith_str(a0), q.arith_str(a1))
        else:
            ok = False
            detail = "sorted by the documents' own order (%s), not by path length" % m
    chk.require(ok, R_SEL, "select_impl|stable sort by path length, shortest first", b.loc(sbb) if sbb is not None else b.loc(), detail,
                "matched.sort_by_key(|x| path length)")
    # (c) left fold with merge(accumulated, next)
    folds = [(bb, t, short(callee_def(t))) for bb, t in b.calls() if short(callee_def(t)) in ("fold", "reduce", "try_fold", "rfold", "for_each")
             and t["args"] and any(r.kind == "call" and r.site == cbb
                                   for cn, r in q.chains(b, t["args"][0], stop=lambda r: r.kind == "call" and r.site == cbb))]
    ok = len(folds) == 1 and folds[0][2] in ("fold", "reduce")
    detail = "the sorted documents are consumed by %s" % [f[2] for f in folds]
    if ok:
        fbb, ft, m = folds[0]
        # between the sorted vector and the fold (what selected the documents before the collect is rule (a)'s matter)
        names = [short(n) for cn, r in q.chains(b, ft["args"][0], stop=lambda r: r.kind == "call" and r.site == cbb) for n in cn]
        bad = set(names) & {"rev", "skip", "take", "step_by", "filter", "skip_while", "take_while", "peekable", "chain"}
        ok = not bad and (sbb is None or b.must_pass_block(fbb, sbb))
        detail = "fold input goes through %s / is not preceded by the sort" % sorted(bad)
        if ok:
            fop = ft["args"][-1]
            c = closure_of_operand(P, b, fop)
            if fop.get("k") == "const" and fop.get("fn") and norm(fop.get("fn_resolved") or fop["fn"]) == MERGE and m == "reduce":
                ok = True
            elif c is None:
                ok = False
                detail = "fold function not found"
            else:
                chk.analysed(c)
                mc = [(bb2, t2) for bb2, t2 in c.calls() if MERGE in callee_names(t2)]
                ok = len(mc) == 1
                detail = "fold closure does not call merge exactly once"
                if ok:
                    t2 = mc[0][1]
                    recv = prov(c, t2["args"][0])
                    arg = prov(c, t2["args"][1])
                    acc_name = c.local_name(2) or "arg2"
                    item_name = c.local_name(3) or "arg3"
                    ok = bool(recv) and all(r.kind == "param" and r.name.split(":", 1)[1] == acc_name for r in recv) and \
                        bool(arg) and all(r.kind == "param" and r.name.split(":", 1)[1] == item_name for r in arg)
                    detail = "merge(%s, %s): the accumulated configuration must be the receiver" % (
                        sorted(mir.show_root(r) for r in recv), sorted(mir.show_root(r) for r in arg))
                    # first document starts the fold unchanged
                    if ok and m == "fold":
                        init_none = ft["args"][1]
                        firsts = [bb2 for bb2, v, rv in q.ok_err_assignments(c) if v == "Some"]
                        ok = len(firsts) >= 2
                        detail = "fold closure does not return Some on both arms"
    chk.require(ok, R_SEL, "select_impl|left fold: accumulated.merge(next)", b.loc(), detail, "fold(None, |acc, x| acc.merge(x))")


# --------------------------------------------------------------------------- extractor

def underlying_local(b, operand):
    return q.named_local(b, operand)


def rules_in_order(P, chk):
    b = P.body(XEXTRACT)
    chk.analysed(b)
    calls = [(bb, t) for bb, t in b.calls() if REXTRACT in callee_names(t)]
    cl = None
    if not calls:
        # fold form: the rule call sits in a closure
        for c in P.closures_of(XEXTRACT):
            cc = [(bb, t) for bb, t in c.calls() if REXTRACT in callee_names(t)]
            if cc:
                cl = c
                calls = cc
    if len(calls) != 1:
        chk.anchor_missing("Extractor::extract: expected one call of ExtractRule::extract, found %d" % len(calls))
        return
    body = cl or b
    chk.analysed(body)
    rbb, rt = calls[0]
    if cl is None:
        loops = b.loops()
        inl = [h for h, blks in loops.items() if rbb in blks]
        ok = len(inl) == 1
        detail = "the rule is not applied inside exactly one loop"
        if ok:
            nexts = [(bb, b.term(bb)) for bb in loops[inl[0]] if b.term(bb)["k"] == "call" and callee_def(b.term(bb)) == "std::iter::Iterator::next"]
            ok = len(nexts) == 1
            if ok:
                names = [short(n) for cn, r in q.chains(b, nexts[0][1]["args"][0]) for n in cn]
                roots = [r for cn, r in q.chains(b, nexts[0][1]["args"][0])]
                bad = set(names) & {"rev", "skip", "take", "step_by", "filter", "skip_while", "take_while", "filter_map", "chain", "rchunks"}
                ok = not bad and bool(roots) and all(is_p(r, "self", ("rules",)) for r in roots)
                detail = "rules are traversed through %s from %s" % (names, sorted(mir.show_root(r) for r in roots))
                ok = ok and q.all_roots(b, rt["args"][0], lambda r: r.kind == "call" and r.site == nexts[0][0])
        chk.require(ok, R_RULES, "Extractor::extract|every rule, front to back", b.loc(rbb), detail, "for rule in &self.rules")
        # running fragment in, merged back into the same fragment, which is returned
        fl = underlying_local(b, rt["args"][1])
        ret = underlying_local(b, {"k": "copy", "place": {"l": 0, "p": []}})
        d0 = [d for d in b.defs().get(0, []) if not d[3]["p"]]
        retl = None
        if len(d0) == 1 and d0[0][0] == "assign" and d0[0][4]["k"] == "use":
            retl = underlying_local(b, d0[0][4]["op"])
        merges = []
        for bb, t in b.calls():
            if ADDASSIGN in callee_names(t) and underlying_local(b, t["args"][0]) == fl and \
                    q.all_roots(b, t["args"][1], lambda r: r.kind == "call" and r.site == rbb):
                merges.append(bb)
        for dk, dbb, di, dpl, payload in b.defs().get(fl if fl is not None else -1, []):
            if dk == "assign" and not dpl["p"] and payload["k"] == "use" and q.all_roots(b, payload["op"], lambda r: r.kind == "call" and r.site == rbb):
                merges.append(dbb)
        some_edge = False
        for mb in merges:
            for roots, labs in q.variant_guards(b, mb):
                if labs == ("Some",) and any(r.kind == "call" and r.site == rbb for r in roots):
                    some_edge = True
        ok = fl is not None and fl == retl and bool(merges) and some_edge
        chk.require(ok, R_RULES, "Extractor::extract|each rule sees the running fragment and its result is merged into it", b.loc(rbb),
                    "rule input local=%s, returned local=%s, merge-back sites=%d (on the Some edge=%s)"
                    % (b.local_name(fl) if fl is not None else None, b.local_name(retl) if retl is not None else None, len(merges), some_edge),
                    "rule.extract(fragment.clone(), e) -> fragment += updated")
    else:
        # fold form: closure(acc, rule) must pass acc in and return the updated value or acc
        folds = [(bb, t) for bb, t in b.calls() if short(callee_def(t)) == "fold"]
        ok = len(folds) == 1
        detail = "rule closure not driven by a single fold"
        if ok:
            names = [short(n) for cn, r in q.chains(b, folds[0][1]["args"][0]) for n in cn]
            roots = [r for cn, r in q.chains(b, folds[0][1]["args"][0])]
            bad = set(names) & {"rev", "skip", "take", "step_by", "filter", "skip_while", "take_while", "filter_map", "chain"}
            ok = not bad and bool(roots) and all(is_p(r, "self", ("rules",)) for r in roots)
            detail = "rules are traversed through %s" % names
        chk.require(ok, R_RULES, "Extractor::extract|every rule, front to back", b.loc(), detail, "self.rules.iter().fold(..)")
        accn = cl.local_name(2) or "arg2"
        okin = q.all_roots(cl, rt["args"][1], lambda r: r.kind == "param" and r.name.split(":", 1)[1] == accn)
        rs0 = prov(cl, {"l": 0, "p": []})
        okout = bool(rs0) and all((r.kind == "call" and r.site is not None and short(r.name) in ("unwrap_or", "unwrap_or_else"))
                                  or (r.kind == "param" and r.name.split(":", 1)[1] == accn) for r in rs0)
        chk.require(okin and okout, R_RULES, "Extractor::extract|each rule sees the running fragment and its result is merged into it", cl.loc(rbb),
                    "fold closure passes the accumulator=%s, returns updated-or-accumulator=%s" % (okin, okout), "fold(acc, rule) -> rule.extract(acc).unwrap_or(acc)")
        # in this form nothing merges field by field, so the rule itself must carry `cleared` and `account` over:
        chk.note("fold form: the carried-over fields are checked by the cleared table and account store rules")


def fragment_precedence(P, chk):
    # Fragment += other
    b = P.body(ADDASSIGN)
    chk.analysed(b)
    stores = field_stores(b, FRAG)
    for f in ("payee", "account", "code"):
        ss = stores.get(f, [])
        ok = len(ss) == 1
        detail = "%d store(s)" % len(ss)
        if ok:
            bb, rv = ss[0]
            pr = opt_or_fields(b, rv["op"]) if rv["k"] == "use" else None
            ok = pr is not None and all(is_p(r, "other", (f,)) for r in pr[0]) and all(is_p(r, "self", (f,)) for r in pr[1]) and bool(pr[0]) and bool(pr[1])
            detail = "self.%s = %s" % (f, mir.prov_strs(b, rv["op"]) if rv["k"] == "use" else rv["k"])
            if pr is not None and not ok:
                detail = "self.%s = Option::or(%s, %s)" % (f, sorted(mir.show_root(r) for r in pr[0]), sorted(mir.show_root(r) for r in pr[1]))
        chk.require(ok, R_FRAG, "Fragment+=|%s: later Some wins" % f, b.loc(), detail, "other.%s.or(self.%s)" % (f, f))
    # conversion: replaced when other has one
    ss = stores.get("conversion", [])
    ok = bool(ss)
    for bb, rv in ss:
        if rv["k"] == "use":
            pr = opt_or_fields(b, rv["op"])
            if pr is not None:
                ok = ok and all(is_p(r, "other", ("conversion",)) for r in pr[0])
                continue
        if rv["k"] == "use" and rv["op"].get("k") in ("copy", "move") and not rv["op"]["place"]["p"]:
            d = mir.single_def(b, rv["op"]["place"]["l"])
            if d is not None and d[0] == "assign" and d[4]["k"] == "aggregate":
                rv = d[4]
        if rv["k"] == "aggregate" and rv.get("variant") == "Some":
            src = prov(b, rv["fields"][0]["op"])
            g = any(labs == ("Some",) and any(is_p(r, "other", ("conversion",)) for r in roots) for roots, labs in q.variant_guards(b, bb))
            ok = ok and g and all(is_p(r, "other") and r.fields[:1] == ("conversion",) for r in src)
        else:
            ok = False
    chk.require(ok, R_FRAG, "Fragment+=|conversion: later Some wins", b.loc(), "conversion stores: %s" % [rv["k"] for bb, rv in ss], "if let Some(c) = other.conversion")
    # cleared: or of both
    ss = stores.get("cleared", [])
    ok = len(ss) == 1
    detail = "%d store(s) to cleared" % len(ss)
    if ok:
        bb, rv = ss[0]

        def sym(r):
            if is_p(r, "other", ("cleared",)):
                return "other"
            if is_p(r, "self", ("cleared",)):
                return "self"
            return None
        bad = []
        for o in (False, True):
            for s in (False, True):
                try:
                    v = tables.eval_rvalue(b, rv, {"other": o, "self": s}, sym)
                except tables.Unknown as e:
                    bad.append("not interpretable: %s" % e)
                    break
                if v != (o or s):
                    bad.append("other=%s self=%s -> %s" % (o, s, v))
        ok = not bad
        detail = "; ".join(bad[:2])
    chk.require(ok, R_CLR, "Fragment+=|cleared = other.cleared || self.cleared", b.loc(), detail, "4 cases")
    chk.add_paths(4)
    # Fragment + Matched
    a = P.body(ADDM)
    chk.analysed(a)
    aggs = [x for x in q.aggregates_of(P, FRAG) if x[0].key == ADDM]
    ok = len(aggs) == 1
    if ok:
        rv = aggs[0][3]
        fields = {f["name"]: f["op"] for f in rv["fields"]}
        for f in ("payee", "code"):
            pr = opt_or_fields(a, fields[f])
            okf = pr is not None and bool(pr[0]) and all(is_p(r, "rhs", (f,)) for r in pr[0]) and bool(pr[1]) and all(is_p(r, "self", (f,)) for r in pr[1])
            chk.require(okf, R_FRAG, "Fragment+Matched|%s: capture wins over the running value" % f, a.loc(),
                        "%s = %s" % (f, mir.prov_strs(a, fields[f])), "rhs.%s.or(self.%s)" % (f, f))
        for f in ("cleared", "account", "conversion"):
            okf = q.all_roots(a, fields[f], lambda r, f=f: is_p(r, "self", (f,)))
            chk.require(okf, R_FRAG, "Fragment+Matched|%s carried over" % f, a.loc(), "%s = %s" % (f, mir.prov_strs(a, fields[f])), "..self")
    else:
        chk.fail(R_FRAG, "Fragment+Matched|one aggregate", a.loc(), "expected one Fragment aggregate")


def synth(rv):
    raise tables.Unknown("store is not a plain use")


def field_stores(b, adt):
    """field name -> [(bb, rvalue)] of assignments whose place ends in a field of `adt`"""
    out = {}
    for i in sorted(b.live_blocks()):
        for st in b.blocks[i]["stmts"]:
            if st["k"] != "assign":
                continue
            pr = st["place"]["p"]
            if pr and pr[-1]["k"] == "field" and norm(pr[-1].get("adt") or "") == adt:
                out.setdefault(pr[-1]["name"], []).append((i, st["rv"]))
            # a struct literal `Adt { f: x, .. }` stores every field at once
            rv = st["rv"]
            if rv["k"] == "aggregate" and rv.get("agg") == "adt" and norm(rv.get("adt") or "") == adt:
                for f in rv["fields"]:
                    out.setdefault(f["name"], []).append((i, {"k": "use", "op": f["op"]}))
    return out


def extract_rule(P, chk):
    bodies = P.with_closures(REXTRACT)
    for x in bodies:
        chk.analysed(x)
    c = None
    for x in bodies:
        if field_stores(x, FRAG):
            c = x
    if c is None:
        chk.anchor_missing("ExtractRule::extract: no body storing to a Fragment field")
        return
    stores = field_stores(c, FRAG)

    def is_self(r, f):
        return (r.kind == "capture" and r.name == "self" and tuple(r.fields) == (f,)) or is_p(r, "self", (f,))

    def is_cur(r, f):
        # the matched fragment: the update closure's argument, or (written in line) the payload of match_expr.extract(..)?
        if r.kind == "call" and str(r.name).endswith("MatchOrExpr::extract") and tuple(r.fields[-1:]) == (f,):
            return True
        return r.kind == "param" and tuple(r.fields) == (f,) and not is_p(r, "self")
    # payee: rule's payee wins over captured / running payee
    ss = stores.get("payee", [])
    ok = len(ss) == 1
    detail = "%d store(s)" % len(ss)
    if ok:
        pr = opt_or_fields(c, ss[0][1]["op"]) if ss[0][1]["k"] == "use" else None
        ok = pr is not None and bool(pr[0]) and all(is_self(r, "payee") for r in pr[0]) and bool(pr[1]) and all(is_cur(r, "payee") for r in pr[1])
        detail = "payee = %s" % (mir.prov_strs(c, ss[0][1]["op"]) if ss[0][1]["k"] == "use" else ss[0][1]["k"])
    chk.require(ok, R_FRAG, "ExtractRule|payee: the rule's payee wins over captures", c.loc(), detail, "self.payee.or(current.payee)")
    # account: the rule's account is stored
    ss = stores.get("account", [])
    ok = len(ss) == 1 and ss[0][1]["k"] == "use" and q.all_roots(c, ss[0][1]["op"], lambda r: is_self(r, "account"))
    acc_uncond = ok and c.must_pass_block(c.return_blocks()[0], ss[0][0]) if ss and c.return_blocks() else False
    if ok and not acc_uncond:
        # written in line after `let matched = ..?;`: every path that produces a fragment stores the account
        somes = [bb_ for bb_, v_, rv_ in q.ok_err_assignments(c) if v_ == "Some"]
        acc_uncond = bool(somes) and all(bb_ == ss[0][0] or c.must_pass_block(bb_, ss[0][0]) for bb_ in somes)
    acc_gated = False
    if ok and not acc_uncond:
        acc_gated = any(cn == "std::option::Option::is_some" and lab is True and q.all_roots(c, ct["args"][0], lambda r: is_self(r, "account"))
                        for cn, lab, ct in q.guard_calls(c, ss[0][0]))
    chk.require(ok and (acc_uncond or acc_gated), R_FRAG, "ExtractRule|account: the rule's account replaces the running one", c.loc(),
                "account stores: %s" % [mir.prov_strs(c, rv["op"]) if rv["k"] == "use" else rv["k"] for bb, rv in ss], "current.account = self.account")
    # cleared table: over (cleared before, rule pending, rule assigns an account), judged path by path on straight-line
    # copies of the update, so that it does not matter whether the update is a guarded field store or one expression
    ss = stores.get("cleared", [])

    def sym(r):
        if is_cur(r, "cleared"):
            return "old"
        if is_self(r, "pending"):
            return "pending"
        return None

    def acc_atom(body, a):
        """True when the atom tests is_some() of the account the rule assigns"""
        if a.kind != "call" or short(a.subject[0]) not in ("is_some", "is_none"):
            return False
        rs = set()
        for x in a.subject[1][:1]:
            rs |= set(x)
        if rs and all(is_self(r, "account") for r in rs):
            return True
        return bool(rs) and all(is_cur(r, "account") for r in rs) and acc_uncond
    bad_tab, bad_gate = [], []
    returns_option = str(c.local_ty(0)).startswith(("std::option::Option<", "core::option::Option<"))
    try:
        paths = mir.enumerate_paths(c, limit=4000)
    except mir.TooManyPaths:
        paths = None
        bad_tab.append("update not analysable: too many paths")
    n_cases = 0
    for old in (False, True) if paths is not None else ():
        for pend in (False, True):
            for acc in (False, True):
                env = {"old": old, "pending": pend}
                want = (old or not pend) if acc else old
                vals = set()
                for p in paths:
                    okp = True
                    for a in p.atoms:
                        if a.kind == "bool" or a.kind == "int":
                            ssym = set(sym(r) for r in a.subject)
                            if len(ssym) == 1 and None not in ssym:
                                if env[ssym.pop()] not in a.label:
                                    okp = False
                        elif acc_atom(c, a):
                            v = acc if short(a.subject[0]) == "is_some" else (not acc)
                            if v not in a.label:
                                okp = False
                    if not okp:
                        continue
                    if returns_option and not (p.shape and p.shape[0] == "assign" and p.shape[2].get("k") == "aggregate"
                                               and p.shape[2].get("variant") == "Some"):
                        continue        # `?` on a rule that did not match: no fragment is produced on this path
                    pb = mir.path_body(c, p.blocks)
                    st = field_stores(pb, FRAG).get("cleared", [])
                    try:
                        vals.add(tables.eval_rvalue(pb, st[-1][1], env, sym) if st else old)
                    except tables.Unknown as e:
                        vals.add("not interpretable: %s" % e)
                n_cases += 1
                if vals != {want}:
                    msg = "cleared-before=%s, rule pending=%s, rule assigns an account=%s -> cleared=%s (specified %s)" % (
                        old, pend, acc, sorted(map(str, vals)), want)
                    (bad_tab if acc else bad_gate).append(msg)
    chk.add_paths(n_cases)
    ok = bool(ss) and not bad_tab
    detail = "; ".join(bad_tab[:2]) or "%d store(s) to cleared" % len(ss)
    sbb = ss[0][0] if ss else None
    chk.require(bool(ss) and not bad_gate, R_CLR, "ExtractRule|cleared changes only for account-assigning rules", c.loc(sbb) if ss else c.loc(),
                "; ".join(bad_gate[:2]) or "no store to cleared", "unchanged when the rule assigns no account (4 cases)")
    chk.require(ok, R_CLR, "ExtractRule|cleared = cleared || !pending", c.loc(), detail, "4 cases (cleared-before x pending) for account-assigning rules, exhaustive")
    # result of the matcher is what gets updated; None stays None
    r = P.body(REXTRACT)
    ms = [(bb, t) for bb, t in r.calls() if OREX in callee_names(t)]
    ok = len(ms) == 1 and q.all_roots(r, ms[0][1]["args"][1], lambda x: is_p(x, "current"))
    rs0 = prov(r, {"l": 0, "p": []})
    by_map = bool(rs0) and all(x.kind == "call" and x.name == "std::option::Option::map" for x in rs0)
    # or: `let matched = self.match_expr.extract(..)?; Some(Fragment{..})` - None is handed on by `?`, Some only after it
    by_try = False
    if ms and not by_map:
        mbb = ms[0][0]
        somes = [bb_ for bb_, v_, rv_ in q.ok_err_assignments(r) if v_ == "Some"]
        others = [v_ for bb_, v_, rv_ in q.ok_err_assignments(r) if v_ not in ("Some",) and not v_.endswith("from_residual")]
        tried = [bb_ for bb_, t_ in r.calls() if (callee_def(t_) or "").endswith("Try::branch") and
                 q.all_roots(r, t_["args"][0], lambda x: x.kind == "call" and x.site == mbb)]
        by_try = bool(somes) and not others and len(tried) == 1 and all(r.must_pass_block(bb_, tried[0]) for bb_ in somes)
    ok = ok and (by_map or by_try)
    chk.require(ok, R_RULES, "ExtractRule|matches first, updates only a match", r.loc(), "result is %s" % sorted(mir.show_root(x) for x in rs0),
                "self.match_expr.extract(current, entity).map(update)")


def _list_loop(b):
    """(blocks, next bb) of the single loop that walks self.0 front to back without skipping anything; None otherwise"""
    found = []
    for h, blks in b.loops().items():
        for x in blks:
            t = b.term(x)
            if t["k"] == "call" and callee_def(t) == "std::iter::Iterator::next":
                cs = q.chains(b, t["args"][0])
                chain = [short(n) for cn, r in cs for n in cn]
                if cs and all(is_p(r, "self", ("0",)) for cn, r in cs) and \
                        not set(chain) & {"rev", "skip", "take", "filter", "step_by", "filter_map", "skip_while", "take_while", "peekable"}:
                    found.append((blks, x))
    return found[0] if len(found) == 1 else None


def _or_loop(chk, o, lo):
    """for e in &self.0 { if let Some(x) = e.extract(..) { return Some(x) } } None"""
    blks, nx = lo
    exs = [(bb, t) for bb, t in o.calls() if short(callee_def(t)) == "extract" and bb in blks]
    ok = len(exs) == 1 and q.all_roots(o, exs[0][1]["args"][0], lambda r: r.kind == "call" and r.site == nx)
    detail = "the loop does not try element.extract(..) exactly once per element"
    if ok:
        ebb = exs[0][0]
        somes = nones = 0
        for bb, v, rv in q.ok_err_assignments(o):
            if v == "Some":
                somes += 1
                hit = q.all_roots(o, rv["fields"][0]["op"], lambda r: r.kind == "call" and r.site == ebb)
                g = any(labs == ("Some",) and any(r.kind == "call" and r.site == ebb for r in roots) for roots, labs in q.variant_guards(o, bb))
                if not (hit and g):
                    ok = False
                    detail = "a Some result is not the first element's successful extraction"
            elif v == "None":
                nones += 1
                g = any(labs == ("None",) and any(r.kind == "call" and r.site == nx for r in roots) for roots, labs in q.variant_guards(o, bb))
                if not g:
                    ok = False
                    detail = "None is returned before every element was tried"
            else:
                ok = False
                detail = "result written by %s" % v
        ok = ok and somes >= 1 and nones >= 1
        # a failed extraction goes on to the next element
        for roots, tb in [(r_, t_) for (sb, t_, kind, r_, labs) in q.switch_edges(o) if kind == "variant" and tuple(labs) == ("None",)
                          and any(r.kind == "call" and r.site == ebb for r in r_)]:
            if nx not in o.reach_from(tb):
                ok = False
                detail = "a failed extraction does not go on to the next element"
    chk.require(ok, R_LIST, "MatchOrExpr::extract|matches if any element matches (first match)", o.loc(), detail,
                "for e in &self.0 { if let Some(x) = e.extract(..) { return Some(x) } } None")
    chk.require(ok, R_LIST, "MatchOrExpr::extract|over all elements in order", o.loc(nx), detail, "self.0 front to back")


def _and_loop(chk, a, la):
    """let mut f = current; for m in &self.0 { let x = m.captures(&f, entity)?; f = f + x; } Some(f)"""
    blks, nx = la
    caps = [(bb, t) for bb, t in a.calls() if short(callee_def(t)) == "captures" and bb in blks]
    adds = [(bb, t) for bb, t in a.calls() if callee_def(t) == "std::ops::Add::add" and bb in blks]
    ok = len(caps) == 1 and len(adds) == 1
    detail = "the loop does not call captures once and add its result once per element"
    if ok:
        cbb, ct = caps[0]
        abb, at = adds[0]

        def is_frag(r):
            return is_p(r, "current") or (r.kind == "call" and r.site == abb)
        ok = q.all_roots(a, ct["args"][0], lambda r: r.kind == "call" and r.site == nx) and \
            q.all_roots(a, ct["args"][1], is_frag) and q.all_roots(a, at["args"][0], is_frag) and \
            q.all_roots(a, at["args"][1], lambda r: r.kind == "call" and r.site == cbb)
        detail = "fold step is not fragment = fragment + matcher.captures(&fragment, entity)?"
        somes = 0
        for bb, v, rv in q.ok_err_assignments(a):
            if v == "Some":
                somes += 1
                g = any(labs == ("None",) and any(r.kind == "call" and r.site == nx for r in roots) for roots, labs in q.variant_guards(a, bb))
                if not (g and q.all_roots(a, rv["fields"][0]["op"], is_frag)):
                    ok = False
                    detail = "Some is returned before every matcher was applied, or not with the accumulated fragment"
            elif v == "None":
                g = any(labs == ("None",) and any(r.kind == "call" and r.site == cbb for r in roots) for roots, labs in q.variant_guards(a, bb))
                ok = ok and g
            elif v.startswith("call:") and v.endswith("from_residual"):
                pass
            else:
                ok = False
                detail = "result written by %s" % v
        ok = ok and somes >= 1
        # a matcher that does not match ends the function: from the None outcome of captures the add is unreachable
        for (sb, tb, kind, roots, labs) in q.switch_edges(a):
            if kind == "variant" and set(labs) & {"None", "Break"} and any(
                    r.kind == "call" and (r.site == cbb or (r.site is not None and short(r.name) == "branch" and
                                                             q.all_roots(a, a.term(r.site)["args"][0], lambda x: x.kind == "call" and x.site == cbb)))
                    for r in roots):
                if abb in a.reach_from(tb) or nx in a.reach_from(tb):
                    ok = False
                    detail = "a non-matching field does not end the fold"
    chk.require(ok, R_LIST, "MatchAndExpr::extract|matches only if every field matches", a.loc(), detail, "every matcher must capture")
    chk.require(ok, R_LIST, "MatchAndExpr::extract|threads the fragment through all matchers", a.loc(nx), detail, "fragment threaded through self.0 in order")
    chk.require(ok, R_LIST, "MatchAndExpr::extract|a non-matching field ends the fold with None", a.loc(nx), detail, "captures(..)? ends with None")


def list_semantics(P, chk):
    o = P.body(OREX)
    a = P.body(ANDEX)
    chk.analysed(o, a)
    ANY = {"find_map", "any", "find"}
    ALL = {"try_fold", "all"}
    rs = prov(o, {"l": 0, "p": []})
    names = set(short(r.name) for r in rs if r.kind == "call")
    lo = _list_loop(o)
    if lo is not None and not (names & ANY):
        _or_loop(chk, o, lo)
        names = None
    ok = names is None or (bool(rs) and names <= ANY | {"next"} and bool(names))
    if names is None:
        pass
    elif "next" in names:
        chain = [short(n) for cn, r in q.chains(o, {"l": 0, "p": []}) for n in cn]
        ok = ok and "filter_map" in chain and not set(chain) & {"rev", "last", "skip"}
    if names is not None:
        chk.require(ok, R_LIST, "MatchOrExpr::extract|matches if any element matches (first match)", o.loc(),
                    "OR-list is consumed by %s" % sorted(names), "find_map")
    if ok and names is not None:
        for r in rs:
            if r.site is not None:
                chain = [short(n) for cn, x in q.chains(o, o.term(r.site)["args"][0]) for n in cn]
                roots = [x for cn, x in q.chains(o, o.term(r.site)["args"][0])]
                okc = not set(chain) & {"rev", "skip", "take", "filter", "step_by"} and all(is_p(x, "self", ("0",)) for x in roots)
                chk.require(okc, R_LIST, "MatchOrExpr::extract|over all elements in order", o.loc(r.site), "through %s" % chain, "self.0.iter()")
    rs = prov(a, {"l": 0, "p": []})
    names = set(short(r.name) for r in rs if r.kind == "call")
    la = _list_loop(a)
    if la is not None and not (names & ALL):
        _and_loop(chk, a, la)
        return
    ok = bool(rs) and names <= ALL and bool(names)
    chk.require(ok, R_LIST, "MatchAndExpr::extract|matches only if every field matches", a.loc(),
                "AND-list is consumed by %s" % sorted(names), "try_fold")
    if ok and "try_fold" in names:
        for r in rs:
            t = a.term(r.site)
            chain = [short(n) for cn, x in q.chains(a, t["args"][0]) for n in cn]
            roots = [x for cn, x in q.chains(a, t["args"][0])]
            okc = not set(chain) & {"rev", "skip", "take", "filter", "step_by"} and all(is_p(x, "self", ("0",)) for x in roots)
            init_ok = q.all_roots(a, t["args"][1], lambda x: is_p(x, "current"))
            chk.require(okc and init_ok, R_LIST, "MatchAndExpr::extract|threads the fragment through all matchers", a.loc(r.site),
                        "through %s, initial=%s" % (chain, mir.prov_strs(a, t["args"][1])), "self.0.iter().try_fold(current, ..)")
            c = closure_of_operand(P, a, t["args"][2])
            okk = False
            if c is not None:
                chk.analysed(c)
                caps = [(bb, t2) for bb, t2 in c.calls() if short(callee_def(t2)) == "captures"]
                pn = c.local_name(2) or "arg2"
                okk = len(caps) == 1 and q.all_roots(c, caps[0][1]["args"][1], lambda x: x.kind == "param" and x.name.split(":", 1)[1] == pn)
                rs0 = prov(c, {"l": 0, "p": []})
                okk = okk and bool(rs0) and all(x.kind == "call" and short(x.name) in ("map", "and_then") for x in rs0)
            chk.require(okk, R_LIST, "MatchAndExpr::extract|a non-matching field ends the fold with None", a.loc(r.site),
                        "fold step is not matcher.captures(&prev, entity).map(..)", "captures(..).map(|m| prev + m)")


def matchers_payee(P, chk):
    impls = [b for b in P.bodies.values() if b.impl_trait == EX + "::EntityMatcher" and b.key.endswith("::captures") and q.not_test(b)]
    chk.floor("EntityMatcher::captures implementations", len(impls), 3)
    for b in sorted(impls, key=lambda x: x.key):
        bodies = P.with_closures(b.key)
        for x in bodies:
            chk.analysed(x)
        reads = any((FRAG, "payee") in mir.field_reads(x) for x in bodies)
        chk.require(reads, R_PAYEE, "%s|payee matcher reads fragment.payee" % (b.impl_self or b.key), b.loc(),
                    "this matcher never looks at the payee as rewritten by earlier rules", "fragment.payee")


def importers_apply(P, chk):
    sites = []
    for b in P.bodies.values():
        if not q.not_test(b) or not b.key.startswith("okane::import::") and not b.key.startswith("<okane::import::"):
            continue
        for bb, t in b.calls():
            if XEXTRACT in callee_names(t):
                sites.append((b, bb, t))
    chk.add_sites(len(sites))
    chk.floor("call sites of Extractor::extract in the importers", len(sites), 4)
    for n, (b, bb, t) in enumerate(sorted(sites, key=lambda s: (s[0].key, s[1]))):
        chk.analysed(b)
        tag = "%s#%d" % (b.key, n + 1)

        def from_frag(o, f):
            rs = prov(b, o)
            return bool(rs) and all(r.kind == "call" and r.site == bb and tuple(r.fields) == (f,) for r in rs)
        # dest account
        da = [(b2, t2) for b2, t2 in b.calls() if short(callee_def(t2)) in ("dest_account_option", "dest_account")
              and len(t2["args"]) > 1 and from_frag(t2["args"][1], "account")]
        chk.require(bool(da), R_APPLY, "%s|counter account = fragment.account" % tag, b.loc(bb),
                    "fragment.account is not handed to dest_account_option", "txn.dest_account_option(fragment.account)")
        # pending mark under !cleared
        cs = []
        for b2, t2 in b.calls():
            if short(callee_def(t2)) == "clear_state" and "Txn" in (callee_def(t2) or ""):
                rs = prov(b, t2["args"][1])
                if any("Pending" in (r.name or "") for r in rs):
                    g = False
                    for a in mir.guards_at(b, b2):
                        if a.kind == "bool" and a.subject and all(r.kind == "call" and r.site == bb and tuple(r.fields) == ("cleared",) for r in a.subject):
                            if a.label == (False,):
                                g = True
                    cs.append((b2, g))
        mine = [x for x in cs if x[1]]
        chk.require(bool(mine), R_APPLY, "%s|pending exactly when !fragment.cleared" % tag, b.loc(bb),
                    "no clear_state(Pending) behind fragment.cleared == false for this extraction (%d candidate calls)" % len(cs),
                    "if !fragment.cleared { txn.clear_state(Pending) }")


def defaults(P, chk):
    b = P.body(TODE)
    bodies = P.with_closures(TODE)
    chk.analysed(b)
    want = {'"Income:Unknown"': "is_sign_positive", '"Expenses:Unknown"': "is_sign_negative"}
    found = {}
    for bb, t in b.calls():
        if short(callee_def(t)) == "unwrap_or" and len(t["args"]) == 2:
            lit = None
            for r in prov(b, t["args"][1]):
                if r.kind == "const":
                    lit = r.name
            if lit in want:
                recv = q.chains(b, t["args"][0])
                okr = bool(recv) and all(is_p(r, "self", ("dest_account",)) for cn, r in recv)
                sign = [short(cn) for cn, lab, ct in q.guard_calls(b, bb) if lab is True and short(cn) in ("is_sign_positive", "is_sign_negative")]
                neg = [short(cn) for cn, lab, ct in q.guard_calls(b, bb) if lab is False and short(cn) in ("is_sign_positive", "is_sign_negative")]
                found[lit] = (bb, okr, sign, neg)
    for lit, pred in want.items():
        f = found.get(lit)
        ok = f is not None and f[1] and pred in f[2]
        chk.require(ok, R_DEF, "to_double_entry|%s under %s" % (lit.strip('"'), pred), b.loc(f[0]) if f else b.loc(),
                    "default %s: receiver is self.dest_account=%s, sign guards in force=%s" % (lit, f[1] if f else None, f[2] if f else None),
                    "self.dest_account.as_deref().unwrap_or(%s)" % lit)
    # post_clear = the statement's own clear state when it has one, else Uncleared for an assigned account and Pending for
    # an unknown one: a decision table over (clear_state, dest_account), whatever the spelling (unwrap_or(match ..), one
    # tuple match, nested ifs)
    pcl = [i for i, l in enumerate(b.locals) if l["name"] == "post_clear"]
    ok = len(pcl) == 1
    detail = "no post_clear local"
    if ok:
        leaves = []

        def guards(bb):
            g = {}
            for roots, labs in q.variant_guards(b, bb):
                if len(labs) != 1:
                    continue
                if any(is_p(r, "self", ("clear_state",)) for r in roots):
                    g["cs"] = labs[0]
                if any(is_p(r, "self", ("dest_account",)) for r in roots):
                    g["da"] = labs[0]
            return g

        def walk(op, g, depth=0):
            if depth > 6:
                leaves.append((g, "?"))
                return
            if op.get("k") in ("copy", "move") and not op["place"]["p"]:
                ds = [d for d in b.defs().get(op["place"]["l"], []) if not d[3]["p"]]
            else:
                ds = []
            if not ds:
                rs = prov(b, op)
                if rs and all(is_p(r, "self") and r.fields[:1] == ("clear_state",) for r in rs):
                    leaves.append((g, "own"))
                else:
                    leaves.append((g, "?" + ",".join(sorted(mir.show_root(r) for r in rs))))
                return
            for dk, dbb, di, dpl, payload in ds:
                g2 = dict(g)
                g2.update(guards(dbb))
                if dk == "call":
                    if short(callee_def(payload)) == "unwrap_or" and len(payload["args"]) == 2 and \
                            q.all_roots(b, payload["args"][0], lambda r: is_p(r, "self", ("clear_state",))):
                        leaves.append((dict(g2, cs="Some"), "own"))
                        walk(payload["args"][1], dict(g2, cs="None"), depth + 1)
                    else:
                        leaves.append((g2, "?call:" + short(callee_def(payload))))
                elif payload["k"] == "aggregate" and payload.get("variant"):
                    leaves.append((g2, payload["variant"]))
                elif payload["k"] == "use":
                    walk(payload["op"], g2, depth + 1)
                else:
                    leaves.append((g2, "?" + payload["k"]))
        walk({"k": "copy", "place": {"l": pcl[0], "p": []}}, {})
        bad = []
        for cs in ("Some", "None"):
            for da in ("Some", "None"):
                want = "own" if cs == "Some" else ("Uncleared" if da == "Some" else "Pending")
                got = set(v for g, v in leaves if g.get("cs", cs) == cs and g.get("da", da) == da)
                if got != {want}:
                    bad.append("clear_state=%s, dest_account=%s -> %s (specified %s)" % (cs, da, sorted(got), want))
        ok = not bad
        detail = "; ".join(bad[:2])
    chk.require(ok, R_DEF, "to_double_entry|counter posting pending exactly when no account was assigned (unless set)", b.loc(), detail,
                "clear_state.unwrap_or(Some(_) => Uncleared, None => Pending)")
    # the counter postings carry post_clear
    aggs = [x for x in q.aggregates_of(P, "okane_core::syntax::Posting") if x[0].key == TODE]
    n = 0
    for ab, abb, aj, rv in aggs:
        fields = {f["name"]: f["op"] for f in rv["fields"]}
        acct = " ".join(mir.prov_strs(b, fields["account"])) if "account" in fields else ""
        cs = prov(b, fields["clear_state"]) if "clear_state" in fields else set()
        uses_default = any(bb2 in [f[0] for f in found.values()] for bb2 in chain_sites(b, fields.get("account")))
        if uses_default:
            n += 1
            okp = bool(pcl) and (q.named_local(b, fields["clear_state"]) == pcl[0] or
                                 (bool(cs) and all(r.kind == "call" and r.site is not None and b.term(r.site)["dest"]["l"] == pcl[0] for r in cs)))
            chk.require(okp, R_DEF, "to_double_entry|counter posting #%d uses post_clear" % n, b.loc(abb),
                        "clear_state = %s" % sorted(mir.show_root(r) for r in cs), "clear_state: post_clear")
    chk.require(n == 2, R_DEF, "to_double_entry|two counter postings (one per sign)", b.loc(), "%d found" % n, "2")


def chain_sites(b, operand, depth=0, seen=None):
    """call sites reachable backwards from operand through call arguments and base-struct fields"""
    seen = seen if seen is not None else set()
    if operand is None or depth > 8:
        return seen
    for r in prov(b, operand):
        if r.kind == "call" and r.site is not None and r.site not in seen:
            seen.add(r.site)
            for a in b.term(r.site)["args"]:
                chain_sites(b, a, depth + 1, seen)
    return seen


def run(P, chk, tier):
    chk.rule(R_MERGE, "merge: every setting is later.or(earlier); rewrite rules are concatenated earlier-then-later")
    chk.rule(R_SEL, "select: substring match, stable sort by path length, left fold with merge(accumulated, next)")
    chk.rule(R_RULES, "rules apply in list order, each on the running fragment, results merged back")
    chk.rule(R_FRAG, "precedence of payee / code / account / conversion between captures, rule and running fragment")
    chk.rule(R_CLR, "cleared = cleared || !pending, only for account-assigning rules (exhaustive over 4 cases)")
    chk.rule(R_LIST, "OR-list: any element; AND-list: all fields")
    chk.rule(R_PAYEE, "every matcher implementation reads the rewritten payee")
    chk.rule(R_APPLY, "each importer applies fragment.account and marks pending exactly under !cleared")
    chk.rule(R_DEF, "Income:Unknown / Expenses:Unknown by sign; pending default exactly without an assigned account")
    merge_rule(P, chk)
    select_rule(P, chk)
    rules_in_order(P, chk)
    fragment_precedence(P, chk)
    extract_rule(P, chk)
    list_semantics(P, chk)
    matchers_payee(P, chk)
    importers_apply(P, chk)
    defaults(P, chk)
