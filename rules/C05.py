"""C05 — documented syntax is read; formatting preserves meaning and is idempotent (partial)."""
from analysis import mir, q
from analysis.mir import norm, callee, callee_def, callee_names, prov

EXPLANATION = (
    "Static structure rules over the syntax tree types, the printer (Display impls reachable from "
    "WithContext<LedgerEntry>, following format-argument and to_string edges) and the parser (okane_core::parse).  "
    "Printer: every field of every struct and the payload of every variant of the syntax types contained in "
    "LedgerEntry is read by the printer on that variant's own arm (a dropped field or a `Variant(_) => Ok(())` arm is a "
    "violation).  Parser: every variant of every syntax enum is constructed somewhere in the parser (or is the "
    "declared default); every struct literal the parser builds sets each field from parsed input - a field left to a "
    "`::new()` / Default base or to a constant must be tabled; writer/reader agreement of the multi-line text "
    "prefixes: the printer's prefix for a Comment / Note detail ends in a space exactly when the parser's prefix "
    "consumes the following spaces (otherwise every format pass adds a space).  End of file: winnow's bare "
    "line_ending may be referenced only by the two terminators that also accept end of input.  Round-trip equality "
    "of values and idempotence as such are not decided (value level)."
)

SYN = "okane_core::syntax"
ROOT = "<okane_core::syntax::display::WithContext<okane_core::syntax::LedgerEntry<Deco>> as std::fmt::Display>::fmt"
R_PRINT = "E8.printer-reads-every-field"
R_PARSE = "E8.parser-builds-every-variant"
R_DEFAULT = "E8.no-silent-default"
R_PREFIX = "E8.prefix-agreement"
R_EOF = "E6.eof-terminators"

# syntax types that are not part of the printed tree
NOT_TREE = (SYN + "::display::", SYN + "::tracked::", SYN + "::plain::", SYN + "::decoration::")
SKIP_ADT = {SYN + "::expr::BinaryOpIter", SYN + "::pretty_decimal::Error", SYN + "::PriceDBEntry"}

# fields the parser may leave to a base / constant, with the reason
ALLOWED_DEFAULT = {
    ("okane_core::parse::posting::posting", "Posting", "amount"): "posting with nothing after the account (only reached behind has_peek(line_ending_or_semi))",
    ("okane_core::parse::posting::posting", "Posting", "balance"): "same shortcut posting",
}
# variants that are never parsed because they are the value of an absent mark
DEFAULT_VARIANTS = {(SYN + "::ClearState", "Uncleared"): "absence of a mark (opt(..).unwrap_or_default)",
                    (SYN + "::expr::ValueExpr", "Paren"): None}


def short(n):
    return (n or "?").rsplit("::", 1)[-1]


def tmatch(a, b):
    """loose type equality: identifiers without `::` (type parameters) match anything"""
    import re
    ta = re.findall(r"[A-Za-z_][A-Za-z0-9_:]*|[<>,&()\[\]]", a.replace(" ", ""))
    tb = re.findall(r"[A-Za-z_][A-Za-z0-9_:]*|[<>,&()\[\]]", b.replace(" ", ""))
    i = j = 0

    def skip_group(ts, k):
        # skip one type term starting at k (identifier possibly followed by <...>)
        k += 1
        if k < len(ts) and ts[k] == "<":
            d = 0
            while k < len(ts):
                if ts[k] == "<":
                    d += 1
                elif ts[k] == ">":
                    d -= 1
                    if d == 0:
                        k += 1
                        break
                k += 1
        return k
    while i < len(ta) and j < len(tb):
        x, y = ta[i], tb[j]
        xp = x[0].isalpha() and "::" not in x and x not in ("str", "bool", "usize", "u8", "u32", "i128", "char", "dyn", "mut")
        yp = y[0].isalpha() and "::" not in y and y not in ("str", "bool", "usize", "u8", "u32", "i128", "char", "dyn", "mut")
        if xp or yp:
            i = skip_group(ta, i)
            j = skip_group(tb, j)
            continue
        if x != y:
            return False
        i += 1
        j += 1
    return i == len(ta) and j == len(tb)


def display_impls(P):
    out = []
    for b in P.bodies.values():
        if b.impl_trait == "std::fmt::Display" and b.key.endswith("::fmt") and not b.is_closure and b.crate == "okane_core" and q.not_test(b):
            out.append(b)
    return out


def printer_closure(P):
    """bodies reachable from the LedgerEntry printer through calls, function values, format arguments
    (Argument::new_display::<T>) and to_string receivers"""
    impls = display_impls(P)
    aligned = [b for b in P.bodies.values() if b.key.endswith("::fmt_with_alignment") and b.crate == "okane_core"]
    g = P.callgraph()
    seen = set()
    work = [ROOT]
    while work:
        k = work.pop()
        if k in seen or k not in P.bodies:
            continue
        seen.add(k)
        b = P.bodies[k]
        for n in g.get(k, ()):
            if n in P.bodies and P.bodies[n].crate == "okane_core":
                work.append(n)
        for c in P.closures_of(k):
            work.append(c.key)
        for bb, t in b.calls(live_only=False):
            cd = callee_def(t) or ""
            ty = None
            if short(cd) in ("new_display", "new_debug") and "fmt::rt::Argument" in cd:
                w = mir.callee_written(t)
                if "::<" in (t["f"].get("written") or ""):
                    ty = norm(t["f"]["written"].split("new_display::<", 1)[-1][:-1]) if "new_display::<" in t["f"]["written"] else None
            elif short(cd) == "to_string" and t["args"] and t["args"][0].get("k") in ("copy", "move"):
                ty = b.local_ty(t["args"][0]["place"]["l"])
            if ty:
                ty = ty.lstrip("&")
                while ty.startswith("&"):
                    ty = ty[1:]
                for ib in impls:
                    if ib.impl_self and tmatch(norm(ib.impl_self), ty):
                        work.append(ib.key)
            if short(cd) == "fmt_with_alignment":
                for ab in aligned:
                    work.append(ab.key)
    return [P.bodies[k] for k in sorted(seen)]


def tree_adts(P):
    """syntax ADTs contained (by field types) in LedgerEntry"""
    names = [k for k in P.adts if k.startswith(SYN + "::") and not k.startswith(NOT_TREE) and k not in SKIP_ADT]
    seen = set()
    work = [SYN + "::LedgerEntry"]
    while work:
        k = work.pop()
        if k in seen or k not in P.adts:
            continue
        seen.add(k)
        for v in P.adts[k]["variants"]:
            for f in v["fields"]:
                ty = norm(f["ty"])
                for n in names:
                    if n in ty and n not in seen:
                        # avoid prefix clashes (Posting vs PostingAmount)
                        import re
                        if re.search(re.escape(n) + r"(?![A-Za-z0-9_])", ty):
                            work.append(n)
    return sorted(seen)


def field_reads_by_variant(body):
    """{(adt, variant|None, field)} read anywhere in the body"""
    out = set()

    def visit(p):
        var = None
        for e in p["p"]:
            if e["k"] == "downcast":
                var = e.get("variant")
            elif e["k"] == "field":
                if e.get("adt"):
                    out.add((norm(e["adt"]), var, e["name"]))
                var = None
            else:
                var = None
    for blk in body.blocks:
        if blk["cleanup"]:
            continue
        for st in blk["stmts"]:
            if st["k"] != "assign":
                continue
            rv = st["rv"]
            for o in mir.rvalue_operands(rv):
                if o.get("k") in ("copy", "move"):
                    visit(o["place"])
            if rv["k"] in ("ref", "copyforderef", "discriminant", "rawptr"):
                visit(rv["place"])
        t = blk["term"]
        if t["k"] == "call":
            for a in t["args"]:
                if a.get("k") in ("copy", "move"):
                    visit(a["place"])
        elif t["k"] == "switch" and t["discr"].get("k") in ("copy", "move"):
            visit(t["discr"]["place"])
    return out


def printer_rule(P, chk):
    bodies = printer_closure(P)
    for b in bodies:
        chk.analysed(b)
    chk.floor("bodies in the printer's closure", len(bodies), 20)
    reads = set()
    for b in bodies:
        reads |= field_reads_by_variant(b)
    adts = tree_adts(P)
    chk.floor("syntax types contained in LedgerEntry", len(adts), 22)
    n = 0
    for k in adts:
        a = P.adts[k]
        is_enum = a.get("kind") == "Enum"
        for v in a["variants"]:
            for f in v["fields"]:
                n += 1
                if is_enum:
                    got = (k, v["name"], f["name"]) in reads
                    key = "%s::%s.%s" % (k.replace("okane_core::syntax::", ""), v["name"], f["name"])
                else:
                    got = (k, None, f["name"]) in reads
                    key = "%s.%s" % (k.replace("okane_core::syntax::", ""), f["name"])
                chk.require(got, R_PRINT, key, "core/src/syntax/display.rs",
                            "no Display impl reachable from the entry printer reads this %s: what was parsed into it is dropped by `format`"
                            % ("payload" if is_enum else "field"), "read by the printer")
    chk.floor("fields / payloads of the printed tree", n, 55)


def ctor_refs(P, pred):
    """set of (adt, variant) referenced as constructor functions in bodies satisfying pred"""
    out = set()
    for b in P.bodies.values():
        if not pred(b):
            continue
        for bb, o in b.iter_operands():
            if o.get("k") == "const" and o.get("fn"):
                p = norm(o["fn"])
                if p.startswith(SYN + "::"):
                    head, var = p.rsplit("::", 1)
                    out.add((head, var))
        for bb, t in b.calls(live_only=False):
            cd = callee_def(t) or ""
            if cd.startswith(SYN + "::"):
                head, var = cd.rsplit("::", 1)
                out.add((head, var))
    return out


def in_parser(b):
    if not q.not_test(b):
        return False
    m = mir.body_module(b)
    if m.startswith("okane_core::parse") and "::testing" not in m:
        return True
    # the numeric-literal scanner lives next to its type
    return b.key.startswith("<okane_core::syntax::pretty_decimal::PrettyDecimal as std::str::FromStr>::from_str")


def parser_rules(P, chk):
    adts = tree_adts(P)
    built = set()
    for k in adts:
        for b, bb, j, rv in q.aggregates_of(P, k):
            if in_parser(b):
                built.add((k, rv["variant"]))
    built |= ctor_refs(P, in_parser)
    # Lot is filled field by field on a Default value: count its field stores
    n = 0
    for k in adts:
        a = P.adts[k]
        if a.get("kind") != "Enum":
            continue
        for v in a["variants"]:
            n += 1
            key = "%s::%s" % (k.replace("okane_core::syntax::", ""), v["name"])
            if (k, v["name"]) in built:
                chk.ok(R_PARSE, key, "", "constructed in okane_core::parse")
                continue
            why = DEFAULT_VARIANTS.get((k, v["name"]))
            if why:
                # must really be the declared default of the enum
                dflt = P.maybe_body("<%s as std::default::Default>::default" % k)
                okd = dflt is not None and any(rv["variant"] == v["name"] for b, bb, j, rv in q.aggregates_of(P, k) if b.key == dflt.key)
                chk.require(okd, R_PARSE, key, "", "tabled as the default variant but Default::default() does not build it", "default: " + why)
                continue
            chk.fail(R_PARSE, key, "core/src/parse.rs", "no parser constructs this variant: the documented syntax for it can never be read")
    chk.floor("variants of the syntax enums", n, 30)
    # struct literals: no field silently left to a base / constant
    news = {}
    m = 0
    for k in adts:
        a = P.adts[k]
        if a.get("kind") != "Struct":
            continue
        for b, bb, j, rv in q.aggregates_of(P, k):
            if not in_parser(b):
                continue
            m += 1
            owner = b.key.split("::{closure")[0]
            for f in rv["fields"]:
                rs = prov(b, f["op"])
                base = [r for r in rs if r.kind == "call" and r.fields and short(r.name) in ("new", "new_untracked", "default")]
                const_only = bool(rs) and all(r.kind == "const" or (r.kind == "agg" and (r.name.endswith("::None") or r.name.endswith("Vec::new"))) for r in rs)
                defaulted = False
                why = ""
                if base and len(base) == len(rs):
                    # does the constructor pass this field through from a parameter?
                    for r in base:
                        ctor = P.maybe_body(r.name)
                        passthrough = False
                        if ctor is not None:
                            for cb, cbb, cj, crv in q.aggregates_of(P, k):
                                if cb.key == ctor.key:
                                    for cf in crv["fields"]:
                                        if cf["name"] == f["name"]:
                                            crs = prov(ctor, cf["op"])
                                            passthrough = bool(crs) and all(x.kind == "param" for x in crs)
                        if not passthrough:
                            defaulted = True
                            why = "left to %s()" % short(r.name)
                elif const_only:
                    defaulted = True
                    why = "always the constant %s" % sorted(mir.show_root(r) for r in rs)
                key = "%s|%s.%s" % (owner.replace("okane_core::", ""), short(k), f["name"])
                if not defaulted:
                    chk.ok(R_DEFAULT, key, b.loc(bb), "set from parsed input")
                    continue
                reason = ALLOWED_DEFAULT.get((owner, short(k), f["name"]))
                if reason:
                    # the tabled shortcut must sit behind its guard: has_peek(..) said "nothing follows"
                    guarded = False
                    for a_ in mir.guards_at(b, bb):
                        if a_.kind == "bool" and a_.label == (True,):
                            for r in a_.subject:
                                if r.kind == "call" and r.site is not None and b.term(r.site)["args"]:
                                    if any("has_peek" in n for cn, x in q.chains(b, b.term(r.site)["args"][0]) for n in cn) or \
                                            any(x.kind == "call" and "has_peek" in x.name for x in prov(b, b.term(r.site)["args"][0])):
                                        guarded = True
                    chk.require(guarded, R_DEFAULT, key, b.loc(bb),
                                "the parser leaves %s.%s to its default outside the tabled shortcut (not behind has_peek(..) == true): what is written there is lost"
                                % (short(k), f["name"]), "table: " + reason)
                else:
                    chk.fail(R_DEFAULT, key, b.loc(bb), "the parser never fills %s.%s from the input (%s): what is written there is lost"
                             % (short(k), f["name"], why))
    chk.floor("struct literals of syntax types in the parser", m, 10)
    # Lot: every field has a store from parsed input in lot()
    lot = P.body("okane_core::parse::posting::lot")
    chk.analysed(lot)
    stored = set()
    for i in sorted(lot.live_blocks()):
        for st in lot.blocks[i]["stmts"]:
            if st["k"] == "assign" and st["place"]["p"] and st["place"]["p"][-1]["k"] == "field" and norm(st["place"]["p"][-1].get("adt") or "") == SYN + "::Lot":
                stored.add(st["place"]["p"][-1]["name"])
    want = set(f["name"] for f in P.adts[SYN + "::Lot"]["variants"][0]["fields"])
    chk.require(stored == want, R_DEFAULT, "parse::posting::lot|every Lot field is assigned from input", lot.loc(),
                "lot() assigns %s of %s" % (sorted(stored), sorted(want)), "price, date, note")


def prefix_agreement(P, chk):
    """(variant -> parser prefix consumes trailing blanks?) vs (variant -> printer prefix ends with a blank?)"""
    parser = {}
    for b in P.bodies.values():
        if not in_parser(b):
            continue
        for bb, t in b.calls():
            if short(callee_def(t)) != "multiline_text":
                continue
            chk.analysed(b)
            # which constructor maps the text
            maps = [(b2, t2) for b2, t2 in b.calls() if short(callee_def(t2)) == "map" and
                    any(r.kind == "call" and r.site == bb for r in prov(b, t2["args"][0]))]
            var = None
            for b2, t2 in maps:
                o = t2["args"][1]
                if o.get("k") == "const" and o.get("fn"):
                    var = norm(o["fn"])
            if var is None:
                continue
            # last element of the prefix
            pre = t["args"][0]
            last = None
            d = mir.single_def(b, pre["place"]["l"]) if pre.get("k") in ("copy", "move") else None
            if d and d[0] == "assign" and d[4]["k"] == "aggregate" and d[4].get("agg") == "tuple":
                last = d[4]["fields"][-1]["op"]
            elif d and d[0] == "call":
                last = pre
            elif pre.get("k") == "const":
                last = pre
            eats = None
            if last is not None:
                if last.get("k") == "const" and last.get("fn"):
                    eats = short(norm(last["fn"])) in ("space0", "space1", "multispace0", "multispace1")
                else:
                    rs = prov(b, last)
                    names = set(short(r.name) for r in rs if r.kind == "call")
                    if names and names <= {"take_while", "literal", "one_of", "take_till"}:
                        eats = False
            parser[var] = (eats, b.loc(bb))
    printer = {}
    for b in display_impls(P):
        for bb, t in b.calls():
            if short(callee_def(t)) == "wrap" and "LineWrapStr" in (callee_def(t) or ""):
                lit = t["args"][0].get("repr")
                labs = [l for roots, l in q.variant_guards(b, bb)]
                adt = None
                if b.impl_self:
                    adt = norm(b.impl_self)
                    if "WithContext<" in adt:
                        adt = adt.split("WithContext<", 1)[1].rsplit(">", 1)[0]
                if labs and adt:
                    printer["%s::%s" % (adt, labs[-1][0])] = (lit, b.loc(bb))
                elif adt:
                    printer[adt] = (lit, b.loc(bb))
    chk.floor("multi-line text parsers", len(parser), 5)
    chk.floor("multi-line text printers", len(printer), 5)
    for var, (eats, ploc) in sorted(parser.items()):
        pr = printer.get(var)
        key = "%s|printer prefix vs parser prefix" % var.replace("okane_core::syntax::", "")
        if pr is None:
            chk.fail(R_PREFIX, key, ploc, "no LineWrapStr printer found for this multi-line text")
            continue
        lit, dloc = pr
        if eats is None or lit is None:
            chk.fail(R_PREFIX, key, dloc, "prefix shape not recognised (parser eats blanks=%s, printer literal=%s)" % (eats, lit))
            continue
        ends = lit.strip('"').endswith(" ")
        chk.require(ends == eats, R_PREFIX, key, dloc,
                    "the printer writes the prefix %s but the parser's prefix %s the blanks after it: "
                    "the text %s one space on every format pass" % (lit, "consumes" if eats else "does not consume",
                                                                  "loses" if eats else "gains"),
                    "printer %s, parser %s trailing blanks" % (lit, "consumes" if eats else "keeps"))


LOOKAHEAD_ONLY = {
    "okane_core::parse::character::line_ending_or_semi": "only ever used as has_peek(..) lookahead to detect a posting without amount; the line itself is then consumed by block_metadata, which accepts end of input",
}


def wrap_rule(P, chk):
    """LineWrapStr::fmt writes, for every line of the content, the prefix exactly as given and then the line"""
    key = "<okane_core::syntax::display::LineWrapStr as std::fmt::Display>::fmt"
    b = P.body(key)
    chk.analysed(b)
    nd = [(bb, t) for bb, t in b.calls() if short(callee_def(t)) == "new_display"]
    chk.floor("format arguments in LineWrapStr::fmt", len(nd), 2)
    pre = cont = 0
    bad = []
    for bb, t in nd:
        cs = q.chains(b, t["args"][0])
        for cn, r in cs:
            names = [short(n) for n in cn]
            if q.is_param(r, "self", ("prefix",)):
                if names:
                    bad.append("the prefix goes through %s before it is written" % names)
                pre += 1
            elif q.is_param(r, "self", ("content",)):
                if set(names) - {"lines", "next", "into_iter", "split_terminator", "split"}:
                    bad.append("the text goes through %s" % names)
                cont += 1
            else:
                bad.append("writes %s" % mir.show_root(r))
    loops = b.loops()
    in_loop = all(any(bb in blks for blks in loops.values()) for bb, t in nd)
    chk.require(not bad and pre >= 1 and cont >= 1 and in_loop, R_PREFIX, "LineWrapStr::fmt|every line = prefix as given + line", b.loc(),
                "; ".join(bad) or "prefix / line not both written inside the line loop (prefix=%d, line=%d)" % (pre, cont),
                "for line in content.lines() { writeln!(f, \"{}{}\", self.prefix, line) }")


def eof_rule(P, chk):
    bare = ("winnow::ascii::line_ending", "winnow::ascii::newline", "winnow::ascii::crlf")
    users = {}
    for b in P.bodies.values():
        if not q.not_test(b) or b.crate not in ("okane_core", "okane"):
            continue
        hit = False
        for bb, o in b.iter_operands():
            if o.get("k") == "const" and norm(o.get("fn") or "") in bare:
                hit = True
        for bb, t in b.calls(live_only=False):
            if callee_def(t) in bare:
                hit = True
        if hit:
            users.setdefault(b.key.split("::{closure")[0], []).append(b)
    chk.floor("parsers using winnow's bare line terminators (positive control)", len(users), 3)
    for u in sorted(users):
        names = set()
        for x in P.with_closures(u) if u in P.bodies else users[u]:
            chk.analysed(x)
            for bb, o in x.iter_operands():
                if o.get("k") == "const" and o.get("fn"):
                    names.add(short(norm(o["fn"])))
            for bb, t in x.calls(live_only=False):
                names.add(short(callee_def(t)))
        key = "%s|a line may also end at end of input" % u.replace("okane_core::", "")
        where = P.bodies[u].loc() if u in P.bodies else ""
        if "eof" in names and ("alt" in names or "dispatch" in names):
            chk.ok(R_EOF, key, where, "line_ending is an alternative next to eof in the same parser")
            continue
        reason = LOOKAHEAD_ONLY.get(u)
        if reason:
            # supporting obligation: every reference is the argument of has_peek / peek
            bad = []
            nref = 0
            for b2, bb2 in q.value_refs_of(P, u):
                if not q.not_test(b2):
                    continue
                for bbx, t in b2.calls(live_only=False):
                    for a in t["args"]:
                        if a.get("k") == "const" and norm(a.get("fn") or "") == u:
                            nref += 1
                            if short(callee_def(t)) not in ("has_peek", "peek", "not"):
                                bad.append("%s passes it to %s" % (b2.key, short(callee_def(t))))
            for b2, bb2, t in q.callers_of(P, u):
                if q.not_test(b2):
                    bad.append("%s calls it directly" % b2.key)
            chk.require(not bad and nref > 0, R_EOF, key, where, "tabled as lookahead-only, but " + "; ".join(bad[:2]) if bad else "no reference found",
                        "table: %s (%d reference(s), all under has_peek)" % (reason, nref))
            continue
        chk.fail(R_EOF, key, where, "this parser requires a newline (bare winnow line terminator, no eof alternative): a last line ended by end of file is rejected")



R_NEUTRAL = "E7.format-context-neutral"


def neutral_context_rule(P, chk):
    """`format` (and `primitive flatten`) must print every number with the decimal places it was written with: the
    DisplayContext they render with is the empty default one and nothing configures a precision on it (a configured
    precision makes `rescale` pad the number - right for `import`, a change of meaning for `format`; seed C05-E)."""
    DC = "okane_core::syntax::display::DisplayContext"
    roots_fn = ["okane_core::format::FormatOptions::format", "okane::cmd::FlattenCmd::run"]
    n_sites = 0
    for key in roots_fn:
        if P.maybe_body(key) is None:
            chk.anchor_missing("%s not found" % key)
            continue
        for b in P.with_closures(key):
            chk.analysed(b)
            for bb, t in b.calls():
                cd = callee_def(t) or ""
                if not norm(cd).startswith(DC + "::"):
                    continue
                meth = cd.rsplit("::", 1)[-1]
                if meth in ("default",):
                    continue
                recv = t["args"][0] if t["args"] else None
                if meth != "as_display":
                    chk.require(False, R_NEUTRAL, "%s|only as_display is called on the context" % key.rsplit("::", 2)[-2], b.loc(bb),
                                "DisplayContext::%s is called while formatting: the context no longer is the neutral one" % meth,
                                "DisplayContext::default() + as_display only")
                    continue
                n_sites += 1
                rs = prov(b, recv)
                hb = b
                if rs and all(r.kind == "capture" and not r.fields for r in rs) and len(set(r.name for r in rs)) == 1:
                    # the context is captured by the closure that prints: look at it where the closure was built
                    for par in P.closure_parents(b):
                        l_ = q.local_by_name(par, list(rs)[0].name, "")
                        if l_ is not None:
                            hb = par
                            rs = prov(par, {"l": l_, "p": []})
                            break
                b_saved, b = b, hb
                ok = bool(rs) and all(r.kind == "call" and norm(str(r.name)).endswith("DisplayContext as std::default::Default>::default") for r in rs)
                # nothing else may get hold of the context (a `&mut ctx` handed to a helper, a field store)
                others = []
                if ok:
                    srcs = set(r.site for r in rs)
                    for bb2, t2 in b.calls():
                        if bb2 == bb or bb2 in srcs:
                            continue
                        for a in t2["args"]:
                            ra = prov(b, a)
                            if ra and any(r.kind == "call" and r.site in srcs for r in ra) and not norm(callee_def(t2) or "").startswith(DC + "::as_display"):
                                others.append(callee_def(t2))
                    for i in sorted(b.live_blocks()):
                        for st in b.blocks[i]["stmts"]:
                            if st["k"] == "assign" and st["place"]["p"] and any(p_.get("adt") and norm(p_["adt"]) == DC for p_ in st["place"]["p"] if p_["k"] == "field"):
                                others.append("store to a field of the context at %s" % b.loc(i))
                b = b_saved
                chk.require(ok and not others, R_NEUTRAL, "%s|renders with the neutral context" % key.rsplit("::", 2)[-2], b.loc(bb),
                            "context is %s%s" % (sorted(mir.show_root(r) for r in rs), ("; also used by %s" % sorted(set(map(str, others)))) if others else ""),
                            "receiver of as_display is DisplayContext::default(), untouched")
    chk.floor("as_display call sites in format / flatten", n_sites, 2)


def run(P, chk, tier):
    chk.rule(R_PRINT, "the printer reads every field and every variant payload of the syntax tree")
    chk.rule(R_PARSE, "every variant of the syntax enums is constructed by the parser (or is the declared default)")
    chk.rule(R_DEFAULT, "no field of a parsed struct is silently left to a base value or a constant")
    chk.rule(R_PREFIX, "multi-line text: printer prefix and parser prefix agree on who owns the blank after the prefix")
    chk.rule(R_EOF, "bare line_ending only inside the terminators that also accept end of input")
    printer_rule(P, chk)
    parser_rules(P, chk)
    prefix_agreement(P, chk)
    wrap_rule(P, chk)
    eof_rule(P, chk)
    chk.rule(R_NEUTRAL, "format / flatten render with the neutral display context: no precision is configured, numbers keep their decimal places")
    neutral_context_rule(P, chk)
