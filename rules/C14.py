"""C14 — diagnostics name the right file and line."""
from analysis import mir, q, panics
from analysis.mir import norm, callee, callee_def, callee_names, prov
from . import spans

EXPLANATION = (
    "Static provenance / placement rules over the diagnostic plumbing.  File: ErrorContext.path is the `path` "
    "parameter of ErrorContext::new, whose only caller passes the path the loader handed to the callback for that "
    "entry (closure parameter, traced through the nested closure's capture), and the loader calls the callback and "
    "builds LoadError::Parse / IO with the canonicalised path of the file being read.  Line: line_start, text and "
    "parsed_span of an ErrorContext all come from the same ParsedContext; ParsedContext is built only by the parse "
    "adaptor with the whole-file text and the with_span range of the entry; compute_line_start passes "
    "(self.initial, self.span.start); ParseError::new rewinds to the entry's checkpoint before reading "
    "current_token_start(), counts lines in the un-sliced `initial`, renders the text from the rewound position and "
    "starts the error span at offset_from(start); compute_line_number consumes its byte offset with a byte-indexed "
    "prefix operation and returns 1 + the number of b'\\n' in that prefix.  Annotation spans: every span stored in a "
    "BookKeepError comes from Tracked::span() of (a part of) the posting / exchange the function was given; "
    "ParsedSpan::resolve clips against the entry's own span (max/min, minus the entry start); TrackedSpan values are "
    "minted only from with_span ranges.  The arithmetic of counting newlines for arbitrary content is not decided."
)

R_FILE = "E7.file-of-entry"
R_LINE = "E7.line-of-entry"
R_SPAN = "E7.annotation-spans"

EC = "okane_core::report::error::ErrorContext"
ECNEW = EC + "::new"
PC = "okane_core::parse::adaptor::ParsedContext"
CLN = "okane_core::parse::error::compute_line_number"
PENEW = "okane_core::parse::error::ParseError::new"
LI = "okane_core::load::Loader::load_impl"
BK = "okane_core::report::book_keeping"


def short(n):
    return (n or "?").rsplit("::", 1)[-1]


def capture_origin(P, c, name):
    """roots (in the parent body) of the value captured as `name` by closure body c"""
    parent = (P.closure_parents(c) or [None])[0]
    if parent is None:
        return None, set()
    for i, blk in enumerate(parent.blocks):
        for st in blk["stmts"]:
            if st["k"] == "assign" and st["rv"]["k"] == "aggregate" and st["rv"].get("agg") == "closure" and norm(st["rv"]["closure"]) == c.key:
                for f in st["rv"]["fields"]:
                    if f["name"] == name:
                        return parent, prov(parent, f["op"])
    return parent, set()


def is_canon(r):
    return r.kind == "call" and r.name.endswith("FileSystem::canonicalize_path")


def file_rules(P, chk):
    n = P.body(ECNEW)
    chk.analysed(n)
    aggs = [a for a in q.aggregates_of(P, EC) if q.not_test(a[0])]
    ok = len(aggs) == 1 and aggs[0][0].key == ECNEW
    chk.require(ok, R_FILE, "ErrorContext|constructed only in ErrorContext::new", n.loc(),
                "ErrorContext values are built in %s" % sorted(a[0].key for a in aggs), "single constructor")
    if not ok:
        return
    ab, abb, aj, rv = aggs[0]
    fields = {f["name"]: f["op"] for f in rv["fields"]}
    okp = q.all_roots(n, fields["path"], lambda r: q.is_param(r, "path") and not r.fields)
    chk.require(okp, R_FILE, "ErrorContext::new|path field is the path argument", n.loc(abb),
                "ErrorContext.path = %s" % mir.prov_strs(n, fields["path"]), "path")
    # line / text / span all from the one pctx
    want = {"line_start": PC + "::compute_line_start", "text": PC + "::as_str", "parsed_span": PC + "::span"}
    for f, fn in sorted(want.items()):
        cs = q.chains(n, fields[f])
        okf = bool(cs) and all(fn in cn and q.is_param(r, "pctx") and not r.fields for cn, r in cs)
        chk.require(okf, R_LINE, "ErrorContext::new|%s = pctx.%s()" % (f, short(fn)), n.loc(abb),
                    "%s = %s" % (f, mir.prov_strs(n, fields[f])), "from the entry's own ParsedContext")
    # callers
    callers = [c for c in q.callers_of(P, ECNEW) if q.not_test(c[0])]
    chk.add_sites(len(callers))
    chk.floor("callers of ErrorContext::new", len(callers), 1)
    for b, bb, t in callers:
        chk.analysed(b)
        okc = True
        detail = []
        for idx, cbname, cbparam in ((1, "path", 2), (2, "pctx", 3)):
            rs = prov(b, t["args"][idx])
            for r in rs:
                if r.kind == "capture":
                    parent, pr = capture_origin(P, b, r.name)
                    good = parent is not None and parent.is_closure and bool(pr) and \
                        all(x.kind == "param" and x.name.startswith("%d:" % cbparam) and not x.fields for x in pr)
                    # the parent closure must be the one handed to Loader::load
                    if good:
                        gp = P.bodies.get(parent.parent)
                        good = gp is not None and any(short(callee_def(t2)) == "load" and "Loader" in (callee_def(t2) or "") and
                                                      any(x.kind in ("agg", "closure") and parent.key in x.name for x in prov(gp, t2["args"][-1]))
                                                      for b2, t2 in gp.calls())
                    if not good:
                        okc = False
                        detail.append("%s argument is captured from %s" % (cbname, sorted(mir.show_root(x) for x in pr) if parent else "?"))
                elif r.kind == "param" and b.is_closure and r.name.startswith("%d:" % cbparam) and not r.fields:
                    pass
                else:
                    okc = False
                    detail.append("%s argument is %s" % (cbname, mir.show_root(r)))
            if not rs:
                okc = False
        chk.require(okc, R_FILE, "%s|ErrorContext::new(path and context the loader gave for this entry)" % b.key, b.loc(bb),
                    "; ".join(detail) or "arguments not traceable", "load(|path, pctx, entry| .. ErrorContext::new(_, path, pctx))")
    # loader side: LoadError::Parse / IO carry the canonical current path
    li = P.body(LI)
    lbodies = P.with_closures(LI)
    npar = 0
    for x in lbodies:
        chk.analysed(x)
        for ab2, abb2, aj2, rv2 in [a for a in q.aggregates_of(P, "okane_core::load::LoadError") if a[0].key == x.key]:
            if rv2["variant"] not in ("Parse", "IO", "RecursiveInclude"):
                continue
            # IO for an empty glob names the pattern, not a file being read: only closures (map_err) are the read/parse errors
            if rv2["variant"] == "IO" and not x.is_closure:
                continue
            if rv2["variant"] == "IO" and any(r.kind == "call" and str(r.name).endswith("io::Error::new") for r in prov(x, rv2["fields"][0]["op"])):
                continue        # the error made up for an empty glob (wherever that code sits): it names the pattern
            pf = rv2["fields"][-1]["op"]
            rs = prov(x, pf)
            good = bool(rs)
            for r in rs:
                if r.kind == "capture":
                    parent, pr = capture_origin(P, x, r.name)
                    good = good and bool(pr) and all(is_canon(y) for y in pr)
                elif is_canon(r):
                    pass
                else:
                    good = False
            npar += 1
            chk.require(good, R_FILE, "load_impl|LoadError::%s names the file being read" % rv2["variant"], x.loc(abb2),
                        "the error carries %s" % sorted(mir.show_root(r) for r in rs), "canonical path of the current file")
    chk.floor("LoadError constructions naming a file", npar, 2)


def line_rules(P, chk):
    # ParsedContext constructors
    sites = [s for s in q.aggregates_of(P, PC) if q.not_test(s[0])]
    chk.floor("ParsedContext constructions", len(sites), 2)
    for b, bb, j, rv in sites:
        chk.analysed(b)
        f = {x["name"]: x["op"] for x in rv["fields"]}
        rs = prov(b, f["initial"])
        oki = bool(rs) and all((q.is_param(r, "self", ("initial",)) or q.is_param(r, "input")) and not (set(r.via) - {"φ"}) for r in rs)
        sp = prov(b, f["span"])
        oks = bool(sp) and all(r.kind == "call" and (("WithSpan" in r.name) or r.name in ("winnow::Parser::parse", "winnow::Parser::parse_next")) for r in sp)
        if oks:
            for r in sp:
                if r.site is not None and "WithSpan" not in r.name:
                    oks = oks and q.all_roots(b, b.term(r.site)["args"][0], lambda r2: r2.kind == "call" and r2.name == "winnow::Parser::with_span")
        chk.require(oki and oks, R_LINE, "%s|ParsedContext{initial: whole text, span: with_span range}" % b.key, b.loc(bb),
                    "initial=%s span=%s" % (sorted(mir.show_root(r) for r in rs), sorted(mir.show_root(r) for r in sp)),
                    "whole-file text + the entry's own span")
    # ParsedIter.initial is the complete input and never advanced
    for b, bb, j, rv in [s for s in q.aggregates_of(P, "okane_core::parse::adaptor::ParsedIter") if q.not_test(s[0])]:
        f = {x["name"]: x["op"] for x in rv["fields"]}
        oki = q.all_roots(b, f["initial"], lambda r: q.is_param(r, "input") and not r.fields)
        inp = q.chains(b, f["input"])
        okn = bool(inp) and all(q.is_param(r, "input") for cn, r in inp)
        chk.require(oki and okn, R_LINE, "parse_repeated|initial and the stream start at the same text", b.loc(bb),
                    "initial=%s input=%s" % (mir.prov_strs(b, f["initial"]), mir.prov_strs(b, f["input"])), "initial: input, input: LocatingSlice::new(input)")
    # compute_line_start
    cs = P.body(PC + "::compute_line_start")
    chk.analysed(cs)
    calls = [(bb, t) for bb, t in cs.calls() if CLN in callee_names(t)]
    ok = len(calls) == 1 and q.all_roots(cs, calls[0][1]["args"][0], lambda r: q.is_param(r, "self", ("initial",))) and \
        q.all_roots(cs, calls[0][1]["args"][1], lambda r: q.is_param(r, "self", ("span", "start")) and not r.via)
    rs0 = prov(cs, {"l": 0, "p": []})
    ok = ok and bool(rs0) and all(r.kind == "call" and r.name == CLN for r in rs0)
    chk.require(ok, R_LINE, "compute_line_start|compute_line_number(self.initial, self.span.start)", cs.loc(),
                "arguments are %s" % ([mir.prov_strs(cs, a) for a in calls[0][1]["args"]] if calls else "?"), "whole text, entry start")
    # ParseError::new
    pe = P.body(PENEW)
    chk.analysed(pe)
    resets = [(bb, t) for bb, t in pe.calls() if short(callee_def(t)) == "reset"]
    cts = [(bb, t) for bb, t in pe.calls() if short(callee_def(t)) == "current_token_start"]
    clns = [(bb, t) for bb, t in pe.calls() if CLN in callee_names(t)]
    ok = len(resets) == 1 and len(cts) == 1 and len(clns) == 1
    detail = "expected one reset / current_token_start / compute_line_number, found %d/%d/%d" % (len(resets), len(cts), len(clns))
    if ok:
        rb, rt = resets[0]
        ok1 = q.all_roots(pe, rt["args"][1], lambda r: q.is_param(r, "start")) and pe.must_pass_block(cts[0][0], rb)
        ok2 = q.all_roots(pe, clns[0][1]["args"][0], lambda r: q.is_param(r, "initial") and not r.fields) and \
            q.all_roots(pe, clns[0][1]["args"][1], lambda r: r.kind == "call" and r.site == cts[0][0])
        ok = ok1 and ok2
        detail = "rewound to the entry checkpoint before reading the position=%s; line counted in the un-sliced text at that position=%s" % (ok1, ok2)
    chk.require(ok, R_LINE, "ParseError::new|line_start = line of the entry's first byte in the whole file", pe.loc(), detail,
                "input.reset(&start); compute_line_number(initial, input.current_token_start())")
    aggs = [a for a in q.aggregates_of(P, "okane_core::parse::error::ParseErrorImpl") if q.not_test(a[0])]
    ok = len(aggs) == 1 and aggs[0][0].key == PENEW
    if ok:
        rv = aggs[0][3]
        f = {x["name"]: x["op"] for x in rv["fields"]}
        okl = bool(clns) and q.all_roots(pe, f["line_start"], lambda r: r.kind == "call" and r.site == clns[0][0])
        # text rendered = input after the reset: once the offset is measured, nothing reads the stream before it is rewound
        txt = q.chains(pe, f["input"])
        okt = bool(txt) and all(q.is_param(r, "input") for cn, r in txt) and bool(resets)
        if okt:
            for bbx, tx in pe.calls():
                if bbx == resets[0][0] or short(callee_def(tx)) == "offset_from":
                    continue
                if tx["args"] and any(q.is_param(r, "input") for a in tx["args"] for r in prov(pe, a)):
                    if not pe.must_pass_block(bbx, resets[0][0]):
                        okt = False
        # error span starts at offset_from(start)
        rng, rest = spans.range_aggregates(pe, f["error_span"])
        oks = len(rng) == 1 and not rest
        if oks:
            st = [x for x in rng[0][1]["fields"] if x["name"] == "start"][0]["op"]
            tr = q.arith(pe, st)
            oks = tr[0] == "call" and short(tr[1]) == "offset_from" and tr[3][1:] == [("param", "start")] or \
                (tr[0] == "call" and short(tr[1]) == "offset_from" and q.all_roots(pe, pe.term(tr[2])["args"][1], lambda r: q.is_param(r, "start")))
            if oks:
                okord = bool(resets) and tr[2] != resets[0][0] and resets[0][0] not in pe.reach_from(0, without_blocks=(tr[2],))
                oks = okord  # the offset must be measured before rewinding
        chk.require(okl and okt and oks, R_LINE, "ParseError::new|snippet text, its first line number and the error offset refer to the same entry", pe.loc(),
                    "line_start from the computed line=%s, text from the rewound stream=%s, span start = offset from the entry start measured before rewinding=%s" % (okl, okt, oks),
                    "ParseErrorImpl{line_start, input: rewound text, error_span: offset..}")
    else:
        chk.fail(R_LINE, "ParseErrorImpl|constructed only in ParseError::new", pe.loc(), "built in %s" % sorted(a[0].key for a in aggs))
    # callers of ParseError::new pass the whole text and the entry checkpoint
    for b, bb, t in [c for c in q.callers_of(P, PENEW) if q.not_test(c[0])]:
        chk.analysed(b)
        a_init, a_start = t["args"][1], t["args"][3]
        rs = prov(b, a_init)
        oki = bool(rs) and all(q.is_param(r, "input") or (r.kind == "capture" and r.name == "self" and tuple(r.fields) == ("initial",))
                               or (r.kind == "capture" and r.name == "self__initial" and not r.fields)
                               or q.is_param(r, "self", ("initial",)) for r in rs)
        rs2 = prov(b, a_start)
        oks = bool(rs2) and all((r.kind == "call" and short(r.name) == "checkpoint") or r.kind == "capture" and r.name == "start" for r in rs2)
        if oks:
            for r in rs2:
                if r.kind == "capture":
                    parent, pr = capture_origin(P, b, "start")
                    oks = oks and bool(pr) and all(x.kind == "call" and short(x.name) == "checkpoint" for x in pr)
        chk.require(oki and oks, R_LINE, "%s|ParseError::new(whole text, .., checkpoint taken before the entry)" % b.key, b.loc(bb),
                    "initial=%s start=%s" % (sorted(mir.show_root(r) for r in rs), sorted(mir.show_root(r) for r in rs2)), "initial, start")
    # compute_line_number itself
    line_number_rule(P, chk)


BYTE_PREFIX = {"split_at", "split_at_checked", "get", "get_unchecked", "index", "split_at_unchecked", "take"}


def _counting_loop(b, cut):
    """the explicit form: `let mut n = 1; for byte in prefix { if *byte == b'\\n' { n += 1 } } n`"""
    rs = prov(b, {"k": "copy", "place": {"l": 0, "p": []}})
    # the returned local: started at 1, otherwise only ever incremented by 1
    consts = [r for r in rs if r.kind == "const"]
    incs = [r for r in rs if r.kind == "op" and r.name in ("Add", "AddWithOverflow")]
    if len(rs) != len(consts) + len(incs) or len(consts) != 1 or len(incs) != 1 or panics.const_root_int(consts[0]) != 1:
        return False, None
    inc = incs[0]
    okinc = False
    for st in b.blocks[inc.site]["stmts"]:
        if st["k"] == "assign" and st["rv"]["k"] == "binop" and st["rv"]["op"] == inc.name:
            l, r = st["rv"]["l"], st["rv"]["r"]
            one = [x for x in (l, r) if x.get("k") == "const" and x.get("int") == 1]
            other = [x for x in (l, r) if x.get("k") != "const"]
            if len(one) == 1 and len(other) == 1 and set((x.kind, x.name, x.site) for x in prov(b, other[0])) == set((x.kind, x.name, x.site) for x in rs):
                okinc = True
    if not okinc:
        return False, "the counter is not incremented by exactly 1"
    loops = [blks for h, blks in b.loops().items() if inc.site in blks]
    if not loops:
        return False, "the counter is not incremented inside a loop"
    blks = min(loops, key=len)
    nx = [x for x in blks if b.term(x)["k"] == "call" and callee_def(b.term(x)) == "std::iter::Iterator::next"]
    if len(nx) != 1:
        return False, "the counting loop has %d next() calls" % len(nx)
    ch = q.chains(b, b.term(nx[0])["args"][0], stop=lambda r: r.kind == "call" and r.site == cut[0])
    names = [short(n) for cn, r in ch for n in cn]
    okp = bool(ch) and all(r.kind == "call" and r.site == cut[0] for cn, r in ch) and \
        not set(names) & {"skip", "rev", "step_by", "take_while", "skip_while", "chars", "lines", "filter", "take", "enumerate"}
    half_ok = True
    if cut[2].startswith("split_at"):
        half_ok = set(r.fields[:1] for cn, r in ch) == {("0",)}
    # the increment happens exactly on `element == b'\n'`
    nl = False
    for a in mir.guards_at(b, inc.site):
        if a.kind == "cmp" and a.subject[0] == "Eq" and a.label == (True,):
            lo, ro = a.subject[3]
            sides = [lo, ro]
            c10 = [x for x in sides if x.get("k") == "const" and x.get("int") == 10]
            el = [x for x in sides if x.get("k") != "const"]
            if len(c10) == 1 and len(el) == 1 and q.all_roots(b, el[0], lambda r: r.kind == "call" and r.site == nx[0]):
                nl = True
    only = True
    for x in blks:
        for (sb, tb, kind, subject, labs) in []:
            pass
    return okp and half_ok and nl, "counting loop over the prefix=%s (prefix half=%s), incremented exactly on == b'\\n'=%s" % (okp, half_ok, nl)


def line_number_rule(P, chk):
    b = P.body(CLN)
    chk.analysed(b)
    uses = []
    for bb, t in b.calls():
        for i, a in enumerate(t["args"]):
            rs = prov(b, a)
            if rs and any(q.is_param(r, "pos") or (r.kind == "agg" and "Range" in r.name) for r in rs):
                if any(q.is_param(r, "pos") for r in rs):
                    uses.append((bb, t, i))
    # RangeTo{end: pos} aggregates feeding an index
    for i, blk in enumerate(b.blocks):
        for st in blk["stmts"]:
            if st["k"] == "assign" and st["rv"]["k"] == "aggregate" and norm(st["rv"].get("adt") or "").startswith("std::ops::Range"):
                if any(q.is_param(r, "pos") for f in st["rv"]["fields"] for r in prov(b, f["op"])):
                    for bb, t in b.calls():
                        for k, a in enumerate(t["args"]):
                            if a.get("k") in ("copy", "move") and a["place"]["l"] == st["place"]["l"]:
                                uses.append((bb, t, k))
    cut = None
    bad = []
    for bb, t, i in uses:
        nm = short(callee_def(t))
        cd = callee_def(t) or ""
        if nm in ("len", "le", "lt", "ge", "gt") or cd.startswith("core::panicking") or "fmt" in cd:
            continue
        if nm in BYTE_PREFIX:
            recv = q.chains(b, t["args"][0])
            names = [short(n) for cn, r in recv for n in cn]
            recv_ty = b.local_ty(t["args"][0]["place"]["l"]) if t["args"][0].get("k") in ("copy", "move") else ""
            if nm == "take":
                # only a byte iterator may be cut by a byte offset
                if not ({"bytes", "as_bytes"} & set(names)) or {"chars", "char_indices", "lines", "split"} & set(names):
                    bad.append("the byte offset `pos` limits a %s iterator (counts characters, not bytes)" % "/".join(names[-2:]))
                    continue
            if all(q.is_param(r, "s") for cn, r in recv) and recv:
                cut = (bb, t, nm)
                continue
            bad.append("%s applied to %s" % (nm, sorted(mir.show_root(r) for cn, r in recv)))
        else:
            bad.append("the byte offset `pos` is consumed by %s" % nm)
    ok = cut is not None and not bad
    chk.require(ok, R_LINE, "compute_line_number|pos is used as a byte offset into s", b.loc(cut[0]) if cut else b.loc(),
                "; ".join(bad) or "no byte-indexed prefix of `s` at `pos`", "s.as_bytes().split_at(pos).0 (or an equivalent byte prefix)")
    if cut is None:
        return
    # the count: 1 + number of b'\n' in the prefix
    tr = q.arith(b, {"k": "copy", "place": {"l": 0, "p": []}})
    ok = tr[0] == "add" and ("const", 1) in tr[1:3]
    cnt = [x for x in tr[1:3] if x != ("const", 1)] if ok else []
    detail = "result is %s" % q.arith_str(tr)
    if ok and cnt and cnt[0][0] == "call" and short(cnt[0][1]) in ("count", "sum", "len"):
        ct = b.term(cnt[0][2])
        ch = q.chains(b, ct["args"][0], stop=lambda r: r.kind == "call" and r.site == cut[0])
        names = [short(n) for cn, r in ch for n in cn]
        okp = bool(ch) and all(r.kind == "call" and r.site == cut[0] for cn, r in ch)
        # prefix half (.0) of split_at, not the suffix
        half_ok = True
        if cut[2].startswith("split_at"):
            half = set()
            for r in prov(b, ct["args"][0]):
                pass
            for cn, r in q.chains(b, ct["args"][0], stop=lambda r: r.kind == "call" and r.site == cut[0]):
                half |= set(r.fields[:1])
            half_ok = half == {"0"}
        okf = "filter" in names and not set(names) & {"skip", "rev", "step_by", "take_while", "skip_while", "chars", "lines"}
        nl = False
        for bb2, t2 in b.calls():
            if short(callee_def(t2)) == "filter":
                for r in prov(b, t2["args"][1]):
                    c = P.bodies.get(r.name[len("closure:"):]) if r.kind == "agg" and r.name.startswith("closure:") else None
                    if c is not None:
                        chk.analysed(c)
                        consts = [o.get("int") for bbx, o in c.iter_operands() if o.get("k") == "const" and "int" in o]
                        cmp_eq = any(st["k"] == "assign" and st["rv"]["k"] == "binop" and st["rv"]["op"] == "Eq" for blk in c.blocks for st in blk["stmts"])
                        nl = 10 in consts and cmp_eq
        ok = okp and okf and nl and half_ok
        detail = "counts over the prefix=%s (prefix half=%s), plain filter=%s, predicate is == b'\\n'=%s" % (okp, half_ok, okf, nl)
    else:
        ok, d2 = _counting_loop(b, cut)
        detail = d2 or detail
    chk.require(ok, R_LINE, "compute_line_number|1 + newlines before pos", b.loc(), detail, "1 + prefix.iter().filter(|x| **x == b'\\n').count()")


PASS_THROUGH = {"read_to_string", "read", "from_utf8", "from_utf8_lossy", "clone", "get", "ok_or", "ok_or_else", "and_then", "map_err",
                "branch", "from_residual", "deref", "as_ref", "borrow", "to_vec", "into", "from", "cloned", "into_owned"}


def text_rule(P, chk):
    """the text handed to the parser is the file's text, unedited (line numbers are counted in it)"""
    impls = [b for b in P.bodies.values() if b.impl_trait == "okane_core::load::FileSystem" and b.key.endswith("::file_content_utf8") and q.not_test(b)]
    chk.floor("FileSystem::file_content_utf8 implementations", len(impls), 2)
    for b in sorted(impls, key=lambda x: x.key):
        bodies = P.with_closures(b.key)
        edits = []
        for x in bodies:
            chk.analysed(x)
            if "String" not in x.local_ty(0):
                continue   # a closure producing the error value, not the text
            # every value that can be returned as Ok(..)
            ops = [{"l": 0, "p": []}]
            for o in ops:
                for cn, r in q.chains(x, o):
                    for n in cn:
                        if short(n) not in PASS_THROUGH and not n.startswith("std::result::Result::") and not n.startswith("std::option::Option::"):
                            edits.append("%s (%s)" % (short(n), x.loc()))
                    if r.kind == "call" and short(r.name) not in PASS_THROUGH and r.name not in ("std::result::Result::Ok",):
                        if not r.name.startswith(("std::result::Result::", "std::option::Option::", "std::fs::", "std::string::String::from_utf8", "std::collections::HashMap::get")):
                            edits.append("%s (%s)" % (short(r.name), x.loc()))
            for bb, v, rv in q.ok_err_assignments(x):
                if v == "Ok":
                    for cn, r in q.chains(x, rv["fields"][0]["op"]):
                        for n in cn:
                            if short(n) not in PASS_THROUGH:
                                edits.append("%s (%s)" % (short(n), x.loc(bb)))
        chk.require(not edits, R_LINE, "%s|returns the file's text unedited" % (b.impl_self or b.key), b.loc(),
                    "the text is edited on its way to the parser by %s: line numbers are counted in the edited text, not in the file" % sorted(set(edits)),
                    "read -> (utf-8 decode) -> Ok")
    li = P.body(LI)
    pl = [(bb, t) for bb, t in li.calls() if short(callee_def(t)) == "parse_ledger"]
    ok = len(pl) == 1
    detail = "expected one parse_ledger call in load_impl"
    if ok:
        cs = q.chains(li, pl[0][1]["args"][1], stop=lambda r: r.kind == "call" and r.name.endswith("FileSystem::file_content_utf8"))
        names = set(short(n) for cn, r in cs for n in cn)
        ok = bool(cs) and all(r.kind == "call" and r.name.endswith("FileSystem::file_content_utf8") for cn, r in cs) and names <= PASS_THROUGH
        detail = "parse_ledger input comes through %s from %s" % (sorted(names), sorted(set(mir.show_root(r) for cn, r in cs)))
    chk.require(ok, R_LINE, "load_impl|the parser reads exactly what the file system returned", li.loc(), detail, "parse_ledger(options, &content)")


def span_rules(P, chk):
    # BookKeepError spans come from the posting / exchange in hand
    n = 0
    adt = P.adt(BK + "::BookKeepError") if (BK + "::BookKeepError") in P.adts else None
    name = BK + "::BookKeepError"
    if adt is None:
        cands = [k for k in P.adts if k.endswith("::BookKeepError")]
        if len(cands) != 1:
            chk.anchor_missing("BookKeepError type not found")
            return
        name = cands[0]
    for b, bb, j, rv in [a for a in q.aggregates_of(P, name) if q.not_test(a[0])]:
        for f in rv["fields"]:
            ty = b.local_ty(f["op"]["place"]["l"]) if f["op"].get("k") in ("copy", "move") else ""
            if "TrackedSpan" not in ty:
                continue
            n += 1
            chk.analysed(b)
            cs = q.chains(b, f["op"])
            good = bool(cs)
            why = []
            for cn, r in cs:
                if not any(x.endswith("Tracked::span") or x.endswith("::span") for x in cn):
                    good = False
                    why.append("not taken from span()")
                if r.kind not in ("param", "capture"):
                    # a local derived from a parameter through match bindings still ends in a param root;
                    # anything else (a stored / default span) is not the entry at fault
                    good = False
                    why.append("root %s" % mir.show_root(r))
            key = "%s|%s.%s from the posting in hand" % (b.key, rv["variant"], f["name"])
            chk.require(good, R_SPAN, key, b.loc(bb), "; ".join(why) or "no provenance", "x.span() of a part of the function's own posting / exchange argument")
    chk.floor("TrackedSpan fields stored in BookKeepError values", n, 6)
    # resolve / clip: judged on resolve with clip (when it is a function of its own) folded in
    from analysis import inline
    P.body("okane_core::parse::adaptor::ParsedSpan::resolve")
    rz = inline.inlined(P, "okane_core::parse::adaptor::ParsedSpan::resolve", inline.only_policy(("::parse::adaptor::clip",)))
    chk.analysed(rz)
    import re as _re

    def leaf(t):
        return tuple(_re.sub(r" via\[[^\]]*\]", "", x) for x in t[1]) if t[0] == "place" else None
    rng, rest = spans.range_aggregates(rz, {"k": "copy", "place": {"l": 0, "p": []}})
    ok = len(rng) == 1 and not rest
    detail = "resolve does not return a single Range"
    args_ok = False
    if ok:
        f = {x["name"]: q.arith(rz, x["op"]) for x in rng[0][1]["fields"]}
        span_call = []

        def shape(t, fn, fld):
            if t[0] != "sub":
                return False
            m, s_ = t[1], t[2]
            if leaf(s_) != ("param:1:self.0.start",):
                return False
            if m[0] != "call" or short(m[1]) != fn or len(m[3]) != 2:
                return False
            ls = [leaf(a) for a in m[3]]
            mine = [x for x in ls if x == ("param:1:self.0.%s" % fld,)]
            other = [x for x in ls if x and x != ("param:1:self.0.%s" % fld,)]
            if len(mine) != 1 or len(other) != 1:
                return False
            o = other[0]
            if len(o) != 1 or not (o[0].startswith("call:") and o[0].endswith("TrackedSpan::as_range.%s" % fld)):
                return False
            return True
        ok = shape(f["start"], "max", "start") and shape(f["end"], "min", "end")
        detail = "start=%s end=%s" % (q.arith_str(f["start"]), q.arith_str(f["end"]))
        # the tracked span clipped is the one handed to resolve
        ars = [(bb, t) for bb, t in rz.calls() if (callee_def(t) or "").endswith("TrackedSpan::as_range")]
        args_ok = len(ars) == 1 and q.all_roots(rz, ars[0][1]["args"][0], lambda r: q.is_param(r, "span"))
    chk.require(ok and args_ok, R_SPAN, "ParsedSpan::resolve|clip(entry span, tracked span)", rz.loc(),
                "the tracked span is not clipped against the entry's own span: %s (as_range of the span argument=%s)" % (detail, args_ok),
                "clip(self.0, span.as_range())")
    chk.require(ok, R_SPAN, "clip|(max(starts) - entry start, min(ends) - entry start)", rz.loc(), detail, detail)
    # TrackedSpan minted only from with_span
    ts = [a for a in q.aggregates_of(P, "okane_core::syntax::tracked::TrackedSpan") if q.not_test(a[0]) and not a[0].derived]
    ok = bool(ts)
    where = []
    for b, bb, j, rv in ts:
        chk.analysed(b)
        where.append(b.key)
        parent = (P.closure_parents(b) or [None])[0] if b.is_closure else None
        okb = b.is_closure and parent is not None and parent.key.endswith("Tracking as okane_core::syntax::decoration::Decoration>::decorate_parser") and \
            any(short(callee_def(t)) == "with_span" for bbx, t in parent.calls())
        rs = prov(b, rv["fields"][0]["op"])
        okb = okb and bool(rs) and all(r.kind == "param" and r.fields[-1:] == ("1",) for r in rs)
        ok = ok and okb
    chk.require(ok, R_SPAN, "TrackedSpan|minted only from with_span ranges in Tracking::decorate_parser", "", "TrackedSpan built in %s" % sorted(set(where)),
                "parser.with_span().map(|(v, span)| Tracked::new(v, TrackedSpan(span)))")


def run(P, chk, tier):
    chk.rule(R_FILE, "the diagnostic's file is the file the failing entry was read from (loader path per entry, canonical path in load errors)")
    chk.rule(R_LINE, "line numbers are counted in the whole original text at the entry's own byte offset, with byte-consistent arithmetic")
    chk.rule(R_SPAN, "annotation spans come from the failing posting and are clipped against the entry's own span")
    file_rules(P, chk)
    line_rules(P, chk)
    text_rule(P, chk)
    span_rules(P, chk)
