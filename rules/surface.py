"""E3/E2 machinery shared by C06 (whole cone), C01 (book-keeping cone) and C07 (literal scanner
and grouped printer): enumerate panic / divergence sources over a set of bodies and settle each
by guard idiom, reviewed table entry with machine-checked support, or known finding."""
import re
from analysis import mir, panics, q
from analysis.mir import norm, callee, callee_def, callee_names, prov
from . import common, shared

R_SRC = "E3.panic-source"
R_LOOP = "E3.loop"
R_RANGE = "E3.unbounded-iter"
R_SCC = "E2.recursion"
R_SUP = "E3.support"

_KNOWN = None


def known_functions():
    from analysis import inline
    return inline.known_functions()


# ---------------------------------------------------------------------------
# supporting obligations of table entries
# ---------------------------------------------------------------------------

def sup_parsed_iter_over_complete_str(P):
    adt = P.adt("okane_core::parse::adaptor::ParsedIter")
    for v in adt["variants"]:
        for f in v["fields"]:
            if f["name"] == "input":
                ty = norm(f["ty"])
                ok = ty.startswith("winnow::LocatingSlice<&str>") and "Partial" not in ty
                return ok, "ParsedIter.input: " + ty
    return False, "ParsedIter.input not found"


def sup_parsed_context_built_only_in_next_impl(P):
    sites = [s for s in q.aggregates_of(P, "okane_core::parse::adaptor::ParsedContext") if q.not_test(s[0])]
    allowed = ("okane_core::parse::adaptor::ParsedIter::next_impl",
               "okane_core::parse::adaptor::ParseOptions::parse_single")
    bad = [s[0].key for s in sites if s[0].key.split("::{closure")[0] not in allowed]
    if bad or not sites:
        return False, "ParsedContext built in %s" % (bad or "nowhere")

    def spanned_in(b):
        def spanned(r):
            if r.kind != "call":
                return False
            if "WithSpan" in (r.name or ""):
                return True
            if r.name == "winnow::Parser::parse" and r.site is not None:
                return q.all_roots(b, b.term(r.site)["args"][0],
                                   lambda r2: r2.kind == "call" and r2.name == "winnow::Parser::with_span")
            return False
        return spanned
    for b, bb, j, rv in sites:
        for f in rv["fields"]:
            if f["name"] == "span":
                rs = prov(b, f["op"])
                if b.is_closure:
                    # `.map(|(entry, span)| ..)` on the result of with_span().parse(): the item is the closure's argument
                    ok = bool(rs) and all(r.kind == "param" for r in rs)
                    par = (P.closure_parents(b) or [None])[0]
                    used = False
                    if ok and par is not None:
                        for pbb, pt in par.calls():
                            if (callee(pt) or "").rsplit("::", 1)[-1] != "map" or len(pt["args"]) != 2:
                                continue
                            if any(r.kind in ("agg", "closure") and str(r.name).replace("closure:", "") == b.key for r in prov(par, pt["args"][1])):
                                used = True
                                rs0 = prov(par, pt["args"][0])
                                ok = ok and bool(rs0) and all(spanned_in(par)(r) for r in rs0)
                    ok = ok and used
                else:
                    ok = rs and all(spanned_in(b)(r) for r in rs)
                if not ok:
                    return False, "span does not come from with_span: %s" % mir.prov_strs(b, f["op"])
    return True, "built only in next_impl / parse_single from a with_span range"


def sup_compute_line_number_callers(P):
    key = "okane_core::parse::error::compute_line_number"
    allowed = {"okane_core::parse::error::ParseError::new",
               "okane_core::parse::adaptor::ParsedContext::compute_line_start"}
    callers = [c for c in q.callers_of(P, key) if q.not_test(c[0])]
    if not callers:
        return False, "no caller found"
    for b, bb, t in callers:
        if b.key not in allowed:
            return False, "unexpected caller " + b.key
        a0, a1 = t["args"]
        if b.key.endswith("ParseError::new"):
            ok = q.all_roots(b, a0, lambda r: q.is_param(r, "initial")) and \
                q.all_roots(b, a1, lambda r: r.kind == "call" and r.name.endswith("::current_token_start"))
        else:
            ok = q.all_roots(b, a0, lambda r: q.is_param(r, "self", ("initial",))) and \
                q.all_roots(b, a1, lambda r: q.is_param(r, "self", ("span", "start")))
        if not ok:
            return False, "%s passes %s / %s" % (b.key, mir.prov_strs(b, a0), mir.prov_strs(b, a1))
    return True, "%d callers, arguments from the same text" % len(callers)


def sup_split_dominated_by_len_assert(P):
    b = P.body("okane_core::parse::error::compute_line_number")
    sites = mir.call_sites(b, ["core::slice::split_at"])
    if not sites:
        return False, "split_at not found"
    for bb, t in sites:
        mid = t["args"][1]
        ok = False
        for rel, lo, ro in q.rel_in_force(b, bb):
            if rel == "Le" and panics.same_value(b, lo, mid) and \
                    q.all_roots(b, ro, lambda r: r.kind == "call" and r.name in ("core::str::len", "core::slice::len")):
                ok = True
        if not ok:
            return False, "no pos <= len() fact in force at split_at"
    return True, "pos <= s.len() holds at split_at"


def _chase_ctor_args(body, operand, through, depth=0):
    """follow `call` roots through argument 0 while the callee is a listed constructor"""
    out = set()
    for r in prov(body, operand):
        if r.kind == "call" and r.site is not None and depth < 8:
            t = body.term(r.site)
            cn = callee_def(t) or ""
            if any(cn.endswith(x) for x in through) and t["args"]:
                out |= _chase_ctor_args(body, t["args"][0], through, depth + 1)
                continue
        out.add(r)
    return out


def sup_lot_arms_cover_one_of(P):
    b = P.body("okane_core::parse::posting::lot")
    panic_sites = [bb for bb, t in b.calls() if callee_def(t) == "core::panicking::panic_fmt"]
    if len(panic_sites) != 1:
        return False, "expected one panic site, found %d" % len(panic_sites)
    site = panic_sites[0]
    # char switches that the panic can only be reached through
    for s in sorted(b.live_blocks()):
        t = b.term(s)
        if t["k"] != "switch" or t["dty"] != "char":
            continue
        if not b.must_pass_edge(site, s, t["otherwise"]):
            continue
        arms = set(int(v) for v, _ in t["targets"])
        # the scrutinee comes (through `?`) from parse_next of peek(opt(one_of(set)))
        roots = prov(b, t["discr"])
        sets = []
        for r in roots:
            if r.kind == "call" and r.site is not None:
                for r2 in [r]:
                    if r2.kind == "call" and r2.site is not None:
                        ct = b.term(r2.site)
                        if (callee_def(ct) or "").endswith("Parser::parse_next"):
                            for r3 in _chase_ctor_args(b, ct["args"][0], ("combinator::peek", "combinator::opt", "token::one_of")):
                                if r3.kind == "agg" and r3.name == "array" and r3.site is not None:
                                    for st in b.blocks[r3.site]["stmts"]:
                                        if st["k"] == "assign" and st["rv"]["k"] == "aggregate" and st["rv"].get("agg") == "array":
                                            vals = set(f["op"].get("int") for f in st["rv"]["fields"])
                                            sets.append(vals)
        if not sets:
            return False, "cannot trace the scrutinee to a one_of([...]) set"
        for vals in sets:
            if vals != arms:
                return False, "one_of set %s != match arms %s" % (sorted(vals), sorted(arms))
        return True, "one_of set == arms == %s" % sorted(chr(a) for a in arms)
    return False, "no char switch guards the unreachable!"


def sup_aligned_comma_offset_is_prefix_len(P):
    b = P.body("<okane_core::syntax::pretty_decimal::PrettyDecimal as std::str::FromStr>::from_str")
    ck = b.key + "::{closure#0}"
    sites = [(bb, t) for bb, t in b.calls() if ck in callee_names(t)]
    if not sites:
        return False, "call of the aligned_comma closure not found"
    for bb, t in sites:
        tup = t["args"][1]
        vals = []
        for r in prov(b, tup, suffix=("0",)):
            vals.append(panics.const_root_int(r))
        if not vals or any(v is None or not (0 <= v <= 1) for v in vals):
            return False, "offset argument is not {0,1}: %s" % mir.prov_strs(b, tup)
    return True, "offset argument roots are the constants 0 / 1"


def sup_from_str_accumulate_is_checked(P):
    b = P.body("<okane_core::syntax::pretty_decimal::PrettyDecimal as std::str::FromStr>::from_str")
    for body in P.with_closures(b.key):
        for bb in sorted(body.live_blocks()):
            t = body.term(bb)
            if t["k"] == "assert" and t["kind"] == "Overflow" and t["binop"] in ("Mul", "Add"):
                for o in t["ops"]:
                    if o.get("k") in ("copy", "move") and body.local_ty(o["place"]["l"]) == "i128":
                        lv = [panics.const_root_int(r) for r in prov(body, t["ops"][0])]
                        if lv and all(v in (1, -1) for v in lv):
                            continue  # sign * mantissa
                        return False, "unchecked i128 %s at %s" % (t["binop"], body.loc(bb))
    return True, "no unchecked i128 accumulate"


def sup_digit_sub_guarded_by_is_ascii_digit(P):
    b = P.body("<okane_core::syntax::pretty_decimal::PrettyDecimal as std::str::FromStr>::from_str")
    n = 0
    for bb in sorted(b.live_blocks()):
        t = b.term(bb)
        if t["k"] == "assert" and t["kind"] == "Overflow" and t["binop"] == "Sub":
            r0 = prov(b, t["ops"][1])
            if not (r0 and all(str(r.name) in ("'0'", "48_u32", "48_u8") for r in r0)):
                continue
            n += 1
            ok = False
            for cn, lab, ct in q.guard_calls(b, bb):
                if cn.endswith("is_ascii_digit") and lab is True and \
                        panics.same_root_loose(b, ct["args"][0], t["ops"][0]):
                    ok = True
            if not ok:
                return False, "digit subtraction not under is_ascii_digit()"
    return (n > 0), "%d digit subtraction(s) under is_ascii_digit()" % n


def sup_unfilled_index(P):
    """every value that can reach the index is the enumerate() counter of the posting loop (wrapped by Tracked::new and
    remembered in `unfilled`), and that loop pushes exactly one posting per completed iteration"""
    b = P.body("okane_core::report::book_keeping::add_transaction")
    idx_sites = mir.call_sites(b, ["std::ops::Index::index", "std::ops::IndexMut::index_mut"])
    if not idx_sites:
        return False, "no index site"

    def is_counter(body, op):
        return q.all_roots(body, op, lambda x: x.kind == "call" and x.name.endswith("Iterator>::next") and "Enumerate" in x.name
                           and tuple(x.fields[-1:]) == ("0",))
    news = []

    def index_roots(op, depth=0):
        """roots of the index operand, looking through `slot.map(|u| *u.as_undecorated())` (the closure only unwraps)"""
        out = []
        for r in prov(b, op):
            if r.kind == "call" and str(r.name).endswith("Option::map") and r.site is not None and depth < 3:
                mt = b.term(r.site)
                clo = None
                for x in prov(b, mt["args"][1]):
                    if x.kind in ("agg", "closure"):
                        clo = P.bodies.get(str(x.name).replace("closure:", ""))
                if clo is not None and q.all_roots(clo, {"k": "copy", "place": {"l": 0, "p": []}}, lambda y: y.kind == "param"):
                    # what the closure is applied to: the Some payload of the slot
                    out += [x for x in prov(b, mt["args"][0], suffix=("#Some", "0"))]
                    continue
            out.append(r)
        return out
    for bb, t in idx_sites:
        for r in index_roots(t["args"][1]):
            if r.kind == "agg" and r.name.endswith("Option::None"):
                continue            # the empty slot: not a Some payload
            if r.kind == "call" and (r.name.endswith("Option::replace") or r.name.endswith("Option::take")):
                continue            # the slot's previous content: the same values again
            if r.kind == "call" and r.name.endswith("Tracked::new") and r.site is not None:
                if not is_counter(b, b.term(r.site)["args"][0]):
                    return False, "the remembered index is not the enumerate() counter: %s" % mir.prov_strs(b, b.term(r.site)["args"][0])
                news.append(r.site)
                continue
            return False, "index root %s" % mir.show_root(r)
    # what Option::replace stores is such a value too
    for rbb, rt in mir.call_sites(b, ["std::option::Option::replace"]):
        ok = False
        for r in prov(b, rt["args"][1]):
            if r.kind == "call" and r.name.endswith("Tracked::new") and r.site is not None and is_counter(b, b.term(r.site)["args"][0]):
                ok = True
                news.append(r.site)
        if not ok:
            return False, "unfilled is not set from the enumerate() index: %s" % mir.prov_strs(b, rt["args"][1])
    if not news:
        return False, "no Tracked::new(i, ..) of the loop counter reaches the slot"
    # one push per iteration: every back edge of the posting loop passes the push
    pushes = q.blocks_calling(b, ["bumpalo::collections::Vec::push"])
    loops = b.loops()
    lp = [h for h, blks in loops.items() if all(n in blks for n in news)]
    if len(pushes) != 1 or not lp:
        return False, "push / loop not found"
    h = min(lp, key=lambda x: len(loops[x]))
    for (u, v) in b.back_edges():
        if v == h:
            # u reachable from header only through the push block
            if u in b.reach_from(h, without_blocks=(pushes[0],)) and u != h:
                return False, "an iteration can continue without pushing a posting"
    return True, "index = enumerate() counter stored in unfilled; one push per completed iteration"


def sup_try_from_syntax_rejects_zero_amount(P):
    return shared.try_from_syntax_table(P)


def sup_exchange_only_from_try_from_syntax(P):
    ex = "okane_core::report::book_keeping::Exchange"
    # a constructor handed on as a function value (`let wrap: fn(..) -> Exchange = Exchange::Rate`) builds the value
    # wherever it is mentioned
    sites = [s for s in q.aggregates_of(P, ex) if q.not_test(s[0])] + [s for s in q.ctor_value_refs(P, ex) if q.not_test(s[0])]
    bad = sorted(set(s[0].key for s in sites if s[0].key != ex + "::try_from_syntax"))
    if bad or not sites:
        return False, "book_keeping::Exchange constructed in %s" % (bad or "nowhere")
    cp = "okane_core::report::book_keeping::ComputedPosting"
    sites2 = [s for s in q.aggregates_of(P, cp) if q.not_test(s[0])] + [s for s in q.ctor_value_refs(P, cp) if q.not_test(s[0])]
    bad2 = sorted(set(s[0].key for s in sites2 if s[0].key != cp + "::compute_from_syntax"))
    if bad2 or not sites2:
        return False, "ComputedPosting constructed in %s" % (bad2 or "nowhere")
    return True, "Exchange built only in try_from_syntax; ComputedPosting only in compute_from_syntax"


def sup_intern(P):
    return shared.intern_impl_after_absent_lookup(P)


def sup_rates_index(P):
    b = P.body("okane_core::report::price_db::NaivePriceRepository::compute_price_table")
    sites = mir.call_sites(b, ["std::ops::Index::index"])
    if len(sites) != 1:
        return False, "expected one rates[..] site"
    bb, t = sites[0]
    vec, idx = t["args"]
    # idx = bound - 1 with bound = partition_point(rates)
    for r in prov(b, idx):
        if not (r.kind == "op" and r.name.startswith("Sub")):
            return False, "index is not bound - 1"
        blk = b.blocks[r.site]
        found = False
        for st in blk["stmts"]:
            if st["k"] == "assign" and st["rv"]["k"] == "binop" and st["rv"]["op"].startswith("Sub"):
                l, rr = st["rv"]["l"], st["rv"]["r"]
                if rr.get("int") != 1:
                    continue
                for r2 in prov(b, l):
                    if r2.kind == "call" and r2.name == "core::slice::partition_point":
                        pv = b.term(r2.site)["args"][0]
                        if panics.same_root_loose(b, pv, vec):
                            found = True
        if not found:
            return False, "bound is not partition_point of the indexed vector"
    return True, "rates[partition_point(rates) - 1]"


SHORT_CIRCUIT_CONSUMERS = ("try_for_each", "try_fold", "next", "find", "find_map", "any", "all", "position")
LAZY_ADAPTERS = ("map", "map_err", "into_iter", "by_ref", "enumerate", "peekable", "inspect", "fuse", "take", "take_while",
                 "map_while", "scan", "zip", "chain")


def sup_parsed_iter_loop_leaves_on_err(P):
    """ParsedIter::next keeps returning the same Err once the parser failed; every consumer of a ParsedIter must
    therefore stop at the first Err item: a loop that leaves through `?` / return on Err, or a std consumer that
    short-circuits (try_for_each, try_fold, collect into a Result, ...)."""
    nloops = nconsumers = 0
    for b in sorted(P.bodies.values(), key=lambda b: b.key):
        if not q.not_test(b) or b.crate not in ("okane_core", "okane-core", "okane"):
            pass
        for bb, t in b.calls():
            cn = callee(t) or ""
            if not t["args"] or t["args"][0].get("k") not in ("copy", "move"):
                continue
            a0ty = str(b.local_ty(t["args"][0]["place"]["l"]))
            if "parse::adaptor::ParsedIter<" not in a0ty:
                continue
            last = cn.rsplit("::", 1)[-1].split("<")[0]
            if b.key.startswith("<okane_core::parse::adaptor::ParsedIter"):
                continue
            if last == "next" and cn.startswith("<okane_core::parse::adaptor::ParsedIter"):
                loops = [blks for h, blks in b.loops().items() if bb in blks]
                if not loops:
                    nconsumers += 1
                    continue        # a single item is taken
                blks = min(loops, key=len)
                nloops += 1
                ok = False
                for bb2 in blks:
                    t2 = b.term(bb2)
                    if t2["k"] == "call" and (callee_def(t2) or "").endswith("Try::branch"):
                        def from_next(r, b=b, t=t):
                            if r.kind != "call":
                                return False
                            if r.name == callee(t):
                                return True
                            if r.name == "std::result::Result::map_err" and r.site is not None:
                                return q.all_roots(b, b.term(r.site)["args"][0],
                                                   lambda r2: r2.kind == "call" and r2.name == callee(t))
                            return False
                        if q.all_roots(b, t2["args"][0], from_next):
                            ds = mir.describe_switch(b, t2["target"])
                            if ds and ds[0] == "variant":
                                for tb, labs in ds[2].items():
                                    if "Break" in labs and tb not in blks:
                                        ok = True
                if not ok:
                    # match item { Err(e) => return / break, .. }: the Err arm never comes back to the loop header
                    for bb2 in blks:
                        ds = mir.describe_switch(b, bb2)
                        if ds and ds[0] == "variant" and any(r.kind == "call" and r.name == callee(t) for r in ds[1]):
                            for tb, labs in ds[2].items():
                                if "Err" in labs and bb not in b.reach_from(tb):
                                    ok = True
                if not ok:
                    return False, "%s: Err item does not leave the loop at %s" % (b.key, b.loc(bb))
                continue
            if last in LAZY_ADAPTERS:
                continue            # the adapted iterator still has the ParsedIter in its type: its consumer is judged
            if last == "collect":
                dty = str(b.local_ty(t["dest"]["l"]))
                if dty.startswith(("std::result::Result<", "core::result::Result<")):
                    nconsumers += 1
                    continue
                return False, "%s collects a ParsedIter into %s (does not stop at the first Err)" % (b.key, dty[:60])
            if last in SHORT_CIRCUIT_CONSUMERS:
                nconsumers += 1
                if last in ("try_for_each", "try_fold"):
                    # the closure must hand the Err item on: its argument reaches a `?`
                    ok = False
                    for a in t["args"][1:]:
                        for r in prov(b, a):
                            if r.kind in ("closure", "agg") and str(r.name).startswith(("closure:", "")):
                                ck = str(r.name).replace("closure:", "")
                                cb = P.bodies.get(ck)
                                if cb is None:
                                    continue
                                for bb3, t3 in cb.calls():
                                    if (callee_def(t3) or "").endswith("Try::branch") and q.all_roots(
                                            cb, t3["args"][0], lambda r3: r3.kind == "param" or (r3.kind == "call" and r3.name == "std::result::Result::map_err")):
                                        ok = True
                    if not ok:
                        return False, "%s: the %s closure does not propagate the Err item" % (b.key, last)
                continue
            if cn.startswith(("std::mem::drop", "core::mem::drop")) or last in ("drop", "drop_in_place", "size_hint", "clone"):
                continue
            return False, "%s passes a ParsedIter to %s, which does not stop at the first Err" % (b.key, cn[-60:])
    if nloops + nconsumers < 3:
        return False, "expected at least three ParsedIter consumers, found %d" % (nloops + nconsumers)
    return True, "%d ParsedIter loops leave on the first Err, %d short-circuiting consumers" % (nloops, nconsumers)


def sup_from_values_callers(P):
    key = "okane_core::report::eval::amount::Amount::from_values"
    callers = [c for c in q.callers_of(P, key) if q.not_test(c[0])]
    for b, bb, t in callers:
        a0 = t["args"][0]
        ty = b.local_ty(a0["place"]["l"]) if a0.get("k") in ("copy", "move") else a0.get("ty", "")
        if not (ty.startswith("[") or ty.startswith("std::vec::Vec") or "HashMap" in ty
                or panics.iter_type_finite(P, ty)):
            return False, "%s passes %s" % (b.key, ty)
    return True, "%d non-test caller(s), all finite collections" % len(callers)


def sup_dijkstra(P):
    """the queue only grows when the stored distance of the node is absent or strictly worse than the new one:
    inside the relaxation loop, after a successful `stored <= new` comparison the push is unreachable within the
    same iteration, and the push is preceded by a lookup of the node in the distance map"""
    from analysis import inline
    key = "okane_core::report::price_db::NaivePriceRepository::compute_price_table"
    b = P.body(key)
    if not getattr(b, "inlined_callees", None):
        b = inline.normalized(P, key)
    loops = b.loops()
    pushes = [(bb, t) for bb, t in mir.call_sites(b, ["std::collections::BinaryHeap::push"])
              if any(bb in blks for blks in loops.values())]
    if len(pushes) != 1:
        return False, "expected one push inside the loop, found %d" % len(pushes)
    pbb, pt = pushes[0]
    header, blks = min(((h, bl) for h, bl in loops.items() if pbb in bl), key=lambda x: len(x[1]))

    def stored(o):
        for r in prov(b, o):
            n = str(r.name)
            if r.kind == "call" and ("HashMap" in n or "hash_map" in n or "Entry" in n or "BTreeMap" in n) and \
                    n.rsplit("::", 1)[-1] in ("get", "get_mut", "entry", "insert"):
                return True
        return False
    want = {"std::cmp::PartialOrd::le": (0, True), "std::cmp::PartialOrd::ge": (1, True),
            "std::cmp::PartialOrd::lt": (1, False), "std::cmp::PartialOrd::gt": (0, False)}
    found = 0
    for bb in sorted(blks):
        t = b.term(bb)
        if t["k"] != "call" or callee_def(t) not in want or len(t["args"]) != 2:
            continue
        si, lab = want[callee_def(t)]
        if not stored(t["args"][si]) or stored(t["args"][1 - si]):
            continue
        # where does the comparison result go?
        hit = False
        for sb in sorted(blks):
            ds = mir.describe_switch(b, sb)
            if ds and ds[0] == "call" and ds[1][2] == bb:
                for tb, labs in ds[2].items():
                    if lab in labs:
                        hit = True
                        if pbb in b.reach_from(tb, without_blocks=(header,)):
                            return False, "the push is reachable in the same iteration after `stored <= new` held (%s)" % b.loc(bb)
        if hit:
            found += 1
    if not found:
        return False, "no `stored distance <= new distance` comparison decides the push"
    look = [bb for bb, t in b.calls() if bb in blks and (callee(t) or "").rsplit("::", 1)[-1] in ("get", "entry", "get_mut")
            and "Map" in (callee(t) or "")]
    if not any(b.must_pass_block(pbb, l) for l in look):
        return False, "the push is not preceded by a lookup of the node's stored distance"
    return True, "queue.push only when the stored distance is absent or was strictly improved (%d comparison(s))" % found


def _iterates(b, o, pred, depth=0):
    """operand o is an iterator over (a chain of lazy adapters over) a collection whose roots all satisfy pred"""
    rs = prov(b, o)
    if not rs or depth > 6:
        return False
    for r in rs:
        if pred(r):
            continue
        if r.kind == "call" and r.site is not None and b.term(r.site)["args"]:
            last = str(r.name).rsplit("::", 1)[-1].split("<")[0]
            if last in ("iter", "iter_mut", "into_iter", "map", "copied", "cloned", "rev", "by_ref", "as_slice", "deref", "filter", "inspect") \
                    and _iterates(b, b.term(r.site)["args"][0], pred, depth + 1):
                continue
        return False
    return True


def sup_load_impl_recursion(P):
    """the recursive call is only reachable when `ancestors` did not contain the current
    path, the path is pushed before the recursion, and the same vector is passed down"""
    key = "okane_core::load::Loader::load_impl"
    b = P.body(key)

    def is_anc(r):
        return q.is_param(r, "ancestors") or (r.kind == "capture" and r.name == "ancestors")
    # recursive calls in the function itself or in a closure it hands to an iterator consumer (try_for_each ...);
    # for a closure, the guards are those in force where the closure is built
    rec = [(b, bb, t, bb) for bb, t in b.calls() if key in callee_names(t)]
    for cb in P.closures_of(key):
        for bb, t in cb.calls():
            if key in callee_names(t):
                site = None
                for i, blk in enumerate(b.blocks):
                    for st in blk["stmts"]:
                        if st["k"] == "assign" and st["rv"]["k"] == "aggregate" and st["rv"].get("agg") == "closure" \
                                and norm(st["rv"].get("closure")) == cb.key:
                            site = i
                if site is None:
                    return False, "recursive call in %s, whose construction site is not in load_impl" % cb.key
                rec.append((cb, bb, t, site))
    if not rec:
        return False, "no recursive call found"
    # index of the `ancestors` parameter
    anc = None
    for i in range(1, b.argc + 1):
        if b.local_name(i) == "ancestors":
            anc = i
    if anc is None:
        return False, "no `ancestors` parameter"
    pushes = [bb for bb, t in mir.call_sites(b, ["std::vec::Vec::push"])
              if q.all_roots(b, t["args"][0], lambda r: q.is_param(r, "ancestors"))]
    if not pushes:
        return False, "current path is never pushed to ancestors"
    for rb, rbb, t, bb in rec:
        passed = t["args"][anc - 1]
        if not q.all_roots(rb, passed, is_anc):
            return False, "recursive call does not pass `ancestors` down"
        if not any(b.must_pass_block(bb, p) for p in pushes):
            return False, "recursive call not dominated by ancestors.push(current)"
        ok = False
        for cn, lab, ct in q.guard_calls(b, bb):
            if callee_def(ct) in ("std::iter::Iterator::any",) and lab is False:
                # the receiver iterates `ancestors`
                if _iterates(b, ct["args"][0], lambda r2: q.is_param(r2, "ancestors")):
                    ok = True
            if callee_def(ct) in ("core::slice::contains", "std::collections::HashSet::contains",
                                  "std::collections::BTreeSet::contains") and lab is False:
                if q.all_roots(b, ct["args"][0], lambda r: q.is_param(r, "ancestors")):
                    ok = True
            if callee_def(ct) in ("std::collections::HashSet::insert", "std::collections::BTreeSet::insert") and lab is True:
                if q.all_roots(b, ct["args"][0], lambda r: q.is_param(r, "ancestors")):
                    ok = True
        if not ok:
            return False, "recursive call not guarded by an absent-membership test on ancestors"
    # the root call starts with a fresh collection
    outer = [c for c in q.callers_of(P, key) if c[0].key.split("::{closure")[0] != key and q.not_test(c[0])]
    for ob, obb, ot in outer:
        a = ot["args"][anc - 1]
        if not q.all_roots(ob, a, lambda r: r.kind == "call" and r.name in ("std::vec::Vec::new", "std::collections::HashSet::new")):
            return False, "outer caller %s does not start with an empty collection" % ob.key
    # the tested and the pushed value must be the same canonical path (else `a/../b` style cycles slip through)
    from . import C11
    pushes2 = [(bb, t) for bb, t in mir.call_sites(b, ["std::vec::Vec::push"])
               if q.all_roots(b, t["args"][0], lambda r: q.is_param(r, "ancestors"))]
    for bb, t in pushes2:
        if not q.chain_ok(b, t["args"][1], C11.is_canon, stop=True):
            return False, "what is pushed on the include stack is not the canonical path"
    for bb, t in b.calls():
        if callee_def(t) == "std::iter::Iterator::any":
            for r in prov(b, t["args"][1]):
                if r.kind == "agg" and r.name.startswith("closure:") and r.site is not None:
                    for st in b.blocks[r.site]["stmts"]:
                        if st["k"] == "assign" and st["rv"]["k"] == "aggregate" and st["rv"].get("agg") == "closure":
                            for f in st["rv"]["fields"]:
                                if not q.chain_ok(b, f["op"], C11.is_canon, stop=True):
                                    return False, "the membership test compares the raw include path, not the canonical one"
        if callee_def(t) == "core::slice::contains" and q.all_roots(b, t["args"][0], lambda r: q.is_param(r, "ancestors")):
            if not q.chain_ok(b, t["args"][1], C11.is_canon, stop=True):
                return False, "contains() is given the raw include path, not the canonical one"
    return True, "recursion under !ancestors.any(== canonical path), after ancestors.push(canonical path), same vector passed down"


SUPPORT = {
    "load_impl_recursion_guarded_by_ancestors": sup_load_impl_recursion,
    "parsed_iter_over_complete_str": sup_parsed_iter_over_complete_str,
    "parsed_context_built_only_in_next_impl": sup_parsed_context_built_only_in_next_impl,
    "compute_line_number_callers": sup_compute_line_number_callers,
    "split_dominated_by_len_assert": sup_split_dominated_by_len_assert,
    "lot_arms_cover_one_of": sup_lot_arms_cover_one_of,
    "aligned_comma_offset_is_prefix_len": sup_aligned_comma_offset_is_prefix_len,
    "from_str_accumulate_is_checked": sup_from_str_accumulate_is_checked,
    "digit_sub_guarded_by_is_ascii_digit": sup_digit_sub_guarded_by_is_ascii_digit,
    "unfilled_index_from_enumerate_and_one_push_per_iteration": sup_unfilled_index,
    "try_from_syntax_rejects_zero_amount": sup_try_from_syntax_rejects_zero_amount,
    "computed_posting_exchange_only_from_try_from_syntax": sup_exchange_only_from_try_from_syntax,
    "intern_impl_called_after_absent_lookup": sup_intern,
    "rates_index_is_partition_point_of_same_vec": sup_rates_index,
    "parsed_iter_loop_leaves_on_err": sup_parsed_iter_loop_leaves_on_err,
    "from_values_callers_pass_finite": sup_from_values_callers,
    "dijkstra_push_guarded_by_improvement": sup_dijkstra,
}




class Surface:
    """settles panic-surface instances against the table; caches support results"""

    def __init__(self, P, chk):
        self.P = P
        self.chk = chk
        table = common.load_table("panic_sites.toml")
        self.entries = {e["key"]: e for e in table["site"]}
        self.used = set()
        self.sup_cache = {}
        chk.rule(R_SRC, "every Assert terminator and panic-by-contract call in scope is guarded, tabled with verified support, or a known finding")
        chk.rule(R_SUP, "machine-checked supporting obligation of a table entry")

    def support_ok(self, names):
        allok = True
        for n in names:
            if n not in self.sup_cache:
                fnc = SUPPORT.get(n)
                if fnc is None:
                    self.sup_cache[n] = (False, "unknown support obligation")
                else:
                    try:
                        self.sup_cache[n] = fnc(self.P)
                    except mir.AnchorMissing as e:
                        self.sup_cache[n] = (False, "anchor missing: %s" % e)
            allok = allok and self.sup_cache[n][0]
        return allok

    def settle(self, rule, inst_key, where, detail, auto):
        chk = self.chk
        if auto:
            chk.ok(rule, inst_key, where, "guard idiom: " + auto)
            return True
        e = self.entries.get(inst_key)
        if e is not None:
            self.used.add(inst_key)
            sup = e.get("support", [])
            if self.support_ok(sup):
                chk.ok(rule, inst_key, where, "table: " + e["reason"])
                return True
            bad = [n for n in sup if not self.sup_cache[n][0]]
            chk.fail(rule, inst_key, where,
                     "table entry's supporting obligation failed: " +
                     "; ".join("%s: %s" % (n, self.sup_cache[n][1]) for n in bad))
            return False
        chk.fail(rule, inst_key, where, "unreviewed " + detail)
        return False

    def views(self, bodies):
        """The program was normalised at load time (analysis/inline.normalize_program): functions that did not exist
        on the pinned tree are judged inlined into the known functions that call them."""
        hs = getattr(self.P, "normalized_helpers", [])
        if hs and not getattr(self, "_noted", False):
            self._noted = True
            self.chk.note("helper functions not on the pinned tree, judged inlined into their callers: %s" % sorted(hs))
        return list(bodies)

    def sources(self, bodies, select=None):
        bodies = self.views(bodies)
        src = panics.enumerate_sources(self.P, bodies)
        if select:
            src = [i for i in src if select(i)]
        self.chk.add_sites(len(src))
        pending = []
        for inst in sorted(src, key=lambda i: i.key):
            auto = panics.try_discharge(self.P, inst)
            if auto or inst.key in self.entries or ("%s|%s" % (R_SRC, inst.key)) in self.chk.known:
                self.settle(R_SRC, inst.key, inst.body.loc(inst.bb), inst.detail, auto)
            else:
                pending.append(inst)
        # sites whose code moved (helper inlined into its caller, function renamed): same kind and operands as a tabled
        # site of the same source file whose own function no longer has it
        def fuzz(desc):
            # parameter / local names are not part of a site's identity once it has moved: keep the last field only
            def tok(m):
                w = m.group(0)
                if re.fullmatch(r"[a-z_][a-z0-9_]*(\.[A-Za-z0-9_#]+)+", w):
                    return "*." + w.rsplit(".", 1)[1]
                if re.fullmatch(r"[a-z_][a-z0-9_]*", w):
                    return "*"
                return w
            return re.sub(r"[^(),|]+", tok, desc)
        for inst in pending:
            portable = inst.key.split("|", 1)[1] if "|" in inst.key else inst.key
            moved = None
            def opname(d):
                # 'Overflow|Mul(..' -> 'Overflow|Mul', 'index|Vec<..:index(..' -> 'index|index'
                kind, rest = (d.split("|", 1) + [""])[:2]
                return kind + "|" + rest.split("(", 1)[0].rsplit(":", 1)[-1]
            for level in (0, 1, 2):
              if moved is not None:
                  break
              for k, e in self.entries.items():
                if "|" not in k:
                    continue
                # an entry of a function that is gone may cover several sites: its code now sits in each former caller
                if k in self.used and (k.split("|", 1)[0] in self.P.bodies or level == 2 or k not in getattr(self, "moved_used", set())):
                    continue
                a1, b1 = k.split("|", 1)[1].split("#")[0], portable.split("#")[0]
                if level == 2:
                    # the site was rewritten in place: the same function has exactly one unreviewed site and exactly one
                    # vanished table entry of this kind and operation
                    fn0 = k.split("|", 1)[0]
                    same = fn0 == inst.key.split("|", 1)[0] and opname(a1) == opname(b1)
                    if same:
                        cand_e = [k2 for k2 in self.entries if k2 not in self.used and k2.split("|", 1)[0] == fn0 and
                                  opname(k2.split("|", 1)[1]) == opname(a1) and not any(i2.key == k2 for i2 in src)]
                        cand_i = [i2 for i2 in pending if i2.key.split("|", 1)[0] == fn0 and opname(i2.key.split("|", 1)[1]) == opname(a1)]
                        same = len(cand_e) == 1 and len(cand_i) == 1
                    hit = same
                else:
                    hit = (a1 == b1) if level == 0 else (fuzz(a1) == fuzz(b1) and a1.split("|")[0] == b1.split("|")[0])
                if hit:
                    fn = k.split("|", 1)[0]
                    ob = self.P.bodies.get(fn)
                    same_file = ob is None or ob.file == inst.body.file
                    still_there = ob is not None and any(i2.key == k for i2 in src)
                    if same_file and not still_there:
                        moved = k
                        break
            if moved is not None:
                e = self.entries[moved]
                self.used.add(moved)
                if not hasattr(self, "moved_used"):
                    self.moved_used = set()
                self.moved_used.add(moved)
                if self.support_ok(e.get("support", [])):
                    self.chk.ok(R_SRC, inst.key, inst.body.loc(inst.bb), "table (site moved from %s): %s" % (moved.split("|", 1)[0], e["reason"]))
                    continue
            self.settle(R_SRC, inst.key, inst.body.loc(inst.bb), inst.detail, None)
        return src

    def ranges(self, bodies):
        bodies = self.views(bodies)
        self.chk.rule(R_RANGE, "no consuming call on an unbounded std iterator (RangeFrom, repeat, ...)")
        r = panics.range_from_sources(self.P, bodies)
        self.deferred_ranges = getattr(self, "deferred_ranges", [])
        for inst in r:
            if "Successors<" in inst.detail and inst.key not in self.entries:
                # `successors(first, |x| next(x))` is a loop written as an iterator: judged with the function's loop
                self.deferred_ranges.append(inst)
                continue
            self.settle(R_RANGE, inst.key, inst.body.loc(inst.bb), inst.detail, None)
        return r

    def _settle_deferred(self):
        for inst in getattr(self, "deferred_ranges", []):
            fn = inst.key.split("|", 1)[0]
            k = getattr(self, "respelled", {}).get(fn)
            if k is not None:
                self.chk.ok(R_RANGE, inst.key, inst.body.loc(inst.bb), "the successors() iterator is the function's tabled loop (%s): %s"
                            % (k.split("|", 1)[1], self.entries[k]["reason"]))
            else:
                self.settle(R_RANGE, inst.key, inst.body.loc(inst.bb), inst.detail, None)
        self.deferred_ranges = []

    def _respelled_loop(self, inst, present):
        """a loop written with another iteration construct (`while let Some(x) = f(x)` <-> `for x in successors(..)`):
        the function's only vanished loop entry, when this is the function's only unreviewed loop"""
        fn = inst.key.split("|", 1)[0]
        gone = [k for k in self.entries if k.split("|", 1)[0] == fn and "|loop|" in k and k not in present and k not in self.used]
        return gone[0] if len(gone) == 1 else None

    def loops(self, bodies):
        bodies = self.views(bodies)
        self.chk.rule(R_LOOP, "every natural loop exits on None of a finite std iterator, or is tabled")
        loops = panics.loop_sources(self.P, bodies)
        present = set(i.key for i, w in loops)
        open_by_fn = {}
        for inst, why in loops:
            if not why and inst.key not in self.entries and ("%s|%s" % (R_LOOP, inst.key)) not in self.chk.known:
                open_by_fn.setdefault(inst.key.split("|", 1)[0], []).append(inst)
        self.respelled = {}
        for inst, why in loops:
            fn = inst.key.split("|", 1)[0]
            if not why and inst.key not in self.entries and len(open_by_fn.get(fn, [])) == 1:
                k = self._respelled_loop(inst, present)
                if k is not None and self.support_ok(self.entries[k].get("support", [])):
                    self.used.add(k)
                    self.respelled[fn] = k
                    self.chk.ok(R_LOOP, inst.key, inst.body.loc(inst.bb), "table (the function's loop, written with another construct; entry %s): %s"
                                % (k.split("|", 1)[1], self.entries[k]["reason"]))
                    continue
            self.settle(R_LOOP, inst.key, inst.body.loc(inst.bb), inst.detail, why)
        self._settle_deferred()
        return loops

    def sccs(self, bodies):
        self.chk.rule(R_SCC, "every call-graph cycle is tabled with its bound, or is a known finding")
        cone = set(b.key for b in bodies)
        n = 0
        for comp in self.P.sccs():
            if not any(k in cone for k in comp):
                continue
            n += 1
            key = "scc|" + comp[0]
            b0 = self.P.bodies[comp[0]]
            self.settle(R_SCC, key, b0.loc(),
                        "recursion cycle of %d function(s): %s" % (len(comp), ", ".join(comp[:6])), None)
        return n

    def finish(self, report_stale=True):
        self._settle_deferred()
        for n, (ok, detail) in sorted(self.sup_cache.items()):
            if ok:
                self.chk.ok(R_SUP, n, "", detail)
        if report_stale:
            stale = sorted(set(self.entries) - self.used)
            if stale:
                self.chk.note("stale table entries (site no longer present): %d: %s"
                              % (len(stale), "; ".join(s[:90] for s in stale[:5])))
            self.chk.extra["stale_table_entries"] = stale
