"""C09 — commodity conversion uses the right price."""
from analysis import mir, q, tables, panics
from analysis.mir import norm, callee, callee_def, callee_names, prov
from . import common, shared, surface

EXPLANATION = (
    "Static structure / decision rules over the price repository.  (1) The as-of predicate of "
    "compute_price_table's partition_point is `record_date <= date` (true for the orderings < and =, "
    "false for >), the looked-up index is partition_point - 1 of the same vector under a non-zero "
    "guard, and the staleness passed on is `date - record_date`.  (2) Typestate 'sorted before "
    "lookup': NaivePriceRepository is built only in build_naive, where every rate vector is sorted "
    "unconditionally before the aggregate; rate vectors are pushed to only by the builder's "
    "insert_impl.  (3) Source precedence: insert_impl clears stored rates exactly when stored < new "
    "under PriceSource's derived order (Ledger < PriceDB by declaration order); insert_price stores "
    "both directions with swapped operands; the price DB loader inserts as PriceDB, book-keeping as "
    "Ledger.  (4) Chain cost: Distance derives Ord with fields declared in the order (ledger hops, "
    "hops, staleness); extend adds a ledger hop iff the source is Ledger, always one hop, and the "
    "max of the stalenesses; WithDistance's handwritten orderings delegate to the distance only.  "
    "(5) convert_single returns its argument when the commodity already matches, multiplies the "
    "value by the found rate otherwise, and returns RateNotFound on the None arm; every conversion "
    "error is propagated (E9).  (6) neighbours are visited in a deterministic (sorted) order.  "
    "Optimality of the search and the rate product are not decided."
)

PD = "okane_core::report::price_db"
R_ASOF = "E5.as-of-predicate"
R_SORT = "E6.sorted-before-lookup"
R_SRC = "E5.source-precedence"
R_DIST = "E8.distance-order"
R_CONV = "E5.convert-single"
R_E9 = "E9.error-chain"


def as_of(P, chk):
    b = P.body(PD + "::NaivePriceRepository::compute_price_table")
    chk.analysed(b)
    pps = mir.call_sites(b, ["core::slice::partition_point"])
    if len(pps) != 1:
        chk.anchor_missing("compute_price_table: expected one partition_point, found %d" % len(pps))
        return
    bb, t = pps[0]
    clo = None
    for r in prov(b, t["args"][1]):
        if r.kind in ("closure",) or (r.kind == "agg" and r.name.startswith("closure:")):
            clo = r.name.replace("closure:", "")
    c = P.bodies.get(clo) if clo else None
    if c is None:
        chk.fail(R_ASOF, "compute_price_table|partition_point-closure", b.loc(bb), "predicate closure not found")
        return
    chk.analysed(c)
    # the closure must return the result of one comparison between the element's date and the captured date
    sym = lambda roots: tables.sym_of(roots, [
        (lambda r: r.kind == "param" and r.name.startswith("2:") and r.fields[:1] == ("0",), "record"),
        (lambda r: r.kind == "capture" and r.name == "date", "date"),
    ])
    ok = True
    detail = ""
    results = {}
    for order in tables.weak_orderings(["record", "date"]):
        vals = set()
        for p in mir.enumerate_paths(c):
            sh = p.shape
            if sh is None or sh[0] != "call":
                ok = False
                detail = "closure does not return a comparison result directly"
                continue
            ct = sh[2]
            f = None
            for n in callee_names(ct):
                f = tables.CMP_CALLS.get(n, f)
            a, d = sym(frozenset(prov(c, ct["args"][0]))), sym(frozenset(prov(c, ct["args"][1])))
            if f is None or a is None or d is None:
                ok = False
                detail = "unrecognised predicate %s(%s, %s)" % (callee(ct), mir.prov_strs(c, ct["args"][0]), mir.prov_strs(c, ct["args"][1]))
                continue
            vals.add(f(order[a], order[d]))
        want = order["record"] <= order["date"]
        rel = "<" if order["record"] < order["date"] else ("=" if order["record"] == order["date"] else ">")
        results[rel] = sorted(vals)
        if vals != {want}:
            ok = False
            detail = detail or "record %s date gives %s, specified %s" % (rel, sorted(vals), want)
    chk.require(ok, R_ASOF, "compute_price_table|record_date <= date", c.loc(), detail,
                "3 orderings: %s" % results)
    # staleness operand: date - record_date
    ext = mir.call_sites(b, [PD + "::Distance::extend"])
    oks = len(ext) == 1
    if oks:
        st = ext[0][1]["args"][2]
        oks = False
        for r in prov(b, st):
            if r.kind == "call" and r.site is not None and callee_def(b.term(r.site)) == "std::ops::Sub::sub":
                a0, a1 = b.term(r.site)["args"]
                if q.all_roots(b, a0, lambda x: q.is_param(x, "date")) and \
                        q.all_roots(b, a1, lambda x: x.kind == "call" and x.name == "std::ops::Index::index" or "index" in (x.name or "")):
                    oks = True
    chk.require(oks, R_ASOF, "compute_price_table|staleness = date - record_date", b.loc(),
                "the staleness passed to Distance::extend is not `date - record_date`", "date - rates[bound-1].0")
    # neighbours visited in sorted order (determinism of the tie-break)
    from . import C13 as c13
    coll = [bb2 for bb2, t2 in b.calls() if callee_def(t2) == "std::iter::Iterator::collect"]
    okd = any(c13.collect_then_sort(b, bb2) for bb2 in coll)
    chk.require(okd, R_ASOF, "compute_price_table|neighbours sorted before relaxation", b.loc(),
                "neighbours of a commodity are relaxed in hash order (tie-break between equal chains is not deterministic)",
                "neighbours collected and sorted by name")


def sorted_before_lookup(P, chk):
    npr = PD + "::NaivePriceRepository"
    sites = [s for s in q.aggregates_of(P, npr) if q.not_test(s[0])]
    bn = PD + "::PriceRepositoryBuilder::build_naive"
    bad = sorted(set(s[0].key for s in sites if s[0].key != bn))
    chk.require(bool(sites) and not bad, R_SORT, "NaivePriceRepository|constructed only in build_naive", "",
                "NaivePriceRepository is also constructed in %s" % bad, "%d construction site(s), all in build_naive" % len(sites))
    b = P.body(bn)
    chk.analysed(b)
    # the aggregate is dominated by a for_each over self.records whose closure chain sorts field 1 unconditionally
    fe = mir.call_sites(b, ["std::iter::Iterator::for_each"])
    ok = False
    detail = "no for_each over the records before the repository is built"
    for s in sites:
        if s[0].key != bn:
            continue
        for bb, t in fe:
            if not b.must_pass_block(s[1], bb):
                continue
            bad_adaptors = selecting_adaptors(b, t["args"][0])
            if bad_adaptors:
                detail = "the iteration that sorts the rate vectors is restricted by %s" % sorted(bad_adaptors)
                continue
            clo = closure_of(P, b, t["args"][1])
            okc, detail = closure_sorts_unconditionally(P, clo, 0)
            if okc:
                ok = True
    chk.require(ok, R_SORT, "build_naive|every rate vector sorted before construction", b.loc(), detail,
                "records.values_mut().for_each(.. values_mut().for_each(|x| x.1.sort()))")
    # only insert_impl pushes rates
    pushers = set()
    for body in P.bodies.values():
        if not q.not_test(body) or not body.key.startswith(PD):
            continue
        for bb, t in body.calls():
            if callee_def(t) == "std::vec::Vec::push":
                ty = body.local_ty(t["args"][0]["place"]["l"]) if t["args"][0].get("k") in ("copy", "move") else ""
                if "NaiveDate" in ty and "Decimal" in ty:
                    pushers.add(body.key)
    allowed_p = {PD + "::PriceRepositoryBuilder::insert_impl"} if P.maybe_body(PD + "::PriceRepositoryBuilder::insert_impl") else \
        {PD + "::PriceRepositoryBuilder::insert_price"}       # insert_impl folded into its only caller
    chk.require(bool(pushers) and pushers <= allowed_p, R_SORT, "rates|pushed only by insert_impl", "",
                "rate vectors are pushed to by %s" % sorted(pushers), "only the builder's insert_impl pushes rates")


RATE_VEC_OPS = {
    "push": "a price event is recorded (insert_impl)",
    "sort": "sorted once before lookup (build_naive)", "sort_unstable": "same", "sort_by_key": "same", "sort_unstable_by_key": "same",
    "sort_by": "same", "sort_unstable_by": "same",
    "clear": "a higher-priority source replaces lower-priority rates (source-precedence rule checks when)",
    "partition_point": "as-of lookup", "len": "read", "is_empty": "read", "iter": "read", "get": "read", "index": "read", "last": "read",
    "first": "read", "deref": "read", "deref_mut": "borrow for sort", "as_slice": "read", "binary_search_by_key": "read", "binary_search_by": "read",
}


def db_after_ledger(P, chk):
    """PriceDB rates replace ledger-derived ones only if they arrive later: process() must load the price DB after the ledger"""
    b = P.body("okane_core::report::book_keeping::process")
    chk.analysed(b)
    loads = [(bb, t) for bb, t in b.calls() if (callee_def(t) or "").endswith("Loader::load")]
    dbs = [(bb, t) for bb, t in b.calls() if (callee_def(t) or "").endswith("load_price_db")]
    ok = len(loads) == 1 and len(dbs) == 1 and b.must_pass_block(dbs[0][0], loads[0][0])
    chk.require(ok, R_SRC if "R_SRC" in globals() else R_SORT, "process|price DB loaded after the ledger", b.loc(dbs[0][0]) if dbs else b.loc(),
                "load_price_db is not preceded on every path by loader.load: ledger-derived rates inserted afterwards are appended to the "
                "DB-sourced entry instead of being replaced by it", "loader.load(..)?; then load_price_db(..)?")


def rate_records_kept(P, chk):
    """no recorded (date, rate) is ever dropped, merged or rewritten: only reviewed operations touch a rate vector"""
    n = 0
    bad = []
    for body in P.bodies.values():
        if not q.not_test(body) or not body.key.startswith(PD):
            continue
        for bb, t in body.calls():
            if not t["args"] or t["args"][0].get("k") not in ("copy", "move"):
                continue
            ty = body.local_ty(t["args"][0]["place"]["l"])
            if not ("NaiveDate" in ty and "Decimal" in ty and ("Vec<" in ty or "[(" in ty)):
                continue
            if "HashMap" in ty or "Entry" in ty.split("Vec<")[0]:
                continue
            cd = callee_def(t) or ""
            if not (cd.startswith(("std::vec::Vec::", "core::slice::", "std::slice::", "std::ops::Deref", "std::ops::Index")) or "slice" in cd):
                continue
            nm = cd.rsplit("::", 1)[-1]
            n += 1
            if nm not in RATE_VEC_OPS:
                bad.append("%s at %s" % (nm, body.loc(bb)))
    chk.add_sites(n)
    chk.floor("operations on rate vectors", n, 3)
    chk.require(not bad, R_SORT, "rates|recorded prices are never dropped, merged or rewritten", "",
                "a rate vector is modified by %s: the as-of price (and its date, which feeds staleness) can change" % bad,
                "only push / sort / the tabled clear, otherwise reads (%d operations)" % n)


ALL_ELEMENT_ADAPTORS = {"values_mut", "iter_mut", "flat_map", "flatten", "into_iter", "by_ref", "map", "iter", "values"}


def selecting_adaptors(body, operand, depth=0):
    """iterator adaptors on the receiver chain that may drop elements (filter, skip, take, ...)"""
    out = set()
    for r in prov(body, operand):
        if r.kind == "call" and r.site is not None and depth < 10:
            t = body.term(r.site)
            m = (callee_def(t) or "").rsplit("::", 1)[-1]
            if m not in ALL_ELEMENT_ADAPTORS:
                out.add(m)
            if t["args"]:
                out |= selecting_adaptors(body, t["args"][0], depth + 1)
    return out


def closure_of(P, body, operand):
    for r in prov(body, operand):
        if r.kind == "closure":
            return P.bodies.get(r.name)
        if r.kind == "agg" and r.name.startswith("closure:"):
            return P.bodies.get(r.name[len("closure:"):])
    if operand.get("k") == "const" and operand.get("closure"):
        return P.bodies.get(norm(operand["closure"]))
    return None


def closure_sorts_unconditionally(P, clo, depth):
    if clo is None or depth > 3:
        return False, "closure not found"
    sorts = [bb for bb, t in clo.calls() if (callee_def(t) or "").rsplit("::", 1)[-1] in
             ("sort", "sort_by", "sort_by_key", "sort_unstable", "sort_unstable_by", "sort_unstable_by_key")]
    if sorts:
        if q.every_return_passes(clo, sorts):
            # the sorted thing is field 1 of the entry
            t = clo.term(sorts[0])
            if any("1" in r.fields for r in prov(clo, t["args"][0])):
                return True, "sorts entry.1 on every path"
            return False, "sort is not applied to the rate vector (field 1)"
        return False, "a path through the closure skips the sort (conditional sort)"
    for bb, t in clo.calls():
        if callee_def(t) == "std::iter::Iterator::for_each":
            if not q.every_return_passes(clo, [bb]):
                return False, "inner for_each is conditional"
            bad = selecting_adaptors(clo, t["args"][0])
            if bad:
                return False, "inner iteration is restricted by %s" % sorted(bad)
            return closure_sorts_unconditionally(P, closure_of(P, clo, t["args"][1]), depth + 1)
    return False, "closure neither sorts nor iterates further"


def _array_elements(b, a0, a1):
    """when a0 / a1 are the two components of the element of a loop over a literal array of pairs: the (first, second)
    operands of every element of that array; None otherwise"""
    def elem(o):
        rs = list(prov(b, o))
        if len(rs) != 1:
            return None
        r = rs[0]
        if r.kind == "call" and "array::IntoIter" in str(r.name) and str(r.name).endswith("::next") and \
                r.fields[:2] == ("#Some", "0") and len(r.fields) >= 3 and r.site is not None:
            return r.site, r.fields[2]
        return None
    e0, e1 = elem(a0), elem(a1)
    if not e0 or not e1 or e0[0] != e1[0]:
        return None
    # the iterator comes from into_iter(<literal array>)
    arr = None
    for cn, r in q.chains(b, b.term(e0[0])["args"][0]):
        if r.kind == "agg" and r.name == "array" and r.site is not None:
            arr = r
        else:
            return None
    if arr is None:
        return None
    out = []
    for st in b.blocks[arr.site]["stmts"]:
        if st["k"] == "assign" and st["rv"]["k"] == "aggregate" and st["rv"].get("agg") == "array":
            for f in st["rv"]["fields"]:
                l = mir._operand_local(f["op"])
                d = mir.single_def(b, l) if l is not None else None
                if not d or d[0] != "assign" or d[4]["k"] != "aggregate" or d[4].get("agg") != "tuple":
                    return None
                fs = {x["name"]: x["op"] for x in d[4]["fields"]}
                if e0[1] not in fs or e1[1] not in fs:
                    return None
                out.append((fs[e0[1]], fs[e1[1]]))
    return out or None


def source_precedence(P, chk):
    adt = P.adt(PD + "::PriceSource")
    order = [v["name"] for v in adt["variants"]]
    derived = [i["trait"] for i in adt["impls"] if i["derived"]]
    chk.require(order == ["Ledger", "PriceDB"] and "std::cmp::Ord" in derived and "std::cmp::PartialOrd" in derived,
                R_SRC, "PriceSource|derived order Ledger < PriceDB", adt["span"]["file"] + ":%d" % adt["span"]["line"],
                "PriceSource variants %s, derived %s" % (order, sorted(derived)), "declaration order Ledger, PriceDB with derived Ord")
    b = P.maybe_body(PD + "::PriceRepositoryBuilder::insert_impl") or P.body(PD + "::PriceRepositoryBuilder::insert_price")
    chk.analysed(b)
    clears = mir.call_sites(b, ["std::vec::Vec::clear"])
    ok = len(clears) == 1
    detail = "expected exactly one clear()"
    if ok:
        bb, t = clears[0]
        ok = False
        detail = "clear() is not under `stored_source < source`"
        for cn, lab, ct in q.guard_calls(b, bb):
            d = callee_def(ct)
            if d in ("std::cmp::PartialOrd::lt", "std::cmp::PartialOrd::gt") and lab is True:
                l, r = ct["args"]
                if d == "std::cmp::PartialOrd::gt":
                    l, r = r, l
                stored = any(x.kind == "call" and "or_insert" in (x.name or "") and "0" in x.fields for x in prov(b, l))
                new = q.all_roots(b, r, lambda x: q.is_param(x, "source"))
                if stored and new:
                    ok = True
        # and the push is unconditional after the zero test
        pushes = q.blocks_calling(b, ["std::vec::Vec::push"])
        hdrs = tuple(h for h, blks in b.loops().items() if pushes and pushes[0] in blks and clears[0][0] in blks)
        if ok and not (len(pushes) == 1 and clears[0][0] not in b.reach_from(pushes[0], without_blocks=hdrs)):
            ok = False
            detail = "the new rate is not pushed after the (conditional) clear"
    chk.require(ok, R_SRC, "insert_impl|clear iff stored < new", b.loc(), detail, "entries.clear() only under stored_source < source; push follows")
    ip = P.body(PD + "::PriceRepositoryBuilder::insert_price")
    chk.analysed(ip)
    calls = mir.call_sites(ip, [PD + "::PriceRepositoryBuilder::insert_impl"])
    pairs = []

    def fld(o):
        fs = set()
        for r in prov(ip, o):
            if r.kind == "param" and r.name.endswith(":event"):
                fs.add(r.fields[0] if r.fields else "?")
            else:
                fs.add("?")
        return "|".join(sorted(fs))
    for bb, t in calls:
        # for (a, b) in [(x, y), (y, x)] { insert_impl(.., a, b) }: one call per element of the literal array
        elems = _array_elements(ip, t["args"][3], t["args"][4])
        if elems is not None:
            for e0, e1 in elems:
                pairs.append((fld(e0), fld(e1)))
            continue
        pairs.append((fld(t["args"][3]), fld(t["args"][4])))
    if not calls:
        # insert_impl folded in: one loop over [(x, y), (y, x)] whose body records price_with / price_of
        for bb, t in ip.calls():
            if callee_def(t) == "std::ops::Div::div" and len(t["args"]) == 2:
                elems = _array_elements(ip, t["args"][1], t["args"][0])      # (price_of, price_with) = (divisor, dividend)
                if elems is not None:
                    for e0, e1 in elems:
                        pairs.append((fld(e0), fld(e1)))
    chk.require(sorted(pairs) == [("price_x", "price_y"), ("price_y", "price_x")], R_SRC, "insert_price|both directions", ip.loc(),
                "insert_impl is called with %s" % pairs, "insert_impl(x, y) and insert_impl(y, x)")
    # who inserts with which source
    want = {PD + "::PriceRepositoryBuilder::load_price_db": "PriceDB"}
    for b2, bb, t in q.callers_of(P, PD + "::PriceRepositoryBuilder::insert_price"):
        if not q.not_test(b2):
            continue
        srcs = set()
        for r in prov(b2, t["args"][1]):
            if r.kind == "agg" and "PriceSource::" in r.name:
                srcs.add(r.name.rsplit("::", 1)[-1])
            else:
                srcs.add("?")
        exp = want.get(b2.key, "Ledger")
        chk.require(srcs == {exp}, R_SRC, "%s|inserts as %s" % (b2.key.rsplit("::", 1)[-1], exp), b2.loc(bb),
                    "%s inserts prices with source %s" % (b2.key, sorted(srcs)), "source = %s" % exp)


def distance_order(P, chk):
    adt = P.adt(PD + "::Distance")
    fields = [f["name"] for f in adt["variants"][0]["fields"]]
    derived = [i["trait"] for i in adt["impls"] if i["derived"]]
    chk.require(fields == ["num_ledger_conversions", "num_all_conversions", "staleness"] and
                "std::cmp::Ord" in derived and "std::cmp::PartialOrd" in derived,
                R_DIST, "Distance|lexicographic (ledger hops, hops, staleness)", adt["span"]["file"] + ":%d" % adt["span"]["line"],
                "Distance fields %s, derived %s" % (fields, sorted(derived)),
                "derived Ord over fields declared as (num_ledger_conversions, num_all_conversions, staleness)")
    # handwritten orderings of WithDistance delegate to field 0 only
    n = 0
    for b in P.bodies.values():
        if b.impl_self and b.impl_self.startswith(PD + "::WithDistance") and b.impl_trait and \
                ("PartialOrd" in b.impl_trait or "Ord" in b.impl_trait or "PartialEq" in b.impl_trait) and not b.is_closure:
            n += 1
            chk.analysed(b)
            ok = not b.derived
            cmpcalls = [t for bb, t in b.calls()]
            ok = ok and len(cmpcalls) == 1
            if ok:
                t = cmpcalls[0]
                a0 = t["args"][0]
                ok = q.all_roots(b, a0, lambda r: r.kind == "param" and r.name.startswith("1:") and r.fields[:1] == ("0",))
                a1 = t["args"][1]
                ok = ok and q.all_roots(b, a1, lambda r: r.kind == "param" and r.name.startswith("2:") and r.fields in (("0",), ()))
                ok = ok and (callee_def(t) or "").rsplit("::", 1)[-1] == b.key.rsplit("::", 1)[-1]
            chk.require(ok, R_DIST, "%s|delegates to the distance" % b.key, b.loc(),
                        "a WithDistance ordering does not simply compare the distances", "compares self.0 with other(.0)")
    chk.floor("WithDistance ordering impls", n, 5)
    # extend
    b = P.body(PD + "::Distance::extend")
    chk.analysed(b)
    add = {}
    for p in mir.enumerate_paths(b):
        lab = None
        for a in p.atoms:
            if a.kind == "variant" and any(q.is_param(r, "source") for r in a.subject):
                lab = a.label
        consts = []
        for bb in p.blocks:
            for st in b.blocks[bb]["stmts"]:
                if st["k"] == "assign" and st["rv"]["k"] == "use" and st["rv"]["op"].get("k") == "const" and \
                        "usize" in st["rv"]["op"].get("ty", "") and "int" in st["rv"]["op"]:
                    consts.append(st["rv"]["op"]["int"])
        if lab:
            add[lab] = consts
    ok = add.get(("Ledger",)) == [1] and add.get(("PriceDB",)) == [0]
    # aggregate fields
    agg = [s for s in q.aggregates_of(P, PD + "::Distance") if s[0].key == b.key]
    ok2 = len(agg) == 1
    if ok2:
        f = {x["name"]: x["op"] for x in agg[0][3]["fields"]}
        r1 = prov(b, f["num_ledger_conversions"])
        r2 = prov(b, f["num_all_conversions"])
        r3 = prov(b, f["staleness"])
        ok2 = all(r.kind == "op" and r.name.startswith("Add") for r in r1) and \
            all(r.kind == "op" and r.name.startswith("Add") for r in r2) and \
            all(r.kind == "call" and r.name == "std::cmp::max" for r in r3)
        if ok2:
            # operands of the adds
            def add_operands(roots):
                outs = []
                for r in roots:
                    for st in b.blocks[r.site]["stmts"]:
                        if st["k"] == "assign" and st["rv"]["k"] == "binop" and st["rv"]["op"].startswith("Add"):
                            outs.append((mir.prov_strs(b, st["rv"]["l"]), st["rv"]["r"].get("int"),
                                         mir.prov_strs(b, st["rv"]["r"])))
                return outs
            o2 = add_operands(r2)
            ok2 = ok2 and any("num_all_conversions" in " ".join(l) and c == 1 for l, c, _ in o2)
            o1 = add_operands(r1)
            ok2 = ok2 and any("num_ledger_conversions" in " ".join(l) for l, c, _ in o1)
            mx = b.term(list(r3)[0].site)["args"]
            ok2 = ok2 and any("staleness" in s for s in mir.prov_strs(b, mx[0])) and \
                q.all_roots(b, mx[1], lambda r: q.is_param(r, "staleness"))
    chk.require(ok and ok2, R_DIST, "Distance::extend|+1 ledger hop iff Ledger, +1 hop, max staleness", b.loc(),
                "extend adds %s per source; field construction ok=%s" % (add, ok2), "Ledger:+1/PriceDB:+0, hops+1, max(staleness)")


def convert_single(P, chk):
    b = P.body(PD + "::PriceRepository::convert_single")
    chk.analysed(b)
    rets = q.ok_err_assignments(b)
    ident = rate = err = 0
    for bb, v, rv in rets:
        if v == "Ok":
            guards = [(callee_def(ct), lab, ct) for cn, lab, ct in q.guard_calls(b, bb)]
            same = [g for g in guards if g[0] == "std::cmp::PartialEq::eq" and g[1] is True and
                    any("commodity" in r.fields for r in prov(b, g[2]["args"][0]))]
            payload = rv["fields"][0]["op"]
            if same:
                ok = q.all_roots(b, payload, lambda r: q.is_param(r, "value") and not r.fields)
                chk.require(ok, R_CONV, "convert_single|A into A is the identity", b.loc(bb),
                            "same-commodity branch returns %s" % mir.prov_strs(b, payload), "returns the argument unchanged")
                ident += 1
            else:
                some = any(labs == ("Some",) for roots, labs in q.variant_guards(b, bb))
                okv = False
                for r in prov(b, payload):
                    if r.kind == "call" and r.name.endswith("SingleAmount::from_value") and r.site is not None:
                        a0, a1 = b.term(r.site)["args"]
                        for r2 in prov(b, a0):
                            if r2.kind == "call" and r2.site is not None and callee_def(b.term(r2.site)) == "std::ops::Mul::mul":
                                m0, m1 = b.term(r2.site)["args"]
                                s = " ".join(mir.prov_strs(b, m0) + mir.prov_strs(b, m1))
                                if "value.value" in s.replace("1:value", "value") or "param:1:value.value" in s or ":value.value" in s:
                                    okv = q.all_roots(b, a1, lambda x: q.is_param(x, "commodity_with"))
                chk.require(some and okv, R_CONV, "convert_single|value * rate in the target commodity", b.loc(bb),
                            "the converted amount is not value.value * rate in commodity_with under a found rate",
                            "Some(rate) -> from_value(value.value * rate, commodity_with)")
                rate += 1
        elif v == "Err":
            none = any(labs == ("None",) for roots, labs in q.variant_guards(b, bb))
            s = mir.operand_shape(b, rv["fields"][0]["op"])
            chk.require(none and "RateNotFound" in s, R_CONV, "convert_single|None -> RateNotFound", b.loc(bb),
                        "missing rate arm yields %s" % s, "Err(RateNotFound(value, target, date))")
            err += 1
    chk.require(ident == 1 and rate == 1 and err == 1, R_CONV, "convert_single|three outcomes", b.loc(),
                "convert_single has %d identity, %d converted and %d error returns" % (ident, rate, err), "identity / converted / RateNotFound")
    # the table is computed for (commodity_with, date) of this very call
    cpt = []
    for body in P.with_closures(b.key):
        for bb, t in mir.call_sites(body, [PD + "::NaivePriceRepository::compute_price_table"]):
            cpt.append((body, bb, t))
    ok = len(cpt) == 1
    if ok:
        body, bb, t = cpt[0]
        s1 = mir.prov_strs(body, t["args"][1])
        s2 = mir.prov_strs(body, t["args"][2])
        ok = all("commodity_with" in x for x in s1) and all("date" in x for x in s2)
    chk.require(ok, R_CONV, "convert_single|table for (commodity_with, date)", b.loc(),
                "compute_price_table is not called with this call's target and date", "compute_price_table(commodity_with, date)")


def run(P, chk, tier):
    chk.rule(R_ASOF, "as-of predicate is record_date <= date; index is partition_point-1 under a non-zero guard; staleness = date - record_date; neighbours in sorted order")
    chk.rule(R_SORT, "NaivePriceRepository is built only after every rate vector was sorted; only the builder pushes rates")
    chk.rule(R_SRC, "a higher-priority source clears lower-priority rates (stored < new); both directions stored; loaders use the right source")
    chk.rule(R_DIST, "chain cost = derived lexicographic (ledger hops, hops, staleness); WithDistance orderings delegate to it; extend updates it as specified")
    chk.rule(R_CONV, "convert_single: identity on same commodity, value*rate on a found rate, RateNotFound otherwise")
    chk.rule(R_E9, "conversion errors are propagated by every caller in okane-core")
    as_of(P, chk)
    sorted_before_lookup(P, chk)
    rate_records_kept(P, chk)
    db_after_ledger(P, chk)
    source_precedence(P, chk)
    distance_order(P, chk)
    convert_single(P, chk)
    table = common.load_table("err_chain.toml")
    entries = {e["key"]: e for e in table.get("site", [])}
    bodies = [b for b in P.bodies.values() if q.not_test(b) and mir.body_module(b) in (PD, "okane_core::report::query")]
    chk.analysed(*bodies)
    n = shared.error_chain(P, chk, bodies, R_E9, entries, set(), error_names=("ConversionError", "QueryError", "price_db::LoadError", "ParseError"))
    chk.floor("conversion Result call sites", n, 6)
    # the index / subtraction guards of the lookup (shared with C06)
    S = surface.Surface(P, chk)
    cpt = P.with_closures(PD + "::NaivePriceRepository::compute_price_table")
    src = S.sources(cpt)
    chk.floor("panic sources in compute_price_table", len(src), 2)
    S.finish(report_stale=False)
