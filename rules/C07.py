"""C07 — numeric literals mean exactly what is written (narrow claim, DESIGN.md §4 C07 / §6.1)."""
from analysis import mir, q, panics
from analysis import errchain as E
from analysis.mir import norm, callee, callee_def, callee_names, prov
from . import surface

EXPLANATION = (
    "Narrow static claim on the clause `literals too large or too precise to represent are rejected rather than "
    "silently wrapped, truncated or panicking`, over the literal scanner (PrettyDecimal::from_str and its closures), "
    "the grouped printer (Display for PrettyDecimal), try_find_char and the token parser primitive::pretty_decimal.  "
    "(1) Every Assert terminator / panic-by-contract call there is guarded, tabled with machine-checked support or a "
    "finding (shared E3 engine).  (2) Every integer-to-integer cast is value preserving for all source values "
    "(widening within a signedness, or unsigned into a strictly wider signed type).  (3) No wrapping_/overflowing_/"
    "saturating_/unchecked_ arithmetic in the scanner.  (4) The result of every checked_* step of the accumulator "
    "reaches ok_or/ok_or_else and `?` (None becomes an error, never a default), and the Result of "
    "Decimal::try_from_i128_with_scale is propagated with `?`; the scanned value handed to it is sign * mantissa with "
    "sign in {1,-1}.  (5) The token parser feeds exactly the characters it consumed to from_str through try_map "
    "(a scanner error is a parse error).  The accepted language and the value function of the hand-written state "
    "machine are not decided (value level; DESIGN.md section 6.1)."
)

PD = "okane_core::syntax::pretty_decimal"
FROM_STR = "<okane_core::syntax::pretty_decimal::PrettyDecimal as std::str::FromStr>::from_str"
FMT = "<okane_core::syntax::pretty_decimal::PrettyDecimal as std::fmt::Display>::fmt"
TOKEN = "okane_core::parse::primitive::pretty_decimal"

R_CAST = "E3.lossless-cast"
R_WRAP = "E3.no-silent-wrap"
R_ERR = "E9.overflow-is-an-error"
R_TOKEN = "E7.token-to-scanner"
R_GUARD = "E5.scanner-guards"

BITS = {"u8": 8, "u16": 16, "u32": 32, "u64": 64, "u128": 128, "usize": 64,
        "i8": 8, "i16": 16, "i32": 32, "i64": 64, "i128": 128, "isize": 64}


def short(n):
    return (n or "?").rsplit("::", 1)[-1]


def lossless(src, dst):
    if src not in BITS or dst not in BITS:
        return None
    ss, ds = src[0] == "i", dst[0] == "i"
    sb, db = BITS[src], BITS[dst]
    # usize / isize are at least 32 bit on supported targets and at most 64
    if src in ("usize", "isize"):
        sb = 64
    if dst in ("usize", "isize"):
        db = 32
    if ss == ds:
        return db >= sb
    if not ss and ds:
        return db > sb
    return False


def cone(P):
    out = []
    for b in P.bodies.values():
        if not q.not_test(b):
            continue
        m = mir.body_module(b)
        if m == PD and not b.derived and not panics.is_external_expansion(b):
            out.append(b)
        elif b.key == TOKEN or (b.parent or "").startswith(TOKEN):
            out.append(b)
    return sorted(out, key=lambda b: b.key)


def casts(P, chk, bodies):
    n = 0
    for b in bodies:
        seen = {}
        for i in sorted(b.live_blocks()):
            for st in b.blocks[i]["stmts"]:
                if st["k"] != "assign" or st["rv"]["k"] != "cast" or st["rv"]["kind"] != "IntToInt":
                    continue
                o = st["rv"]["op"]
                dst = norm(st["rv"]["ty"])
                if o.get("k") == "const":
                    continue
                src = b.local_ty(o["place"]["l"])
                n += 1
                base = "%s|%s as %s" % (b.key, src, dst)
                k = seen.get(base, 0) + 1
                seen[base] = k
                key = base if k == 1 else "%s#%d" % (base, k)
                ok = lossless(src, dst)
                chk.require(bool(ok), R_CAST, key, "%s:%s" % (b.file, st.get("line", b.line)),
                            "`%s as %s` of %s can change the value (wraps / truncates / changes sign) for part of the source range"
                            % (src, dst, mir.prov_strs(b, o)), "value preserving")
    chk.add_sites(n)
    return n


def wraps(P, chk, bodies):
    scanner = [b for b in bodies if b.key == FROM_STR or (b.parent or "").startswith(FROM_STR)]
    n = 0
    for b in scanner:
        for bb, t in b.calls():
            nm = short(callee_def(t))
            if nm.startswith(("wrapping_", "overflowing_", "saturating_", "unchecked_")) and "num" in (callee_def(t) or ""):
                chk.fail(R_WRAP, "%s|%s" % (b.key, nm), b.loc(bb),
                         "the scanner uses %s: an out-of-range literal would be silently reinterpreted instead of rejected" % nm)
            n += 1
    chk.ok(R_WRAP, "from_str|no wrapping / saturating / overflowing arithmetic", P.body(FROM_STR).loc(),
           "%d calls in the scanner and its closures inspected" % n)


def opt_flow(P, b, bb, depth=0):
    """how the Option produced at bb is consumed: -> list of (kind, detail)"""
    t0 = b.term(bb)
    out = []
    work = [t0["dest"]["l"]]
    seen = set()
    while work:
        l = work.pop()
        if l in seen:
            continue
        seen.add(l)
        if l == 0:
            # returned from a closure: follow into the combinator that runs the closure
            if b.is_closure:
                parent = (P.closure_parents(b) or [None])[0]
                hit = False
                if parent is not None and depth < 3:
                    for pbb, pt in parent.calls():
                        if any(r.kind in ("agg", "closure") and b.key in r.name for a in pt["args"] for r in prov(parent, a)):
                            hit = True
                            if short(callee_def(pt)) in ("and_then", "map", "then", "or_else"):
                                out += opt_flow(P, parent, pbb, depth + 1)
                            else:
                                out.append(("bad", "closure result consumed by %s" % short(callee_def(pt))))
                if not hit:
                    out.append(("bad", "closure result not traceable"))
            else:
                out.append(("returned", "returned"))
            continue
        for i, blk in enumerate(b.blocks):
            if blk["cleanup"]:
                continue
            for st in blk["stmts"]:
                if st["k"] == "assign" and st["rv"]["k"] in ("use",) and st["rv"]["op"].get("k") in ("copy", "move") and \
                        st["rv"]["op"]["place"]["l"] == l and not st["rv"]["op"]["place"]["p"]:
                    work.append(st["place"]["l"])
                if st["k"] == "assign" and st["rv"]["k"] == "discriminant" and st["rv"]["place"]["l"] == l and not st["rv"]["place"]["p"]:
                    # `let Some(x) = checked else { return Err(..) }` / `match checked { None => return Err(..), .. }`
                    ds = mir.describe_switch(b, i)
                    if ds and ds[0] == "variant":
                        errs = tuple(eb for eb, v, rv in q.ok_err_assignments(b) if v == "Err")
                        for tb, labs in ds[2].items():
                            if "None" in labs:
                                reach = b.reach_from(tb, without_blocks=errs)
                                if errs and not any(b.term(x)["k"] == "return" for x in reach) and i not in reach:
                                    out.append(("?", "None arm returns Err"))
                                else:
                                    out.append(("bad", "the None arm goes on without an error"))
            t = blk["term"]
            if t["k"] != "call":
                continue
            if not any(a.get("k") in ("copy", "move") and a["place"]["l"] == l and not a["place"]["p"] for a in t["args"][:1]):
                continue
            cd = callee_def(t) or ""
            nm = short(cd)
            if cd == "std::ops::Try::branch":
                out.append(("?", "propagated with ?"))
            elif nm in ("and_then", "map", "ok_or", "ok_or_else", "map_err", "transpose", "filter", "inspect"):
                work.append(t["dest"]["l"])
            elif nm in ("unwrap_or", "unwrap_or_default", "unwrap_or_else", "unwrap", "expect", "is_some", "is_none",
                        "ok", "or", "or_else", "map_or", "map_or_else", "is_some_and", "unwrap_unchecked"):
                out.append(("bad", "None is turned into a value / panic by .%s()" % nm))
            else:
                out.append(("bad", "consumed by %s" % nm))
    if not out:
        out.append(("bad", "result never consumed"))
    return out


def _acc_leaves_checked(tree):
    """every non-constant leaf of the accumulator expression is the payload of a checked_* step"""
    leaves = []

    def walk(x):
        if x[0] == "phi":
            for a in x[1]:
                walk(a)
        elif x[0] == "try":
            walk(x[1])
        else:
            leaves.append(x)
    walk(tree)
    nonconst = [x for x in leaves if x[0] != "const"]
    return bool(nonconst) and all(x[0] == "call" and short(x[1]).startswith("checked_") or
                                  (x[0] == "place" and all("checked_" in str(r) and ".#Some.0" in str(r) for r in x[1]))
                                  for x in nonconst)


def overflow_is_error(P, chk, bodies):
    scanner = [b for b in bodies if b.key == FROM_STR or (b.parent or "").startswith(FROM_STR)]
    n = 0
    for b in scanner:
        chk.analysed(b)
        for bb, t in b.calls():
            nm = short(callee_def(t))
            if nm.startswith("checked_") and "num" in (callee_def(t) or ""):
                n += 1
                flow = opt_flow(P, b, bb)
                bad = [d for k, d in flow if k == "bad"]
                good = any(k == "?" for k, d in flow)
                chk.require(not bad and good, R_ERR, "%s|%s" % (b.key, nm), b.loc(bb),
                            "; ".join(bad) or "the None of %s never reaches `?`" % nm, "None -> ok_or(..)? -> Err")
    chk.add_sites(n)
    chk.floor("checked_* steps of the accumulator", n, 2)
    fs = P.body(FROM_STR)
    tf = [(bb, t) for bb, t in fs.calls() if short(callee_def(t)) in ("try_from_i128_with_scale", "try_new", "from_i128_with_scale", "new", "try_from")
          and "Decimal" in (callee_def(t) or "")]
    ok = len(tf) == 1 and short(callee_def(tf[0][1])) == "try_from_i128_with_scale"
    chk.require(ok, R_ERR, "from_str|value built by the fallible Decimal constructor", fs.loc(),
                "Decimal is built by %s" % [short(callee_def(t)) for bb, t in tf], "Decimal::try_from_i128_with_scale")
    if ok:
        bb, t = tf[0]
        uses = E.consumption(P, fs, bb)
        bad = [u for u in uses if u.kind not in E.GOOD]
        chk.require(not bad, R_ERR, "from_str|try_from_i128_with_scale result propagated", fs.loc(bb),
                    "; ".join(u.detail for u in bad), "`?`")
        # sign * mantissa, sign in {1,-1}, mantissa = the checked accumulator, no cast in between
        tr = q.arith(fs, t["args"][0])
        okv = tr[0] == "mul"
        detail = "value argument is %s" % q.arith_str(tr)
        if okv:
            sides = [tr[1], tr[2]]
            signs = [s for s in sides if s[0] == "phi" and all(x[0] == "const" and x[1] in (1, -1) for x in s[1])]
            okv = len(signs) == 1
            other = [s for s in sides if s not in signs]
            if okv and other:
                names = set()

                def walk(x):
                    if x[0] == "call":
                        names.add(short(x[1]))
                        for a in x[3]:
                            walk(a)
                    elif x[0] == "phi":
                        for a in x[1]:
                            walk(a)
                    elif x[0] == "try":
                        walk(x[1])
                walk(other[0])
                okv = "ok_or" in names or "ok_or_else" in names or _acc_leaves_checked(other[0])
        chk.require(okv, R_ERR, "from_str|value = sign * checked accumulator", fs.loc(bb), detail, "sign * mantissa")


def token_rule(P, chk):
    b = P.body(TOKEN)
    bodies = P.with_closures(TOKEN)
    for x in bodies:
        chk.analysed(x)
    names = [short(callee_def(t)) for bb, t in b.calls()]
    has_tw = "take_while" in names
    tm = [(bb, t) for bb, t in b.calls() if short(callee_def(t)) == "try_map"]
    ok = has_tw and len(tm) == 1
    detail = "calls: %s" % names
    if ok:
        t = tm[0][1]
        recv = prov(b, t["args"][0])
        okr = bool(recv) and all(r.kind == "call" and short(r.name) == "take_while" for r in recv)
        f = t["args"][1]
        okf = f.get("k") == "const" and norm(f.get("fn") or "") in ("core::str::parse", "str::parse", "core::str::<impl str>::parse") \
            or (f.get("k") == "const" and short(norm(f.get("fn") or "")) in ("parse", "from_str"))
        ok = okr and okf
        detail = "try_map receiver is take_while=%s, mapped through str::parse=%s" % (okr, okf)
        bad = set(names) & {"map", "verify_map", "recognize", "value", "default_value"}
    chk.require(ok, R_TOKEN, "primitive::pretty_decimal|take_while(token chars).try_map(str::parse)", b.loc(), detail,
                "scanner errors surface as parse errors; nothing rewrites the token in between")
    # the token class: digits and exactly , . -
    clo = [x for x in bodies if x.is_closure]
    chars = set()
    digit = False
    for c in clo:
        for bbx, o in c.iter_operands():
            if o.get("k") == "const" and "char" in o:
                chars.add(o["char"])
        for bb, t in c.calls():
            if short(callee_def(t)) == "is_ascii_digit":
                digit = True
        for i in c.live_blocks():
            t = c.term(i)
            if t["k"] == "switch" and t.get("dty") == "char":
                # `matches!(c, '-' | ',' | '.')` is a switch on the character value
                for v, tb in t["targets"]:
                    try:
                        chars.add(chr(int(v)))
                    except (ValueError, OverflowError):
                        pass
    if not digit and {"0", "9"} <= chars:
        # `'0'..='9'` as a range pattern: two comparisons against the ends of the digit range
        cmps = sum(1 for c in clo for blk in c.blocks for st in blk["stmts"]
                   if st["k"] == "assign" and st["rv"]["k"] == "binop" and st["rv"]["op"] in ("Le", "Lt", "Ge", "Gt"))
        if cmps >= 2:
            digit = True
            chars -= {"0", "9"}
    chk.require(digit and chars == {"-", ",", "."}, R_TOKEN, "primitive::pretty_decimal|token characters are digits , . -", b.loc(),
                "token class is digits=%s plus %s" % (digit, sorted(chars)), "is_ascii_digit() || '-' || ',' || '.'")


# ---------------------------------------------------------------------------
# necessary guards of the accepted language (each one clause of the statement)
# ---------------------------------------------------------------------------

def _ok_blocks(b):
    return [bb for bb, v, rv in q.ok_err_assignments(b) if v == "Ok"]


def _rejecting_switch(b, exit_bb, loop_blocks, oks, candidates):
    """one of the candidate switches lies on every path loop-exit -> Ok and has an edge from which no Ok
    is reachable (so it can reject); -> (switch_bb, labels-of-rejecting-edge) or None"""
    for s, kind, labels, ct in candidates:
        if s in loop_blocks or s not in b.reach_from(exit_bb):
            continue
        if any(o in b.reach_from(exit_bb, without_blocks=(s,)) for o in oks):
            continue
        for tb, labs in labels.items():
            if not any(o in b.reach_from(tb) for o in oks):
                return s, labs
        # `if let Some(p) = x { if p != .. { return Err } }`: the test sits under one arm of a test of the same variable
        for tb, labs in labels.items():
            for s2, kind2, labels2, ct2 in candidates:
                if s2 == s or s2 in loop_blocks or s2 not in b.reach_from(tb):
                    continue
                if any(o in b.reach_from(tb, without_blocks=(s2,)) for o in oks):
                    continue
                for tb2, labs2 in labels2.items():
                    if not any(o in b.reach_from(tb2) for o in oks):
                        return s2, labs2
    return None


def scanner_guards(P, chk):
    b = P.body(FROM_STR)
    scale = q.local_by_name(b, "scale", "std::option::Option<")
    cpos = q.local_by_name(b, "comma_pos", "std::option::Option<")
    if scale is None or cpos is None:
        chk.anchor_missing("from_str: locals `scale` / `comma_pos` not found (the scanner's state variables)")
        return
    # --- the decimal-point transition: scale = Some(0)
    stores = []
    for i in sorted(b.live_blocks()):
        for st in b.blocks[i]["stmts"]:
            if st["k"] == "assign" and st["place"]["l"] == scale and not st["place"]["p"] and st["rv"]["k"] == "use":
                o = st["rv"]["op"]
                d = mir.single_def(b, o["place"]["l"]) if o.get("k") in ("copy", "move") else None
                if d and d[0] == "assign" and d[4]["k"] == "aggregate" and d[4].get("variant") == "Some" and \
                        d[4]["fields"][0]["op"].get("int") == 0:
                    stores.append(i)
    chk.floor("decimal-point transitions (scale = Some(0)) in the scanner", len(stores), 1)
    for sb in stores:
        once = False
        for cn, lab, ct in q.guard_calls(b, sb):
            if ct["args"] and q.named_local(b, ct["args"][0]) == scale:
                if (cn.endswith("::is_none") and lab is True) or (cn.endswith("::is_some") and lab is False):
                    once = True
        for s, kind, labels, ct in q.switch_local_tests(b, scale):
            if kind == "variant":
                for tb, labs in labels.items():
                    if list(labs) == ["None"] and b.must_pass_edge(sb, s, tb):
                        once = True
        chk.require(once, R_GUARD, "from_str|at most one decimal point", b.loc(sb),
                    "the decimal-point transition is not guarded by `scale` still being None: a second `.` is accepted and the "
                    "digits keep accumulating (`1.2.3` reads as 12.3)", "scale.is_none() in force at scale = Some(0)")
        edges = []
        for s, kind, labels, ct in q.switch_local_tests(b, cpos):
            for tb, labs in labels.items():
                if kind == "call:is_none" and True in labs or kind == "call:is_some" and False in labs \
                        or kind == "call:eq" and True in labs or kind == "call:ne" and False in labs \
                        or kind == "variant" and list(labs) == ["None"] or kind == "cmp" and (True in labs):
                    edges.append((s, tb))
        grp = q.must_pass_any_edge(b, sb, edges)
        chk.require(grp, R_GUARD, "from_str|decimal point only after a complete group", b.loc(sb),
                    "the decimal-point transition is reachable without `comma_pos` being None or equal to the current index: "
                    "`1,23.45` would be accepted", "comma_pos.is_none() || comma_pos == Some(i) on every path to scale = Some(0)")
    # --- the grouping transition: comma_pos = Some(next expected comma); only in the integral part
    cstores = []
    for i in sorted(b.live_blocks()):
        for st in b.blocks[i]["stmts"]:
            if st["k"] == "assign" and st["place"]["l"] == cpos and not st["place"]["p"] and st["rv"]["k"] == "use":
                o = st["rv"]["op"]
                d = mir.single_def(b, o["place"]["l"]) if o.get("k") in ("copy", "move") else None
                if d and d[0] == "assign" and d[4]["k"] == "aggregate" and d[4].get("variant") == "Some":
                    cstores.append(i)
    chk.floor("grouping transitions (comma_pos = Some(..)) in the scanner", len(cstores), 1)
    for sb in cstores:
        integral = False
        for cn, lab, ct in q.guard_calls(b, sb):
            if ct["args"] and q.named_local(b, ct["args"][0]) == scale:
                if (cn.endswith("::is_none") and lab is True) or (cn.endswith("::is_some") and lab is False):
                    integral = True
        for s_, kind, labels, ct in q.switch_local_tests(b, scale):
            if kind == "variant":
                for tb, labs in labels.items():
                    if list(labs) == ["None"] and b.must_pass_edge(sb, s_, tb):
                        integral = True
        chk.require(integral, R_GUARD, "from_str|grouping commas only before the decimal point", b.loc(sb),
                    "a comma is accepted without `scale` being None, i.e. also among the decimals: `1.2,345` reads as 1.2345",
                    "scale.is_none() in force at comma_pos = Some(..)")
    # --- the first comma closes a leading group of one to three digits: on every path that takes the grouping transition
    # with `comma_pos` still None, the group is bounded from both sides - two ordering tests, or one ordering test plus a
    # "digit seen" flag, or one range test.  (Which constants they use is not decided here.)
    for sb in cstores:
        start = None
        for h_, blks_ in b.loops().items():
            if sb in blks_:
                for x_ in blks_:
                    t_ = b.term(x_)
                    if t_["k"] == "call" and callee_def(t_) == "std::iter::Iterator::next" and "Bytes" in b.local_ty(t_["args"][0]["place"]["l"]):
                        start = t_["target"]
        if start is not None:
            ds0 = mir.describe_switch(b, start)
            start = None
            for tb_, labs_ in (ds0[2].items() if ds0 else ()):
                if "Some" in labs_:
                    start = tb_     # the loop body proper: one byte in hand
        if start is None:
            chk.anchor_missing("from_str: body of the byte loop not found")
            continue
        try:
            paths = [p_ for p_ in mir.enumerate_paths(b, limit=20000, start=start) if sb in p_.blocks]
        except mir.TooManyPaths:
            chk.require(False, R_GUARD, "from_str|leading group of one to three digits", b.loc(sb), "scanner not analysable: too many paths",
                        "two-sided bound on the first digit group")
            continue
        chk.add_paths(len(paths))
        first, bad = 0, []
        cp_roots = set((r.kind, r.name, r.site) for r in prov(b, {"l": cpos, "p": []}))

        def is_cp(roots):
            return bool(roots) and all((r.kind, r.name, r.site) in cp_roots for r in roots)
        digit_flags = set()
        for l_, decl_ in enumerate(b.locals):
            if decl_["name"] and norm(decl_["ty"]) == "bool":
                ds_ = [d for d in b.defs().get(l_, []) if not d[3]["p"]]
                if ds_ and any(d[0] == "assign" and d[4]["k"] == "use" and d[4]["op"].get("int") == 1 and
                               any(cn.endswith("is_ascii_digit") and lab is True for cn, lab, ct in q.guard_calls(b, d[1])) for d in ds_) \
                        and all(d[0] == "assign" and d[4]["k"] == "use" and d[4]["op"].get("int") in (0, 1) for d in ds_):
                    digit_flags.add(l_)
        for p_ in paths:
            upto = p_.blocks.index(sb)
            before = set(p_.blocks[:upto])
            atoms = [a for a in p_.atoms if a.bb in before]
            is_first = subsequent = False
            orderings, ranges, flag = set(), 0, False
            for a in atoms:
                if a.kind == "variant" and is_cp(a.subject):
                    if list(a.label) == ["None"]:
                        is_first = True
                    elif "Some" in a.label:
                        subsequent = True
                elif a.kind == "call" and short(a.subject[0]) in ("is_none", "is_some") and a.subject[1] and is_cp(a.subject[1][0]):
                    v = (short(a.subject[0]) == "is_none") == (True in a.label)
                    is_first = is_first or v
                    subsequent = subsequent or not v
                elif a.kind == "call" and short(a.subject[0]) == "eq" and True in a.label and any(is_cp(x) for x in a.subject[1]):
                    subsequent = True       # comma_pos == Some(i) held: not the first comma
                elif a.kind == "cmp" and len(a.label) == 1 and a.subject[0] in ("Lt", "Le", "Gt", "Ge", "Ne"):
                    orderings.add((a.subject[0], a.subject[1], a.subject[2], a.label[0]))
                elif a.kind == "call" and short(a.subject[0]) == "contains" and "Range" in a.subject[0] and True in a.label:
                    ranges += 1
                elif a.kind in ("bool", "int") and (True in a.label or "1" in [str(x) for x in a.label]):
                    sw_d = b.term(a.bb)["discr"]
                    if q.named_local(b, sw_d) in digit_flags:
                        flag = True
            if not is_first or subsequent:
                continue
            first += 1
            if not (len(orderings) >= 2 or ranges or (orderings and flag)):
                bad.append("%d ordering test(s), %d range test(s), digit flag %s" % (len(orderings), ranges, flag))
        chk.require(first > 0 and not bad, R_GUARD, "from_str|leading group of one to three digits", b.loc(sb),
                    ("no first-comma path is visible in this picture of the code: the test sits in a closure / helper this view keeps apart (the written-out views decide), or no path takes the grouping transition with comma_pos None" if not first else
                     "a first comma is accepted under %s: the leading group is bounded on one side only (`,250` or `1234,567` is "
                     "accepted)" % (bad or ["-"])[0]),
                    "on every first-comma path: two ordering tests, or one plus a digit-seen flag, or a range test (%d paths)" % first)
    # --- after the loop
    loops = b.loops()
    hdr = None
    for h, blks in loops.items():
        for x in blks:
            t = b.term(x)
            if t["k"] == "call" and callee_def(t) == "std::iter::Iterator::next" and "Bytes" in b.local_ty(t["args"][0]["place"]["l"]):
                hdr = h
                nxt = x
    if hdr is None:
        chk.anchor_missing("from_str: the byte loop was not found")
        return
    lb = loops[hdr]
    exit_bb = None
    ds = mir.describe_switch(b, b.term(nxt)["target"])
    if ds:
        for tb, labs in ds[2].items():
            if "None" in labs:
                exit_bb = tb
    oks = _ok_blocks(b)
    if exit_bb is None or not oks:
        chk.anchor_missing("from_str: loop exit / Ok return not found")
        return
    # complete last group
    cands = q.switch_local_tests(b, cpos)
    hit = _rejecting_switch(b, exit_bb, lb, oks, cands)
    detail = "after the last character nothing tests `comma_pos` before Ok: a literal ending inside a digit group (`12,50`, `1,234,56`) is accepted"
    ok = hit is not None
    if ok:
        # the rejection must depend on the length of the literal (the position where the next comma was due)
        s_bb = hit[0]
        uses_len = False
        ct = [c for (s, kind, labels, c) in cands if s == s_bb][0]
        bodies = [b]
        if ct is not None:
            for a in ct["args"]:
                for r in prov(b, a):
                    if r.kind == "agg" and r.name.startswith("closure:"):
                        cb = P.bodies.get(r.name[len("closure:"):])
                        if cb is not None:
                            bodies.append(cb)
        for x in bodies:
            for bb2, t2 in x.calls():
                if short(callee_def(t2)) == "len" and "str" in (callee_def(t2) or ""):
                    rs = prov(x, t2["args"][0])
                    if rs and all((r.kind == "param" and r.name.endswith(":s")) or (r.kind == "capture" and r.name == "s") for r in rs):
                        if x is not b or bb2 in b.reach_from(exit_bb):
                            uses_len = True
        ok = uses_len
        detail = "the end-of-literal test of `comma_pos` does not involve s.len()"
    chk.require(ok, R_GUARD, "from_str|last digit group complete at end of literal", b.loc(exit_bb), detail,
                "a test of comma_pos against s.len() lies on every path from the end of the loop to Ok and can reject")
    # at least one digit
    digit_blocks = set()
    for i in sorted(b.live_blocks()):
        if any(cn.endswith("is_ascii_digit") and lab is True for cn, lab, ct in q.guard_calls(b, i)):
            digit_blocks.add(i)
    flags = []
    for l, decl in enumerate(b.locals):
        if not decl["name"] or norm(decl["ty"]) not in ("bool", "usize", "u32", "u8", "u64"):
            continue
        ds_ = [d for d in b.defs().get(l, []) if not d[3]["p"]]
        inloop = [d for d in ds_ if d[1] in lb]
        pre = [d for d in ds_ if d[1] not in lb]
        if inloop and all(d[1] in digit_blocks for d in inloop) and pre and all(d[0] == "assign" and d[4]["k"] == "use" and d[4]["op"].get("int") == 0 for d in pre):
            flags.append(l)
    hit = None
    for l in flags:
        hit = hit or _rejecting_switch(b, exit_bb, lb, oks, q.switch_local_tests(b, l))
    if hit is None:
        # idiom (ii): s.bytes().any(|c| c.is_ascii_digit()) decides before Ok
        for s_bb in sorted(b.live_blocks()):
            dsw = mir.describe_switch(b, s_bb)
            if dsw and dsw[0] == "call" and short(dsw[1][0]) == "any":
                ct = b.term(dsw[1][2])
                cl = [P.bodies.get(r.name[len("closure:"):]) for a in ct["args"] for r in prov(b, a) if r.kind == "agg" and r.name.startswith("closure:")]
                if any(c is not None and any(short(callee_def(t2)) == "is_ascii_digit" for bb2, t2 in c.calls()) for c in cl):
                    if not any(o in b.reach_from(0, without_blocks=(s_bb,)) for o in oks):
                        for tb, labs in dsw[2].items():
                            if False in labs and not any(o in b.reach_from(tb) for o in oks):
                                hit = (s_bb, labs)
    chk.require(hit is not None, R_GUARD, "from_str|at least one digit", b.loc(exit_bb),
                "nothing between the end of the loop and Ok depends on a digit having been read: `-`, `.` and `-.` are accepted as 0",
                "a flag set only on the digit arm (or an any(is_ascii_digit) test) lies on every path to Ok and can reject")


def run(P, chk, tier):
    chk.rule(R_CAST, "integer casts in the literal scanner / printer are value preserving for every source value")
    chk.rule(R_WRAP, "no wrapping / saturating / overflowing arithmetic in the scanner")
    chk.rule(R_ERR, "accumulator overflow and unrepresentable values become errors that reach the caller")
    chk.rule(R_GUARD, "the scanner's acceptance guards: one decimal point, only after a complete group; commas only before the point; complete last group; at least one digit")
    chk.rule(R_TOKEN, "the token parser hands exactly the consumed characters to the scanner through a fallible map")
    bodies = cone(P)
    chk.analysed(*bodies)
    chk.floor("bodies in the numeric-literal cone", len(bodies), 12)
    S = surface.Surface(P, chk)
    src = S.sources(bodies)
    chk.floor("panic sources in the numeric-literal cone", len(src), 8)
    S.ranges(bodies)
    S.loops(bodies)
    S.finish(report_stale=False)
    n = casts(P, chk, bodies)
    chk.floor("integer casts in the numeric-literal cone", n, 1)
    wraps(P, chk, bodies)
    overflow_is_error(P, chk, bodies)
    token_rule(P, chk)
    scanner_guards(P, chk)
