"""C16 — CSV import books each row with the right sign, amount and balance (partial: the finite tables)."""
from analysis import mir, q
from analysis.mir import norm, callee, callee_def, callee_names, prov
from . import importers

EXPLANATION = (
    "Static decision / placement rules over the CSV importer.  Sign table of FieldMap::amount: credit column -> +value "
    "(only when non-empty), else debit column -> -value, else error; `amount` column -> value for an asset account and "
    "-value for a liability account.  Counter posting: dest_amount is the negated account amount, or the transferred "
    "amount given the sign of the negated account amount.  Conversion table: price-of-primary attaches the rate to the "
    "primary commodity (source = secondary, target = primary) and computes amount*rate; price-of-secondary the reverse "
    "with amount/rate; `extract` takes the secondary-amount column, `compute` the computed value; the rate booked is the "
    "row's rate.  Row order: the collected transactions are reversed exactly under row_order = new_to_old, "
    "unconditionally, and never reordered otherwise.  Running balance: a parsed balance column is attached on every path "
    "to the push, unchanged, in the row's commodity.  One transaction per record (shared with C15).  That a consistent "
    "statement imports into a ledger the book-keeping accepts is a numerical statement and is not decided."
)

CSV = "okane::import::csv"
IMPORT = CSV + "::import"
AMOUNT = CSV + "::FieldMap::amount"
SE = "okane::import::single_entry"

R_SIGN = "E5.sign-table"
R_CONV = "E5.conversion-table"
R_ORDER = "E6.row-order"
R_BAL = "E6.balance-assertions"
R_DEST = "E7.counter-amount"


def short(n):
    return (n or "?").rsplit("::", 1)[-1]


def resolve_key(b, operand):
    """FieldKey variant(s) of the FieldMap::resolve call(s) an Ok payload derives from, and the parity of negations"""
    keys = set()
    cs = q.chains(b, operand, stop=lambda r: r.kind == "call" and r.name.endswith("FieldMap::resolve"))
    for cn, r in cs:
        if r.kind == "call" and r.name.endswith("FieldMap::resolve") and r.site is not None:
            for x in prov(b, b.term(r.site)["args"][1]):
                if x.kind == "agg":
                    keys.add(x.name.rsplit("::", 1)[-1])
    negs = set()
    for r in prov(b, operand):
        negs.add(sum(1 for v in r.via if v == "neg") % 2)
    return keys, negs


def sign_table(P, chk):
    b = P.body(AMOUNT)
    chk.analysed(b)
    # one row per distinct successful way through the function: which column the value is read from, how often it is
    # negated, which emptiness tests and which account type were seen on the way.  Each enumerated path is judged on its
    # own straight-line copy, so values that meet in a shared temporary (`Ok(match ..)`, `(text, is_debit)`) stay apart.
    rows = []
    seen = set()
    acct = None
    for i in range(1, b.argc + 1):
        if "AccountType" in b.local_ty(i):
            acct = i
    try:
        paths = mir.enumerate_paths(b, limit=6000)
    except mir.TooManyPaths:
        chk.fail(R_SIGN, "FieldMap::amount|analysable", b.loc(), "more than 6000 paths")
        return
    err_guard_sets = []
    for p in paths:
        pb = mir.path_body(b, p.blocks)
        if p.shape and p.shape[0] == "assign" and p.shape[2].get("k") == "aggregate" and p.shape[2].get("variant") == "Err":
            g_ = set()
            for a in p.atoms:
                if a.kind == "call" and short(a.subject[0]) == "is_empty" and len(a.label) == 1 and a.subject[2] in p.blocks:
                    k2, _ = resolve_key(pb, pb.term(p.blocks.index(a.subject[2]))["args"][0])
                    g_.add(("/".join(sorted(k2)), a.label[0]))
            err_guard_sets.append(g_)
        oks = [(bb, v, rv) for bb, v, rv in q.ok_err_assignments(pb) if v == "Ok"]
        if not oks or any(v == "Err" or v.startswith("call:") for bb, v, rv in q.ok_err_assignments(pb)):
            continue
        bb, v, rv = oks[-1]
        payload = rv["fields"][0]["op"]
        keys, negs = resolve_key(pb, payload)
        # a negation applied by an explicit call whose result lands in the payload
        guards = set()
        accts = set()
        for a in p.atoms:
            if a.kind == "call" and short(a.subject[0]) == "is_empty" and len(a.label) == 1:
                site = a.subject[2]
                if site in p.blocks:
                    k2, _ = resolve_key(pb, pb.term(p.blocks.index(site))["args"][0])
                    guards.add(("%s.is_empty" % "/".join(sorted(k2)), a.label[0]))
            if a.kind == "variant" and acct is not None and any(r.kind == "param" and r.name.startswith("%d:" % acct) for r in a.subject):
                accts.add(tuple(a.label))
            if a.kind == "call" and acct is not None and "PartialEq" in str(a.subject[0]) and len(a.label) == 1 and a.subject[2] in p.blocks:
                # `at == AccountType::Liability` (derived PartialEq against a constant)
                ct_ = b.term(a.subject[2])
                if len(ct_["args"]) == 2:
                    for i_ in (0, 1):
                        v_ = q.promoted_variant(b, ct_["args"][i_])
                        if v_ is not None and any(r.kind == "param" and r.name.startswith("%d:" % acct) for r in prov(b, ct_["args"][1 - i_])):
                            is_eq = str(a.subject[0]).rsplit("::", 1)[-1] == "eq"
                            holds = a.label[0] if is_eq else (not a.label[0])
                            other = {"Liability": "Asset", "Asset": "Liability"}.get(v_)
                            accts.add((v_,) if holds else ((other,) if other else ("~" + v_,)))
        row = (tuple(sorted(keys)), tuple(sorted(negs)), tuple(sorted(guards)), tuple(sorted(accts)))
        if row not in seen:
            seen.add(row)
            rows.append(row + (b.loc(p.blocks[-1]),))
    chk.add_paths(len(rows))
    want = {
        "credit": lambda r: r[0] == ("Credit",) and r[1] == (0,) and ("Credit.is_empty", False) in r[2],
        "debit": lambda r: r[0] == ("Debit",) and r[1] == (1,) and ("Debit.is_empty", False) in r[2],
        "amount/asset": lambda r: r[0] == ("Amount",) and r[1] == (0,) and ("Asset",) in r[3],
        "amount/liability": lambda r: r[0] == ("Amount",) and r[1] == (1,) and ("Liability",) in r[3],
    }
    used = set()
    for name, pred in want.items():
        hit = [r for r in rows if pred(r)]
        for r in hit:
            used.add(r)
        spec = {"credit": "+credit when the credit column is non-empty", "debit": "-debit when the debit column is non-empty",
                "amount/asset": "+amount for an asset account", "amount/liability": "-amount for a liability account"}[name]
        chk.require(len(hit) == 1, R_SIGN, "FieldMap::amount|%s" % name, hit[0][4] if hit else b.loc(),
                    "no Ok value of the form `%s`; Ok values found: %s" % (spec, [(r[0], "neg" if r[1] == (1,) else "plain", r[2], r[3]) for r in rows]), spec)
    extra = [r for r in rows if r not in used]
    chk.require(not extra, R_SIGN, "FieldMap::amount|no other way to produce an amount", b.loc(),
                "additional Ok values: %s" % [(r[0], r[1], r[2], r[3], r[4]) for r in extra], "exactly the four rows")
    # both-empty is an error
    errs = [bb for bb, v, rv in q.ok_err_assignments(b) if v == "Err"]
    both = False
    for e in errs:
        g = []
        for cn, lab, ct in q.guard_calls(b, e):
            if short(cn) == "is_empty":
                k2, _ = resolve_key(b, ct["args"][0])
                g.append(("/".join(sorted(k2)), lab))
        if ("Credit", True) in g and ("Debit", True) in g:
            both = True
    # the same, read off the enumerated paths (covers `match (credit.is_empty(), debit.is_empty())`)
    if any(("Credit", True) in g_ and ("Debit", True) in g_ for g_ in err_guard_sets):
        both = True
    chk.require(both, R_SIGN, "FieldMap::amount|credit and debit both empty is an error", b.loc(), "no Err behind both columns being empty", "Err")


def named(b, name):
    return q.local_by_name(b, name)


def conversion_table(P, chk):
    b = P.body(IMPORT)
    chk.analysed(b)
    pairs = [a for a in q.aggregates_of(P, SE + "::CommodityPair") if a[0].key == IMPORT]
    rows = {}
    for ab, abb, aj, rv in pairs:
        mode = None
        for roots, labs in q.variant_guards(b, abb):
            if labs in (("PriceOfPrimary",), ("PriceOfSecondary",)):
                mode = labs[0]
        f = {x["name"]: x["op"] for x in rv["fields"]}

        def who(op, depth=0):
            names = set()
            for cn, r in q.chains(b, op):
                l = None
            l = q.named_local(b, op)
            nm = b.local_name(l) if l is not None else None
            if nm in ("commodity", "secondary_commodity"):
                return nm
            # through to_owned / into_owned temporaries
            for cn, r in q.chains(b, op):
                pass
            d = mir.single_def(b, op["place"]["l"]) if op.get("k") in ("copy", "move") else None
            if d and d[0] == "call" and d[4]["args"]:
                return who(d[4]["args"][0])
            # another name for one of them: `let primary_commodity = commodity.into_owned();`
            if l is not None and depth < 4:
                d2 = mir.single_def(b, l)
                if d2 and d2[0] == "call" and d2[4]["args"] and short(callee_def(d2[4])) in ("into_owned", "clone", "to_owned", "to_string", "into", "as_ref", "deref"):
                    return who(d2[4]["args"][0], depth + 1)
                if d2 and d2[0] == "assign" and d2[4]["k"] == "use":
                    return who(d2[4]["op"], depth + 1)
            return nm
        # the computed amount built in the same arm
        comp = None
        for bb2, t in b.calls():
            cd = callee_def(t) or ""
            if ("ops::Mul" in cd or "ops::Div" in cd or cd.endswith("::mul") or cd.endswith("::div")) and "Decimal" in (callee(t) or cd):
                g2 = [labs for roots, labs in q.variant_guards(b, bb2) if labs in (("PriceOfPrimary",), ("PriceOfSecondary",))]
                if g2 and g2[-1][0] == mode:
                    l0 = q.named_local(b, t["args"][0])
                    l1 = q.named_local(b, t["args"][1])
                    comp = ("mul" if "mul" in short(cd).lower() or "Mul" in cd else "div", b.local_name(l0) if l0 is not None else None, b.local_name(l1) if l1 is not None else None)
        rows[mode] = (who(f["source"]), who(f["target"]), comp, b.loc(abb))
    spec = {"PriceOfPrimary": ("secondary_commodity", "commodity", ("mul", "amount", "rate")),
            "PriceOfSecondary": ("commodity", "secondary_commodity", ("div", "amount", "rate"))}
    for mode, (src, tgt, comp) in spec.items():
        got = rows.get(mode)
        ok = got is not None and got[0] == src and got[1] == tgt and got[2] == comp
        chk.require(ok, R_CONV, "csv::import|%s" % mode, got[3] if got else b.loc(),
                    "rate key / computed amount for %s is %s, specified source=%s target=%s computed=%s" % (mode, got[:3] if got else None, src, tgt, comp),
                    "source=%s target=%s computed=amount %s rate" % (src, tgt, "*" if comp[0] == "mul" else "/"))
    # add_rate(rate_key, rate of the row)
    ar = [(bb, t) for bb, t in b.calls() if short(callee_def(t)) == "add_rate"]
    ok = len(ar) == 1
    if ok:
        l1 = q.named_local(b, ar[0][1]["args"][1])
        l2 = q.named_local(b, ar[0][1]["args"][2])
        ok = (b.local_name(l1) == "rate_key") and (b.local_name(l2) == "rate")
    chk.require(ok, R_CONV, "csv::import|add_rate(rate_key, rate)", ar[0][0] and b.loc(ar[0][0]) if ar else b.loc(), "the booked rate is not the row's rate under the computed key", "txn.add_rate(rate_key, rate)")
    # transferred = extract -> secondary_amount column, compute -> computed_transferred
    tl = named(b, "transferred")
    ok = tl is not None
    detail = "no `transferred` local"
    if ok:
        vals = {}
        for dk, dbb, di, dpl, pl in b.defs().get(tl, []):
            mode = None
            for roots, labs in q.variant_guards(b, dbb):
                if labs in (("Extract",), ("Compute",)):
                    mode = labs[0]
            src = None
            if dk == "assign" and pl["k"] == "use":
                l = q.named_local(b, pl["op"])
                src = b.local_name(l) if l is not None else None
                if src is None or src == "val":
                    cs = q.chains(b, pl["op"])
                    for cn, r in cs:
                        for n in cn:
                            pass
                    # `secondary_amount.ok_or_else(..)?`
                    for r in prov(b, pl["op"]):
                        if r.kind == "call" and r.site is not None:
                            l = q.named_local(b, b.term(r.site)["args"][0])
                            src = b.local_name(l) if l is not None else src
            vals[mode] = src
        ok = vals.get("Compute") == "computed_transferred" and vals.get("Extract") == "secondary_amount"
        detail = "transferred amount by mode: %s" % vals
    chk.require(ok, R_CONV, "csv::import|transferred amount: extract = column, compute = computed", b.loc(), detail,
                "Extract -> secondary_amount, Compute -> computed_transferred")
    ta = [(bb, t) for bb, t in b.calls() if short(callee_def(t)) == "transferred_amount" and "Txn" in (callee_def(t) or "")]
    ok = len(ta) == 1
    if ok:
        agg = mir.single_def(b, ta[0][1]["args"][1]["place"]["l"])
        ok = agg is not None and agg[0] == "assign" and agg[4]["k"] == "aggregate"
        if ok:
            f = {x["name"]: x["op"] for x in agg[4]["fields"]}
            lv = q.named_local(b, f["value"])
            ok = b.local_name(lv) == "transferred"
            cs = q.chains(b, f["commodity"])
            lc = set()
            for cn, r in cs:
                pass
            d = mir.single_def(b, f["commodity"]["place"]["l"]) if f["commodity"].get("k") in ("copy", "move") else None
            lc = q.named_local(b, d[4]["args"][0]) if d and d[0] == "call" and d[4]["args"] else q.named_local(b, f["commodity"])
            ok = ok and b.local_name(lc) == "secondary_commodity"
    chk.require(ok, R_CONV, "csv::import|transferred_amount(transferred, secondary commodity)", b.loc(), "the counter amount is not (transferred, secondary_commodity)", "OwnedAmount{value: transferred, commodity: secondary_commodity}")


def row_order(P, chk):
    b = P.body(IMPORT)
    reorder = [(bb, t, short(callee_def(t))) for bb, t in b.calls()
               if short(callee_def(t)) in ("reverse", "sort", "sort_by", "sort_by_key", "sort_unstable", "sort_unstable_by", "sort_unstable_by_key",
                                          "rotate_left", "rotate_right", "swap", "dedup", "retain", "truncate", "drain", "insert", "remove", "pop", "rev")
               and t["args"] and b.local_name(q.named_local(b, t["args"][0]) or 0) == "res"]
    revs = [x for x in reorder if x[2] == "reverse"]
    others = [x for x in reorder if x[2] != "reverse"]
    chk.require(not others, R_ORDER, "csv::import|transactions are never reordered except by the row_order reversal", b.loc(),
                "the result vector is modified by %s" % [x[2] for x in others], "only res.reverse()")
    ok = len(revs) == 1
    detail = "expected exactly one res.reverse(), found %d" % len(revs)
    if ok:
        rbb = revs[0][0]
        sw = None
        for s, kind, labels, ct in q.switch_local_tests(b, 0):
            pass
        arms = None
        for s in sorted(b.live_blocks()):
            ds = mir.describe_switch(b, s)
            if ds and ds[0] == "variant" and any(r.kind == "param" and "row_order" in r.fields for r in ds[1]):
                arms = (s, ds[2])
        if arms is None:
            # `if config.format.row_order == RowOrder::NewToOld { .. }`
            for s, roots, var, is_v, not_v in q.enum_eq_tests(b):
                if any(r.kind == "param" and "row_order" in r.fields for r in roots) and var in ("NewToOld", "OldToNew"):
                    oth = "OldToNew" if var == "NewToOld" else "NewToOld"
                    arms = (s, {is_v: [var], not_v: [oth]})
        ok = arms is not None
        detail = "no match on config.format.row_order"
        if ok:
            s, labels = arms
            new_t = [q.follow_flag(b, tb) for tb, labs in labels.items() if "NewToOld" in labs]
            old_t = [q.follow_flag(b, tb) for tb, labs in labels.items() if "OldToNew" in labs]
            rets = [bb for bb, v, rv in q.ok_err_assignments(b) if v == "Ok"]
            ok = len(new_t) == 1 and len(old_t) == 1 and new_t != old_t
            if ok:
                # NewToOld: every path to Ok passes the reverse; OldToNew: none does; the match itself dominates every Ok
                reach_new = b.reach_from(new_t[0], without_blocks=(rbb,))
                ok1 = not any(r in reach_new for r in rets)
                reach_old = b.reach_from(old_t[0])
                ok2 = rbb not in reach_old
                ok3 = all(b.must_pass_block(r, s) for r in rets)
                # the loop that fills `res` is over before the match
                ok = ok1 and ok2 and ok3
                detail = "new_to_old always reverses=%s, old_to_new never reverses=%s, every Ok return passes the match=%s" % (ok1, ok2, ok3)
    chk.require(ok, R_ORDER, "csv::import|reversed exactly under row_order = new_to_old", b.loc(revs[0][0]) if revs else b.loc(), detail,
                "match row_order { OldToNew => (), NewToOld => res.reverse() }")


def balance_rule(P, chk):
    b = P.body(IMPORT)
    bc = [(bb, t) for bb, t in b.calls() if callee_def(t) == SE + "::Txn::balance"]
    ok = len(bc) == 1
    detail = "expected one txn.balance(..) call"
    if ok:
        bb, t = bc[0]
        agg = mir.single_def(b, t["args"][1]["place"]["l"])
        ok = agg is not None and agg[0] == "assign" and agg[4]["k"] == "aggregate"
        if ok:
            f = {x["name"]: x["op"] for x in agg[4]["fields"]}
            # value: the Some payload of the parsed balance column, unchanged
            vr = prov(b, f["value"])
            bl = named(b, "balance")
            okv = bool(vr) and all(not (set(r.via) - {"φ", "?"}) for r in vr)
            src_ok = False
            for s, kind, labels, ct in q.switch_local_tests(b, bl) if bl is not None else []:
                for tb, labs in labels.items():
                    if list(labs) == ["Some"] and b.must_pass_edge(bb, s, tb):
                        src_ok = True
            # the balance local itself comes from the Balance column
            keys = set()
            if bl is not None:
                for dk, dbb, di, dpl, pl in b.defs().get(bl, []):
                    if dk == "assign" and pl["k"] == "use":
                        for cn, r in q.chains(b, pl["op"], stop=lambda r: r.kind == "call" and r.name.endswith("FieldMap::extract")):
                            if r.kind == "call" and r.site is not None:
                                for x in prov(b, b.term(r.site)["args"][1]):
                                    if x.kind == "agg":
                                        keys.add(x.name.rsplit("::", 1)[-1])
            d = mir.single_def(b, f["commodity"]["place"]["l"]) if f["commodity"].get("k") in ("copy", "move") else None
            lc = None
            if d and d[0] == "call" and d[4]["args"]:
                d2 = mir.single_def(b, d[4]["args"][0]["place"]["l"]) if d[4]["args"][0].get("k") in ("copy", "move") else None
                lc = q.named_local(b, d2[4]["args"][0]) if d2 and d2[0] == "call" and d2[4]["args"] else q.named_local(b, d[4]["args"][0])
            okc = lc is not None and b.local_name(lc) == "commodity"
            ok = okv and src_ok and keys == {"Balance"} and okc
            detail = "value unchanged=%s, behind balance==Some=%s, parsed from column %s, commodity is the row's=%s" % (okv, src_ok, sorted(keys), okc)
            # no way around it: from the Some edge every path to the push passes the call
            push = [pb for pb, pt in b.calls() if callee_def(pt) == "std::vec::Vec::push" and "Txn" in b.local_ty(pt["args"][0]["place"]["l"])]
            if ok and push:
                for s, kind, labels, ct in q.switch_local_tests(b, bl):
                    for tb, labs in labels.items():
                        if list(labs) == ["Some"] and b.must_pass_edge(bb, s, tb):
                            reach = b.reach_from(tb, without_blocks=(bb,))
                            if push[0] in reach:
                                ok = False
                                detail = "a row with a balance can reach the push without the assertion being attached"
    chk.require(ok, R_BAL, "csv::import|running balance column becomes the assertion of that row", b.loc(bc[0][0]) if bc else b.loc(), detail,
                "if let Some(b) = balance { txn.balance(OwnedAmount{value: b, commodity}) }")
    # the statement account's posting carries it (both signs)
    td = P.body(SE + "::Txn::to_double_entry")
    chk.analysed(td)
    n = 0
    for ab, abb, aj, rv in [a for a in q.aggregates_of(P, "okane_core::syntax::Posting") if a[0].key == td.key]:
        f = {x["name"]: x["op"] for x in rv["fields"]}
        acct = " ".join(mir.prov_strs(td, f["account"]))
        if "src_account" not in acct and not any("src_account" in s for s in [str(x) for x in chain_roots(td, f["account"])]):
            continue
        n += 1
        cs = q.chains(td, f["balance"])
        okb = bool(cs) and any(q.is_param(r, "self", ("balance",)) for cn, r in cs)
        chk.require(okb, R_BAL, "to_double_entry|statement-account posting #%d asserts self.balance" % n, td.loc(abb),
                    "balance = %s" % mir.prov_strs(td, f["balance"]), "balance: self.balance.map(..)")
    chk.require(n == 2, R_BAL, "to_double_entry|statement-account posting on both sign branches", td.loc(), "%d found" % n, "2")


def chain_roots(b, op):
    out = []
    for r in prov(b, op):
        out.append(mir.show_root(r))
        if r.kind == "call" and r.site is not None:
            for a in b.term(r.site)["args"]:
                out += mir.prov_strs(b, a)
    return out


def counter_amount(P, chk):
    d = P.body(SE + "::Txn::dest_amount")
    bodies = P.with_closures(d.key)
    for x in bodies:
        chk.analysed(x)
    # every to_posting_amount argument in dest_amount (+closures) derives from a negation of self.amount
    n = 0
    ok = True
    details = []
    kinds_seen = set()
    for x in bodies:
        for bb, t in x.calls():
            if short(callee_def(t)) == "to_posting_amount":
                n += 1
                arg = t["args"][1]
                rs = prov(x, arg)
                def is_self_amount(r, x=x):
                    if q.is_param(r, "self", ("amount",)) or (r.kind == "capture" and r.name == "self" and r.fields[:1] == ("amount",)):
                        return True
                    if r.kind == "call" and short(r.name) == "into_borrowed" and r.site is not None:
                        inner = prov(x, x.term(r.site)["args"][0])
                        return bool(inner) and all(is_self_amount(y) for y in inner)
                    return False
                # every value that can reach the argument is one of the two: -self.amount, or the transferred amount given
                # the sign of -self.amount.value (one call per case, or one call fed by a match over the two cases)
                for r in rs:
                    if ("neg" in r.via) and is_self_amount(r):
                        kinds_seen.add("direct")
                        continue
                    if r.kind == "call" and short(r.name) == "amount_with_sign" and r.site is not None:
                        st = x.term(r.site)
                        srs = prov(x, st["args"][1])
                        if bool(srs) and all("neg" in y.via and "amount" in y.fields for y in srs):
                            kinds_seen.add("sign")
                            continue
                    ok = False
                    details.append(mir.show_root(r))
                if not rs:
                    ok = False
    chk.require(ok and n in (1, 2) and kinds_seen == {"direct", "sign"}, R_DEST, "Txn::dest_amount|counter posting = -(account amount), or the transferred amount signed like it", d.loc(),
                "counter amounts: %s (n=%d)" % (details, n), "-self.amount / amount_with_sign(transferred, -self.amount.value)")
    aws = P.body(SE + "::amount_with_sign")
    chk.analysed(aws)
    names = [short(callee_def(t)) for bb, t in aws.calls()]
    chk.require("set_sign_positive" in names or "copysign" in names or "signum" in names or ("abs" in names), R_DEST, "amount_with_sign|magnitude of the amount, sign of the second argument", aws.loc(),
                "calls: %s" % names, "sign copied")


def run(P, chk, tier):
    chk.rule(R_SIGN, "FieldMap::amount: credit +, debit -, amount column negated for a liability account; both empty is an error")
    chk.rule(R_CONV, "conversion: rate attached to the commodity it prices, computed amount by * or /, extract vs compute")
    chk.rule(R_ORDER, "rows come out oldest first: reversed exactly, and unconditionally, under new_to_old")
    chk.rule(R_BAL, "a running-balance column becomes the balance assertion of the statement account's posting")
    chk.rule(R_DEST, "the counter posting carries the opposite amount")
    chk.rule(importers.R_ROWS, "every CSV record becomes exactly one transaction; reader options cannot drop records")
    sign_table(P, chk)
    importers.csv_number_sign(P, chk, R_SIGN)
    counter_amount(P, chk)
    conversion_table(P, chk)
    row_order(P, chk)
    balance_rule(P, chk)
    importers.csv_reader(P, chk)
    importers.record_loop(P, chk, importers.CSV_IMPORT, "CSV record", skip_guards=(("is_empty", True),))
