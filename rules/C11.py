"""C11 — includes expand in place, in order; splitting a ledger changes nothing."""
from analysis import mir, q, tables, panics
from analysis.mir import norm, callee, callee_def, callee_names, prov
from . import surface

EXPLANATION = (
    "Static placement / provenance rules over Loader::load_impl.  The glob result is sorted - by the "
    "natural order of PathBuf or a comparator that is exactly Ord::cmp of the two paths - before the "
    "recursion loop, on the same vector, with no other use in between; the recursive call sits inside "
    "the entry loop (expansion in place) and iterates that sorted vector front to back; the callback "
    "is never reachable on the Include discriminant and is reached for every other variant; an empty "
    "match returns an error; the include target is parent() of the canonicalised *current* path joined "
    "with the include's path; the callback's path argument is that same canonical path; both file "
    "systems pass glob_match_options() = {case_sensitive, require_literal_separator, "
    "require_literal_leading_dot: all true}.  The recursion guard keeps a stack of canonical paths: "
    "the membership test and the push use the same canonical value, the stack is passed down, and "
    "every Ok return pops what was pushed (so a file included twice from different places still "
    "loads).  Equivalence of reports under splitting is not decided."
)

L = "okane_core::load"
LI = L + "::Loader::load_impl"
R_SORT = "E6.sorted-glob"
R_PLACE = "E6.expand-in-place"
R_CB = "E6.include-never-delivered"
R_EMPTY = "E6.empty-glob-is-error"
R_PATH = "E7.relative-to-including-file"
R_OPTS = "E8.glob-options"
R_STACK = "E6.include-stack"


def is_canon(r):
    return r.kind == "call" and r.name.endswith("FileSystem::canonicalize_path")


def locate(P):
    """-> (B, H, hcall): B = load_impl; H = the body that calls FileSystem::glob (B itself, or a local helper of the
    loader that B calls exactly once); hcall = (bb, term) of that call in B, or None when H is B"""
    b = P.body(LI)
    def globs_in(x):
        return [(bb, t) for bb, t in x.calls() if (callee_def(t) or "").endswith("FileSystem::glob")]
    if len(globs_in(b)) == 1:
        return b, b, None
    cands = []
    for k in sorted(P.callgraph().get(LI, ())):
        x = P.bodies.get(k)
        if x is None or x.is_closure or not mir.body_module(x).startswith(L) or not q.not_test(x) or x.key == LI:
            continue
        if len(globs_in(x)) == 1:
            cands.append(x)
    if len(cands) != 1:
        raise mir.AnchorMissing("load_impl: no single place calls FileSystem::glob (in load_impl: %d, helpers: %s)"
                                % (len(globs_in(b)), [c.key for c in cands]))
    h = cands[0]
    calls = [(bb, t) for bb, t in b.calls() if h.key in callee_names(t)]
    if len(calls) != 1:
        raise mir.AnchorMissing("load_impl calls its include helper %d times" % len(calls))
    return b, h, calls[0]


def run(P, chk, tier):
    chk.rule(R_SORT, "glob matches are sorted by Path order before the recursion, on the same vector")
    chk.rule(R_PLACE, "the recursive load happens inside the entry loop, over the sorted matches in order")
    chk.rule(R_CB, "the callback is unreachable for Include entries and reached for every other entry")
    chk.rule(R_EMPTY, "an include that matches nothing returns an error")
    chk.rule(R_PATH, "include paths are resolved against the including file's directory; the callback gets the including file's canonical path")
    chk.rule(R_OPTS, "both file systems glob with literal separator / literal leading dot / case sensitive")
    chk.rule(R_STACK, "the include stack tests, pushes and pops the canonical path of the file being loaded")
    b, h, hcall = locate(P)
    chk.analysed(b, h)
    if h is not b:
        chk.note("include resolution lives in the helper %s; its rules are evaluated there and tied back through the call in load_impl" % h.key)
    loops = b.loops()
    globs = [(bb, t) for bb, t in h.calls() if (callee_def(t) or "").endswith("FileSystem::glob")]
    recs = [(bb, t) for bb, t in b.calls() if LI in callee_names(t)]
    # the recursion may sit in a closure handed to try_for_each / for_each over the match list: the combinator call
    # then stands for the loop, the closure's argument for the loop element
    comb = None
    if not recs:
        for cb in P.closures_of(LI, recursive=False):
            for cbb_, ct_ in cb.calls():
                if LI in callee_names(ct_):
                    for xbb, xt in b.calls():
                        if (callee_def(xt) or "") in ("std::iter::Iterator::try_for_each", "std::iter::Iterator::for_each") and \
                                any(r.kind in ("agg", "closure") and str(r.name).replace("closure:", "") == cb.key
                                    for r in prov(b, xt["args"][1])):
                            recs.append((xbb, ct_))
                            comb = (cb, xbb, xt)
    if len(globs) != 1 or len(recs) != 1:
        chk.anchor_missing("load_impl: expected one glob and one recursive call, found %d / %d" % (len(globs), len(recs)))
        return
    gbb, gt = globs[0]
    rbb, rt = recs[0]
    hbb = hcall[0] if hcall else None

    def is_glob_vec_h(o):
        return q.all_roots(h, o, lambda r: r.kind == "call" and r.site == gbb)

    def is_vec_b(o):
        site = gbb if h is b else hbb
        return q.all_roots(b, o, lambda r: r.kind == "call" and r.site == site)

    # ---- sort: in the helper (before every Ok return) or in load_impl (before the recursion)
    MUT = ("reverse", "dedup", "retain", "truncate", "swap", "rotate_left", "rotate_right", "drain", "pop", "remove", "swap_remove",
           "dedup_by_key", "dedup_by", "insert", "clear")
    sorts = []
    for body, isvec, where in ((h, is_glob_vec_h, "h"), (b, is_vec_b, "b")):
        if where == "b" and h is b:
            continue
        for bb, t in body.calls():
            m = (callee_def(t) or "").rsplit("::", 1)[-1]
            if m.startswith("sort") and t["args"] and isvec(t["args"][0]):
                sorts.append((body, bb, t, m))
    ok = len(sorts) == 1
    detail = "the recursion is not preceded (on every path) by exactly one sort of the glob result"
    if ok:
        sbody, sbb, st_, m = sorts[0]
        if sbody is b:
            ok = b.must_pass_block(rbb, sbb)
        else:
            oks = [bb for bb, v, rv in q.ok_err_assignments(sbody) if v == "Ok"]
            ok = bool(oks) and all(sbody.must_pass_block(o, sbb) for o in oks)
            # and what is returned is that vector
            for bb2, v, rv in q.ok_err_assignments(sbody):
                if v == "Ok":
                    ok = ok and is_glob_vec_h(rv["fields"][0]["op"])
        if ok:
            if m in ("sort", "sort_unstable"):
                pass
            elif m in ("sort_by", "sort_unstable_by"):
                ok = comparator_is_path_ord(P, sbody, st_["args"][1])
                detail = "the comparator is not Ord::cmp of the two paths (order would differ from Path's component-wise order)"
            else:
                ok = False
                detail = "sorted by a derived key (%s): not the order of the paths themselves" % m
        for body, isvec in ((h, is_glob_vec_h), (b, is_vec_b)):
            for bb, t in body.calls():
                if not t["args"] or not any(isvec(a) for a in t["args"]):
                    continue
                m2 = (callee_def(t) or "").rsplit("::", 1)[-1]
                if m2 in MUT:
                    ok = False
                    detail = "the match list is modified by %s" % m2
    chk.require(ok, R_SORT, "load_impl|paths.sort before recursion", sorts[0][0].loc(sorts[0][1]) if sorts else b.loc(), detail,
                "glob(..) -> sort -> for path in &paths { load_impl(path) }")
    # ---- in place, in order
    entry_loops = [hh for hh, blks in loops.items()
                   if any(b.term(x)["k"] == "call" and "ParsedIter" in (callee(b.term(x)) or "") for x in blks)]
    inner = [hh for hh, blks in loops.items() if rbb in blks]
    ok = bool(entry_loops) and bool(inner) and all(rbb in loops[hh] for hh in entry_loops)
    detail = "the recursive call is not inside the entry loop"
    if ok and hbb is not None:
        ok = all(hbb in loops[hh] for hh in entry_loops)
        detail = "the include is not resolved inside the entry loop"
    if ok and comb is not None:
        cb, xbb, xt = comb
        site = gbb if h is b else hbb
        cs = q.chains(b, xt["args"][0], stop=lambda r: r.kind == "call" and r.site == site)
        names = set(n.rsplit("::", 1)[-1] for cn, r in cs for n in cn)
        bad = names & {"rev", "skip", "take", "filter", "step_by", "skip_while", "take_while", "filter_map"}
        ok = not bad and bool(cs) and all(r.kind == "call" and r.site == site for cn, r in cs)
        detail = "match list traversed through %s" % sorted(bad) if bad else "the combinator does not traverse the sorted glob result"
        # the file loaded is the element handed to the closure
        ok = ok and q.all_roots(cb, rt["args"][2], lambda r: r.kind == "param" and r.name.startswith("2:"))
    elif ok:
        ih = min(inner, key=lambda hh: len(loops[hh]))
        nexts = [(bb, b.term(bb)) for bb in loops[ih] if b.term(bb)["k"] == "call" and callee_def(b.term(bb)) == "std::iter::Iterator::next"
                 and "PathBuf" in b.local_ty(b.term(bb)["args"][0]["place"]["l"])]
        ok = len(nexts) == 1
        detail = "the loop around the recursion does not iterate the match list"
        if ok:
            site = gbb if h is b else hbb
            cs = q.chains(b, nexts[0][1]["args"][0], stop=lambda r: r.kind == "call" and r.site == site)
            names = set(n.rsplit("::", 1)[-1] for cn, r in cs for n in cn)
            bad = names & {"rev", "skip", "take", "filter", "step_by", "skip_while", "take_while", "filter_map"}
            ok = not bad and bool(cs) and all(r.kind == "call" and r.site == site for cn, r in cs)
            detail = "match list traversed through %s" % sorted(bad) if bad else "loop does not traverse the sorted glob result"
            ok = ok and q.all_roots(b, rt["args"][2], lambda r: r.kind == "call" and r.site == nexts[0][0])
    chk.require(ok, R_PLACE, "load_impl|recursion inside the entry loop over the sorted matches", b.loc(rbb), detail,
                "for entry in parse(..) { Include => for p in &paths { load_impl(p) } }")
    # ---- callback never for Include
    cbs = [(bb, t) for bb, t in b.calls() if callee_def(t) in ("std::ops::FnMut::call_mut", "std::ops::Fn::call", "std::ops::FnOnce::call_once")
           and q.all_roots(b, t["args"][0], lambda r: q.is_param(r, "callback"))]
    ok = len(cbs) == 1
    detail = "expected exactly one callback invocation, found %d" % len(cbs)
    if ok:
        cbb, ct = cbs[0]
        labs = None
        for (sb, tb, kind, subject, ls) in q.switch_edges(b):
            if kind == "variant" and "Include" in sum([list(x[4]) for x in q.switch_edges(b) if x[0] == sb], []) and b.must_pass_edge(cbb, sb, tb):
                labs = ls
        adt = P.adt("okane_core::syntax::LedgerEntry")
        allv = set(v["name"] for v in adt["variants"])
        ok = labs is not None and "Include" not in labs and set(labs) == allv - {"Include"}
        detail = "callback is reached for entry kinds %s (all kinds: %s)" % (sorted(labs) if labs else None, sorted(allv))
    chk.require(ok, R_CB, "load_impl|callback for every entry except Include", b.loc(cbs[0][0]) if cbs else b.loc(), detail,
                "match entry { Include => recurse, _ => callback }")
    # ---- empty glob (in the body that holds the glob call)
    emp = [(bb, t) for bb, t in h.calls() if (callee_def(t) or "").endswith("::is_empty") and is_glob_vec_h(t["args"][0])]
    ok = len(emp) == 1
    if ok:
        ebb, et = emp[0]
        ds = mir.describe_switch(h, et["target"])
        ok = False
        if ds:
            for tb, labs in ds[2].items():
                if True in labs:
                    errs = [bb for bb, v, rv in q.ok_err_assignments(h) if v == "Err"]
                    # an Err built where a closure / helper of load_impl was written out: it leaves through `?`
                    for i_ in sorted(h.live_blocks()):
                        for st_ in h.blocks[i_]["stmts"]:
                            if st_["k"] == "assign" and st_["rv"]["k"] == "aggregate" and st_["rv"].get("variant") == "Err" and \
                                    norm(st_["rv"].get("adt") or "").endswith("result::Result") and st_["place"]["l"] != 0 and \
                                    getattr(h, "inlined_callees", None):
                                errs.append(i_)
                    reach = h.reach_from(tb, without_blocks=tuple(errs))
                    ok = bool(errs) and not any(h.term(x)["k"] == "return" for x in reach) and (h is not b or rbb not in reach)
        if h is b:
            ok = ok and b.must_pass_block(rbb, ebb)
        else:
            oks = [bb for bb, v, rv in q.ok_err_assignments(h) if v == "Ok"]
            ok = ok and bool(oks) and all(h.must_pass_block(o, ebb) for o in oks)
    chk.require(ok, R_EMPTY, "load_impl|paths.is_empty() -> Err", h.loc(emp[0][0]) if emp else h.loc(),
                "an include matching no file does not always end in an error before the recursion", "is_empty() true edge returns Err")
    # ---- path provenance
    joins = mir.call_sites(h, ["std::path::Path::join"])
    ok = len(joins) == 1
    detail = "expected one Path::join"
    if ok:
        jt = joins[0][1]
        if h is b:
            recv_ok = q.chain_ok(b, jt["args"][0], is_canon, required=("parent",), stop=True)
            arg_ok = any(r.fields and "#Include" in r.fields for r in prov(b, jt["args"][1])) or \
                any("Include" in " ".join(r.fields) for cn, r in q.chains(b, jt["args"][1]))
        else:
            # in the helper the including file and the include text are parameters: tie them to the call in load_impl
            cs = q.chains(h, jt["args"][0])
            params = set(int(r.name.split(":", 1)[0]) for cn, r in cs if r.kind == "param")
            recv_ok = bool(cs) and all(r.kind == "param" and "parent" in [n.rsplit("::", 1)[-1] for n in cn] for cn, r in cs) and len(params) == 1
            if recv_ok:
                k = params.pop()
                arg = hcall[1]["args"][k - 1]
                recv_ok = q.chain_ok(b, arg, is_canon, stop=True)
                if not recv_ok:
                    detail_recv = mir.prov_strs(b, arg)
            cs2 = q.chains(h, jt["args"][1])
            params2 = set(int(r.name.split(":", 1)[0]) for cn, r in cs2 if r.kind == "param")
            arg_ok = bool(cs2) and all(r.kind == "param" for cn, r in cs2) and len(params2) == 1
            if arg_ok:
                k2 = params2.pop()
                a2 = hcall[1]["args"][k2 - 1]
                arg_ok = any("#Include" in r.fields for r in prov(b, a2)) or any("Include" in " ".join(r.fields) for cn, r in q.chains(b, a2))
        globarg = q.chain_ok(h, gt["args"][1], lambda r: True, required=("join",))
        ok = recv_ok and arg_ok and globarg
        detail = "join receiver from parent(canonical path of the file being loaded)=%s, argument from the include entry=%s, glob pattern from the join=%s" % (recv_ok, arg_ok, globarg)
    chk.require(ok, R_PATH, "load_impl|target = parent(canonical path).join(include path)", h.loc(joins[0][0]) if joins else h.loc(), detail,
                "path.parent()?.join(include_path) -> glob")
    if cbs:
        cbb, ct = cbs[0]
        tup = ct["args"][1]
        first = prov(b, tup, suffix=("0",))
        okp = bool(first) and all(is_canon(r) for r in first)
        chk.require(okp, R_PATH, "load_impl|callback(path of the file being loaded, ..)", b.loc(cbb),
                    "the callback's path argument is %s" % sorted(mir.show_root(r) for r in first), "callback(&canonical current path, &ctx, &entry)")
    reads = [(bb, t) for bb, t in b.calls() if (callee_def(t) or "").endswith("FileSystem::file_content_utf8")]
    okr = len(reads) == 1 and q.all_roots(b, reads[0][1]["args"][1], is_canon)
    chk.require(okr, R_PATH, "load_impl|reads the canonical current path", b.loc(), "file content is not read from the canonicalised current path", "file_content_utf8(&path)")
    # ---- glob options
    go = P.body(L + "::glob_match_options")
    chk.analysed(go)
    aggs = [s for s in q.aggregates_of(P, "glob::MatchOptions") if s[0].key == go.key]
    okg = len(aggs) == 1
    vals = {}
    if okg:
        for f in aggs[0][3]["fields"]:
            vals[f["name"]] = f["op"].get("int")
        okg = vals == {"case_sensitive": 1, "require_literal_separator": 1, "require_literal_leading_dot": 1}
    chk.require(okg, R_OPTS, "glob_match_options|all three true", go.loc(), "glob options are %s" % vals, "case_sensitive, require_literal_separator, require_literal_leading_dot = true")
    users = set()
    for body in P.bodies.values():
        if not q.not_test(body):
            continue
        for bb, t in body.calls():
            if go.key in callee_names(t):
                users.add(body.key.split("::{closure")[0])
    want = {"<okane_core::load::ProdFileSystem as okane_core::load::FileSystem>::glob",
            "<okane_core::load::FakeFileSystem as okane_core::load::FileSystem>::glob"}
    chk.require(want <= users, R_OPTS, "FileSystem::glob|both implementations use glob_match_options", go.loc(),
                "glob_match_options() is used by %s" % sorted(users), "used by ProdFileSystem::glob and FakeFileSystem::glob")
    for body in P.bodies.values():
        if not q.not_test(body) or not body.key.startswith(("<okane_core::load::", "okane_core::load::")):
            continue
        for bb, t in body.calls():
            cd = callee_def(t) or ""
            if cd in ("glob::glob_with", "glob::Pattern::matches_path_with", "glob::Pattern::matches_with"):
                okm = q.all_roots_x(P, body, t["args"][-1], lambda r: r.kind == "call" and r.name == go.key)
                chk.require(okm, R_OPTS, "%s|options from glob_match_options" % cd, body.loc(bb),
                            "a glob match uses other options: %s" % mir.prov_strs(body, t["args"][-1]), "options = glob_match_options()")
            if cd in ("glob::glob", "glob::Pattern::matches", "glob::Pattern::matches_path"):
                chk.fail(R_OPTS, "%s|default options" % cd, body.loc(bb), "a glob match with default options (wildcards would match dot files / separators)")
    # ---- include stack
    include_stack(P, chk, b, rbb)
    S = surface.Surface(P, chk)
    S.sccs([b])
    S.finish(report_stale=False)


def is_glob_vec_chain(b, o, gbb):
    return any(r.kind == "call" and r.site == gbb for cn, r in q.chains(b, o)) or \
        any(any(x.kind == "call" and x.site == gbb for x in prov(b, b.term(r.site)["args"][0]))
            for r in prov(b, o) if r.kind == "call" and r.site is not None and b.term(r.site)["args"])


def comparator_is_path_ord(P, b, operand):
    clo = None
    for r in prov(b, operand):
        if r.kind == "closure":
            clo = P.bodies.get(r.name)
        elif r.kind == "agg" and r.name.startswith("closure:"):
            clo = P.bodies.get(r.name[len("closure:"):])
    if operand.get("k") == "const" and operand.get("closure"):
        clo = P.bodies.get(norm(operand["closure"]))
    if operand.get("k") == "const" and operand.get("fn"):
        return norm(operand.get("fn_resolved") or operand["fn"]) in ("<std::path::PathBuf as std::cmp::Ord>::cmp", "<std::path::Path as std::cmp::Ord>::cmp")
    if clo is None:
        return False
    calls = [t for bb, t in clo.calls()]
    if len(calls) != 1:
        return False
    t = calls[0]
    if callee(t) not in ("<std::path::PathBuf as std::cmp::Ord>::cmp", "<std::path::Path as std::cmp::Ord>::cmp"):
        return False
    a0 = prov(clo, t["args"][0])
    a1 = prov(clo, t["args"][1])
    p0 = set(r.name.split(":")[0] for r in a0 if r.kind == "param" and not r.fields)
    p1 = set(r.name.split(":")[0] for r in a1 if r.kind == "param" and not r.fields)
    return p0 == {"2"} and p1 == {"3"} and len(a0) == 1 and len(a1) == 1


def include_stack(P, chk, b, rbb):
    pushes = [(bb, t) for bb, t in mir.call_sites(b, ["std::vec::Vec::push"])
              if q.all_roots(b, t["args"][0], lambda r: q.is_param(r, "ancestors"))]
    pops = [(bb, t) for bb, t in b.calls() if (callee_def(t) or "") in ("std::vec::Vec::pop", "std::vec::Vec::truncate")
            and q.all_roots(b, t["args"][0], lambda r: q.is_param(r, "ancestors"))]
    if len(pushes) != 1:
        chk.fail(R_STACK, "load_impl|one push of the current file", b.loc(), "expected exactly one ancestors.push, found %d" % len(pushes))
        return
    pbb, pt = pushes[0]
    pushed_canon = q.chain_ok(b, pt["args"][1], is_canon, stop=True)
    chk.require(pushed_canon, R_STACK, "load_impl|pushes the canonical path", b.loc(pbb),
                "what is pushed on the include stack is %s" % mir.prov_strs(b, pt["args"][1]), "ancestors.push(canonical path)")
    # the membership test compares against the same canonical path
    anys = [(bb, t) for bb, t in b.calls() if callee_def(t) in ("std::iter::Iterator::any", "core::slice::contains")]
    okc = False
    detail = "no membership test on the include stack"
    for bb, t in anys:
        if callee_def(t) == "core::slice::contains":
            okc = q.chain_ok(b, t["args"][1], is_canon, stop=True)
            detail = "contains() argument is %s" % mir.prov_strs(b, t["args"][1])
            continue
        # closure captures: every captured value must be the canonical path
        for r in prov(b, t["args"][1]):
            if r.kind == "agg" and r.name.startswith("closure:") and r.site is not None:
                for st in b.blocks[r.site]["stmts"]:
                    if st["k"] == "assign" and st["rv"]["k"] == "aggregate" and st["rv"].get("agg") == "closure":
                        caps = st["rv"]["fields"]
                        okc = bool(caps) and all(q.chain_ok(b, f["op"], is_canon, stop=True) for f in caps)
                        detail = "the membership test compares against %s" % [mir.prov_strs(b, f["op"]) for f in caps]
    chk.require(okc, R_STACK, "load_impl|cycle test uses the canonical path", b.loc(), detail,
                "ancestors.iter().any(|x| x == canonical path)")
    # every Ok return after the push pops
    ok_rets = [bb for bb, v, rv in q.ok_err_assignments(b) if v == "Ok"]
    okp = bool(pops)
    for ob in ok_rets:
        if not b.must_pass_block(ob, pbb):
            continue
        # from push to this Ok, a pop is unavoidable
        reach = b.reach_from(pbb, without_blocks=tuple(x[0] for x in pops))
        if ob in reach:
            okp = False
    # and the pop is not inside the entry loop (it must undo exactly this file's push)
    loops = b.loops()
    for bb, t in pops:
        if any(bb in blks for blks in loops.values()) and (callee_def(t) or "").endswith("pop"):
            okp = False
    chk.require(okp, R_STACK, "load_impl|every successful return pops the file it pushed", b.loc(),
                "a file can return Ok while still on the include stack (later siblings would be reported as recursive includes)",
                "push .. pop pairing on all Ok paths")
