"""C03 — omitted and assigned amounts are inferred exactly."""
from analysis import mir, q, tables, panics
from analysis.mir import norm, callee, callee_def, callee_names, prov
from . import C02

EXPLANATION = (
    "Static path / provenance rules.  In add_transaction a second unconstrained posting always "
    "returns UndeduciblePostingAmount (the Some result of unfilled.replace(..) reaches only that "
    "Err); the deduced amount is negate() applied directly to the accumulated sum of balance "
    "deltas (no rounding or other call in between), and the same value is stored in postings[u] "
    "and added to postings[u].account with the same u.  Balance mutators are called only from "
    "add_transaction / process_posting (and Ledger::balance on its own local balances).  The "
    "assignment arm computes `current.check_sub(prev)` where current is the evaluated `= X` and "
    "prev is what Balance::set_partial(account, current) returned; Balance::set_partial's bare-zero "
    "arm converts the previous balance with the cardinality-checking conversion and propagates its "
    "error; Amount::set_partial removes the entry on a zero value and inserts otherwise, returning "
    "the previous value in the same commodity.  The value of the difference is not decided."
)

BK = "okane_core::report::book_keeping"
AMT = "okane_core::report::eval::amount::Amount"
BAL = "okane_core::report::balance::Balance"
R_TWO = "E5.second-unconstrained-errors"
R_DED = "E7.deduced-amount"
R_WHO = "E6.who-may-mutate-balance"
R_ASG = "E7.assignment-arm"
R_SETP = "E5.set-partial"


def second_unconstrained(P, chk):
    b = P.body(BK + "::add_transaction")
    chk.analysed(b)
    reps = mir.call_sites(b, ["std::option::Option::replace"])
    took = False
    if not reps:
        # `match unfilled.take() { Some(first) => return Err(..), None => unfilled = Some(current) }`
        reps = [(bb, t) for bb, t in mir.call_sites(b, ["std::option::Option::take"])
                if b.local_name(q.named_local(b, t["args"][0]) or 0) == "unfilled"]
        took = True
    if len(reps) != 1:
        chk.anchor_missing("add_transaction: expected one Option::replace (or take) on the unfilled slot")
        return
    rbb, rt = reps[0]
    if took:
        # the None arm must put the current posting into the slot
        slot = q.named_local(b, rt["args"][0])
        ds0 = mir.describe_switch(b, rt["target"])
        refilled = False
        if ds0 and ds0[0] == "variant":
            for tb, labs in ds0[2].items():
                if "None" in labs:
                    for x in b.reach_from(tb):
                        for st in b.blocks[x]["stmts"]:
                            if st["k"] == "assign" and st["place"]["l"] == slot and not st["place"]["p"]:
                                rv = st["rv"]
                                if rv["k"] == "use" and rv["op"].get("k") in ("copy", "move") and not rv["op"]["place"]["p"]:
                                    d = mir.single_def(b, rv["op"]["place"]["l"])
                                    if d and d[0] == "assign":
                                        rv = d[4]
                                if rv["k"] == "aggregate" and rv.get("variant") == "Some":
                                    refilled = refilled or (x == tb or b.must_pass_edge(x, rt["target"], tb))
        chk.require(refilled, R_TWO, "add_transaction|an empty slot is filled with the current posting", b.loc(rbb),
                    "after unfilled.take() returned None the slot is not set to Some(current)", "None => unfilled = Some(current)")
    # replace is reached on the (None, _) arm of process_posting's result
    okarm = any(labs == ("None",) and any(r.kind == "call" and r.name == BK + "::process_posting" for r in roots)
                for roots, labs in q.variant_guards(b, rbb))
    chk.require(okarm, R_TWO, "add_transaction|unfilled slot taken only for an unconstrained posting", b.loc(rbb),
                "unfilled.replace(..) is not confined to the arm where process_posting returned no amount",
                "replace on the (None, _) arm")
    # Some(first) -> Err(UndeduciblePostingAmount) on all paths
    sw = rt["target"]
    ds = mir.describe_switch(b, sw)
    ok = False
    if ds and ds[0] == "variant":
        some_t = [tb for tb, labs in ds[2].items() if "Some" in labs]
        err_blocks = []
        for bb, v, rv in q.ok_err_assignments(b):
            if v == "Err" and "UndeduciblePostingAmount" in mir.operand_shape(b, rv["fields"][0]["op"]):
                err_blocks.append(bb)
        if some_t and err_blocks:
            ok = True
            for tb in some_t:
                reach = b.reach_from(tb, without_blocks=tuple(err_blocks))
                if any(b.term(x)["k"] == "return" for x in reach):
                    ok = False
            # and that error is raised nowhere else
            for eb in err_blocks:
                if not any(b.must_pass_edge(eb, sw, tb) for tb in some_t):
                    ok = False
    chk.require(ok, R_TWO, "add_transaction|second unconstrained posting -> UndeduciblePostingAmount", b.loc(sw),
                "a transaction with two unconstrained postings can get past the replace(..) without the error",
                "Some(first) always returns Err(UndeduciblePostingAmount(first, this))")


def deduced_amount(P, chk):
    b = P.body(BK + "::add_transaction")
    negs = mir.call_sites(b, [AMT + "::negate", "std::ops::Neg::neg"])
    negs = [(bb, t) for bb, t in negs if "Amount" in (callee(t) or "")]
    if len(negs) != 1:
        chk.fail(R_DED, "add_transaction|one negation of the accumulated sum", b.loc(),
                 "expected exactly one negation producing the deduced amount, found %d" % len(negs))
        return
    nbb, nt = negs[0]
    # receiver is the accumulator itself: initialised by Default and only updated by +=
    recv = nt["args"][0]
    roots = prov(b, recv)
    okacc = bool(roots) and all(r.kind == "call" and r.name.endswith("Default>::default") or
                                (r.kind == "call" and r.name.endswith("::default")) for r in roots) and \
        all(not [v for v in r.via if v not in ("φ",)] for r in roots)
    chk.require(okacc, R_DED, "add_transaction|deduced = -(accumulated balance), nothing in between", b.loc(nbb),
                "the negated value is %s, not the accumulated sum itself" % mir.prov_strs(b, recv),
                "balance.negate() on the accumulator")
    # the accumulator is fed by balance_delta of every processed posting
    accs = [bb for bb, t in b.calls() if callee_def(t) == "std::ops::AddAssign::add_assign" and
            panics.same_root_loose(b, t["args"][0], recv)]
    okfeed = len(accs) == 1 and any("balance_delta" in r.fields for r in prov(b, b.term(accs[0])["args"][1]))
    chk.require(okfeed, R_DED, "add_transaction|accumulator += evaluated.balance_delta", b.loc(),
                "the running sum is not fed by each posting's balance_delta", "balance += evaluated.balance_delta")
    # stored and booked
    idxm = mir.call_sites(b, ["std::ops::IndexMut::index_mut"])
    idx = mir.call_sites(b, ["std::ops::Index::index"])
    adds = mir.call_sites(b, [BAL + "::add_amount"])
    # the unfilled posting is reached through postings[u] (one mutable borrow used for both, or a write and a read)
    ok = len(idxm) >= 1 and len(idxm) + len(idx) <= 2 and len(adds) == 1
    detail = "expected postings[u] write, postings[u] read and one add_amount"
    if ok:
        sites = idxm + idx
        u1 = sites[0][1]["args"][1]
        same_u = all(panics.same_root_loose(b, u1, s_[1]["args"][1]) for s_ in sites[1:])
        at = adds[0][1]
        acc_ok = q.all_roots(b, at["args"][1], lambda r: r.kind == "call" and r.site is not None and
                             callee_def(b.term(r.site)) in ("std::ops::Index::index", "std::ops::IndexMut::index_mut")
                             and r.fields[-1:] == ("account",))
        amt_ok = q.all_roots(b, at["args"][2], lambda r: r.kind == "call" and r.site == nbb)
        bal_ok = q.all_roots(b, at["args"][0], lambda r: q.is_param(r, "bal"))
        # the stored amount
        stored_ok = False
        for i, blk in enumerate(b.blocks):
            for st in blk["stmts"]:
                if st["k"] == "assign" and st["place"]["p"] and mir.proj_fields(st["place"])[-1:] == ["amount"]:
                    base = {"l": st["place"]["l"], "p": []}
                    if q.all_roots(b, base, lambda r: r.kind == "call" and r.site is not None and
                                   callee_def(b.term(r.site)) == "std::ops::IndexMut::index_mut"):
                        stored_ok = q.all_roots(b, st["rv"].get("op", {"k": "other"}), lambda r: r.kind == "call" and r.site == nbb)
        ok = same_u and acc_ok and amt_ok and bal_ok and stored_ok
        detail = "same index=%s account=%s amount=%s bal=%s stored=%s" % (same_u, acc_ok, amt_ok, bal_ok, stored_ok)
    chk.require(ok, R_DED, "add_transaction|deduced amount stored in and booked to postings[u]", b.loc(), detail,
                "postings[u].amount = deduced; bal.add_amount(postings[u].account, deduced)")


def who_may_mutate(P, chk):
    allowed = {
        BAL + "::add_amount": {BK + "::add_transaction", "okane_core::report::query::Ledger::balance"},
        BAL + "::add_posting_amount": {BK + "::process_posting"},
        BAL + "::set_partial": {BK + "::process_posting"},
    }
    for fn, ok_callers in allowed.items():
        callers = set(b.key for b, bb, t in q.callers_of(P, fn) if q.not_test(b))
        chk.require(bool(callers) and callers <= ok_callers, R_WHO, "%s|callers" % fn.rsplit("::", 1)[-1], "",
                    "%s is also called from %s" % (fn, sorted(callers - ok_callers)), "called only from %s" % sorted(c.rsplit("::", 1)[-1] for c in callers))
    # in process_posting the mutators act on the `bal` parameter and the `account` parameter
    b = P.body(BK + "::process_posting")
    for bb, t in mir.call_sites(b, [BAL + "::add_posting_amount", BAL + "::set_partial"]):
        ok = q.all_roots(b, t["args"][0], lambda r: q.is_param(r, "bal")) and \
            q.all_roots(b, t["args"][1], lambda r: q.is_param(r, "account"))
        chk.require(ok, R_WHO, "process_posting|%s(bal, account, ..)" % (callee(t) or "").rsplit("::", 1)[-1], b.loc(bb),
                    "a balance mutator is applied to another balance / account", "acts on the posting's own account")
    # add_transaction resolves the account from the posting in hand
    a = P.body(BK + "::add_transaction")
    pp = mir.call_sites(a, [BK + "::process_posting"])
    if pp:
        t = pp[0][1]
        ok = q.chain_ok(a, t["args"][3], lambda r: True, required=("ensure",)) and \
            any("account" in r.fields or True for n, r in q.chains(a, t["args"][3]))
        # ensure's argument is posting.account
        ens = mir.call_sites(a, ["okane_core::report::intern::InternStore::ensure"])
        ok = ok and any(q.all_roots(a, et["args"][1], lambda r: "account" in r.fields and r.kind == "call" and
                                    r.name.endswith("Iterator>::next")) for ebb, et in ens)
        chk.require(ok, R_WHO, "add_transaction|account = ensure(posting.account)", a.loc(pp[0][0]),
                    "process_posting is not given the account resolved from the posting in hand", "account resolved from posting.account")


def assignment_arm(P, chk):
    b = P.body(BK + "::process_posting")
    sp = mir.call_sites(b, [BAL + "::set_partial"])
    cs = mir.call_sites(b, ["okane_core::report::eval::posting_amount::PostingAmount::check_sub"])
    if len(sp) != 1 or len(cs) != 1:
        chk.fail(R_ASG, "process_posting|assignment arm shape", b.loc(), "expected one set_partial and one check_sub, found %d / %d" % (len(sp), len(cs)))
        return
    sbb, st = sp[0]
    cbb, ct = cs[0]
    cur_ok = q.chain_ok(b, st["args"][2], lambda r: C02.is_posting_field(r, "balance"), required=("eval_mut",))
    recv_ok = q.chain_ok(b, ct["args"][0], lambda r: C02.is_posting_field(r, "balance"), required=("eval_mut",))
    prev_ok = q.all_roots(b, ct["args"][1], lambda r: r.kind == "call" and r.name == BAL + "::set_partial")
    arm = any(labs == ("None",) and any(C02.is_posting_field(r, "amount") for r in roots) for roots, labs in q.variant_guards(b, sbb)) and \
        any(labs == ("Some",) and any(C02.is_posting_field(r, "balance") for r in roots) for roots, labs in q.variant_guards(b, sbb))
    chk.require(cur_ok and recv_ok and prev_ok and arm, R_ASG, "process_posting|amount = X - previous balance", b.loc(cbb),
                "assignment arm computes %s.check_sub(%s) after set_partial(.., %s)" % (mir.prov_strs(b, ct["args"][0]), mir.prov_strs(b, ct["args"][1]), mir.prov_strs(b, st["args"][2])),
                "prev = bal.set_partial(account, X); amount = X.check_sub(prev)")
    # the inferred amount is both the posting amount and its balance delta
    ok = False
    for body, bb, j, rv in q.aggregates_of(P, BK + "::EvaluatedPosting"):
        if body.key != b.key or not b.must_pass_block(bb, cbb):
            continue
        f = {x["name"]: x["op"] for x in rv["fields"]}
        from_sub = lambda o: q.all_roots(b, o, lambda r: r.kind == "call" and r.site == cbb)
        ok = from_sub(f["amount"]) and from_sub(f["balance_delta"])
    chk.require(ok, R_ASG, "process_posting|assignment arm returns the inferred posting", b.loc(),
                "the posting built on the assignment arm does not carry the check_sub result as amount and balance delta",
                "EvaluatedPosting{amount: X - prev, balance_delta: X - prev}")


def balance_set_partial(P, chk):
    b = P.body(BAL + "::set_partial")
    chk.analysed(b)
    # Zero arm: insert(account, zero()) ; previous balance -> try_into -> map_err -> returned
    conv = [(bb, t) for bb, t in b.calls() if callee_def(t) in ("std::convert::TryInto::try_into", "std::convert::TryFrom::try_from")]
    ok = False
    detail = "no cardinality-checking conversion on the bare-zero arm"
    for bb, t in conv:
        zero_arm = any(labs == ("Zero",) and any(q.is_param(r, "amount") for r in roots) for roots, labs in q.variant_guards(b, bb))
        # the previous balance is taken out and the account left at zero: insert(account, zero()) or mem::take(entry(account))
        src = q.chain_ok(b, t["args"][0], lambda r: True, required=("insert",)) or \
            q.chain_ok(b, t["args"][0], lambda r: True, required=("take", "entry"))
        resolved = callee(t) or ""
        checked = "PostingAmount" in b.local_ty(t["dest"]["l"]) and "Result" in b.local_ty(t["dest"]["l"])
        if zero_arm and src and checked:
            ok = True
    # its error is returned (map_err result assigned to _0)
    rets = [v for bb, v, rv in q.ok_err_assignments(b)]
    ok = ok and any(v == "call:std::result::Result::map_err" for v in rets)
    chk.require(ok, R_SETP, "Balance::set_partial|`= 0` on several commodities is rejected", b.loc(), detail,
                "prev = insert(account, zero()); (&prev).try_into().map_err(MultiCommodityWithPartialSet)")
    # Single arm delegates to Amount::set_partial on the account's entry
    dele = mir.call_sites(b, [AMT + "::set_partial"])
    ok2 = len(dele) == 1 and any(labs == ("Single",) for roots, labs in q.variant_guards(b, dele[0][0])) and \
        q.chain_ok(b, dele[0][1]["args"][0], lambda r: True, required=("entry",))
    chk.require(ok2, R_SETP, "Balance::set_partial|single commodity replaces that commodity of the account", b.loc(),
                "the Single arm does not call Amount::set_partial on the account's entry", "accounts.entry(account).or_default().set_partial(x)")
    # Amount::set_partial returns the previous value in the same commodity
    a = P.body(AMT + "::set_partial")
    chk.analysed(a)
    agg = [s for s in q.aggregates_of(P, "okane_core::report::eval::single_amount::SingleAmount") if s[0].key == a.key]
    fv = [(bb, t) for bb, t in a.calls() if (callee_def(t) or "").endswith("SingleAmount::from_value") and t["dest"]["l"] == 0]
    ok3 = len(agg) + len(fv) == 1
    if ok3:
        if agg:
            f = {x["name"]: x["op"] for x in agg[0][3]["fields"]}
        else:
            f = {"value": fv[0][1]["args"][0], "commodity": fv[0][1]["args"][1]}
        dflt = q.chain_ok(a, f["value"], lambda r: True, required=("unwrap_or_default",))
        if not dflt:
            # prev.unwrap_or(Decimal::ZERO)
            for bb, t in a.calls():
                if (callee_def(t) or "").endswith("Option::unwrap_or") and len(t["args"]) == 2:
                    z = prov(a, t["args"][1])
                    if z and all(r.kind == "const" and "ZERO" in str(r.name) for r in z) and \
                            q.all_roots(a, f["value"], lambda r: r.kind == "call" and r.site == bb):
                        dflt = True
        ok3 = dflt and \
            all(n[-1].rsplit("::", 1)[-1] in ("remove", "insert") for n, r in q.chains(a, f["value"])) and \
            q.all_roots(a, f["commodity"], lambda r: q.is_param(r, "amount") and r.fields[-1:] == ("commodity",))
    chk.require(ok3, R_SETP, "Amount::set_partial|returns the previous value of that commodity", a.loc(),
                "the returned SingleAmount is not (previous map value or 0, same commodity)", "SingleAmount{value: prev.unwrap_or_default(), commodity}")


def run(P, chk, tier):
    chk.rule(R_TWO, "a second unconstrained posting always yields UndeduciblePostingAmount")
    chk.rule(R_DED, "deduced amount = negate(accumulated balance deltas), stored in and booked to postings[u] only")
    chk.rule(R_WHO, "balance mutators are called only while processing the posting in hand, on its own account")
    chk.rule(R_ASG, "assigned amount = asserted value check_sub the previous balance returned by set_partial")
    chk.rule(R_SETP, "set_partial: bare zero on several commodities is an error; single commodity replaces / removes that entry and returns the previous value")
    second_unconstrained(P, chk)
    deduced_amount(P, chk)
    who_may_mutate(P, chk)
    assignment_arm(P, chk)
    balance_set_partial(P, chk)
    C02.amount_set_partial(P, chk)
    # `= 0` relies on cancelled commodities having been removed from the account's entry (shared with C02 / C04)
    from . import C04 as _c04
    chk.rule(_c04.R_ZERO, "every balance mutator removes zero entries of the entry it updated (a bare `= 0` then sees one commodity)")
    _c04.zero_entries(P, chk)
