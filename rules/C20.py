"""C20 — the golden-file helper compares faithfully and only writes when told to."""
from analysis import mir, q, tables, inline
from analysis.mir import norm, callee, callee_def, callee_names, prov

_POL = inline.helpers_policy(keep=("::is_update_golden", "::read_as_utf8", "::Golden::new", "::Golden::assert"))


def view(P, key):
    """the function with its private helpers (anything in the crate that is not a named anchor) inlined"""
    return inline.inlined(P, key, _POL)


def helper_keys(P):
    """private helpers that are only reached through the anchored functions (their code is judged inlined)"""
    out = set()
    for root in (ASSERT, NEW, UPD, READ):
        if root in P.bodies:
            out |= set(view(P, root).inlined_callees)
    return out

EXPLANATION = (
    "Static who-may-write / dominance / provenance rules over the okane_golden crate (all non-test bodies). "
    "Every call that can create or modify a file (fs::write, File::create*, OpenOptions, remove/rename/copy/"
    "create_dir/hard_link/set_permissions, process::Command) must sit in Golden::assert behind the true edge of "
    "is_update_golden(), write `got` to self.path and have its io::Result consumed by expect/unwrap/?; on the "
    "update edge every normal return passes that write.  is_update_golden reads the variable named exactly "
    "UPDATE_GOLDEN and is true only behind a non-emptiness test of its value; nothing else in the crate reads "
    "the environment.  Golden::new yields a Golden without reading the file only under kind()==NotFound and "
    "is_update_golden(); every other failure is returned as Err; content comes from read_as_utf8(path), which "
    "replaces exactly \"\\r\\n\" by \"\\n\".  Every normal return of assert lies behind an == of the unmodified "
    "`got` parameter against `want`, where want is self.content (read mode) or got (update mode); the unequal "
    "edge panics.  str equality itself and the file system are trusted."
)

G = "okane_golden"
ASSERT = G + "::Golden::assert"
NEW = G + "::Golden::new"
UPD = G + "::is_update_golden"
READ = G + "::read_as_utf8"

R_WRITE = "E6.who-may-write"
R_ENV = "E5.update-switch"
R_NEW = "E5.missing-golden"
R_CMP = "E6.faithful-compare"
R_CRLF = "E7.crlf-normalised"

MUTATORS = (
    "std::fs::write", "std::fs::File::create", "std::fs::File::create_new", "std::fs::File::options",
    "std::fs::OpenOptions::new", "std::fs::OpenOptions::open", "std::fs::remove_file", "std::fs::remove_dir",
    "std::fs::remove_dir_all", "std::fs::rename", "std::fs::copy", "std::fs::create_dir", "std::fs::create_dir_all",
    "std::fs::hard_link", "std::fs::soft_link", "std::fs::set_permissions", "std::fs::File::set_len",
    "std::fs::File::set_permissions", "std::os::unix::fs::symlink", "std::process::Command::new",
    "std::fs::File::set_times", "std::fs::File::set_modified",
)
ENV_READS = ("std::env::var", "std::env::var_os", "std::env::vars", "std::env::vars_os")
ENV_WRITES = ("std::env::set_var", "std::env::remove_var")
EMPTY_TESTS = ("std::string::String::is_empty", "str::is_empty", "core::str::<impl str>::is_empty",
               "std::ffi::OsString::is_empty", "std::ffi::OsStr::is_empty")


def golden_bodies(P):
    return [b for b in P.bodies.values() if b.crate == "okane_golden" and q.not_test(b)]


def short(n):
    return (n or "?").rsplit("::", 1)[-1]


def is_update_true_edge(b, bb):
    """the block is reachable only through the `true` outcome of is_update_golden()"""
    for cn, lab, ct in q.guard_calls(b, bb):
        if cn == UPD and lab is True:
            return True
    return False


def is_update_false_edge(b, bb):
    for cn, lab, ct in q.guard_calls(b, bb):
        if cn == UPD and lab is False:
            return True
    return False


def who_may_write(P, chk):
    muts = set(norm(m) for m in MUTATORS)
    sites = []
    hk = helper_keys(P)
    bodies = [b for b in golden_bodies(P) if b.key not in hk and b.key.split("::{closure")[0] not in hk]
    bodies = [view(P, b.key) if b.key in (ASSERT, NEW) else b for b in bodies]
    for b in bodies:
        chk.analysed(b)
        for bb, t in b.calls():
            if callee_names(t) & muts:
                sites.append((b, bb, t))
    chk.add_sites(len(sites))
    chk.floor("file-mutating call sites in okane_golden (positive control)", len(sites), 1)
    a = view(P, ASSERT)
    for b, bb, t in sites:
        name = short(callee_def(t))
        key = "%s|%s" % (b.key, name)
        if b.key != ASSERT:
            chk.fail(R_WRITE, key, b.loc(bb), "a file is created / modified outside Golden::assert")
            continue
        guarded = is_update_true_edge(b, bb)
        if not chk.require(guarded, R_WRITE, key + "|behind is_update_golden()==true", b.loc(bb),
                           "the write is reachable without is_update_golden() having returned true",
                           "dominated by the true edge of is_update_golden()"):
            continue
        if callee_def(t) == "std::fs::write":
            okp = q.all_roots(b, t["args"][0], lambda r: q.is_param(r, "self", ("path",)))
            okc = q.all_roots(b, t["args"][1], lambda r: q.is_param(r, "got") and not r.fields) and \
                not any(r.via and set(r.via) - {"φ"} for r in prov(b, t["args"][1]))
            chk.require(okp and okc, R_WRITE, key + "|writes got to self.path", b.loc(bb),
                        "fs::write(%s, %s)" % (mir.prov_strs(b, t["args"][0]), mir.prov_strs(b, t["args"][1])),
                        "fs::write(&self.path, got)")
            # the io::Result is not dropped
            uses = [(ub, ut) for ub, ut in b.calls() if ut["args"] and
                    any(r.kind == "call" and r.site == bb for r in prov(b, ut["args"][0]))]
            good = [u for u in uses if short(callee_def(u[1])) in ("expect", "unwrap", "branch")]
            chk.require(bool(good), R_WRITE, key + "|write failure is not ignored", b.loc(bb),
                        "the result of fs::write is consumed by %s" % [short(callee_def(u[1])) for u in uses],
                        "expect / unwrap / ?")
        else:
            chk.fail(R_WRITE, key + "|unreviewed mutator", b.loc(bb),
                     "file mutation other than fs::write(&self.path, got) in Golden::assert")
    # on the update edge every normal return has passed the write
    ups = [(bb, t) for bb, t in a.calls() if UPD in callee_names(t)]
    if len(ups) != 1:
        chk.anchor_missing("Golden::assert: expected one call of is_update_golden, found %d" % len(ups))
        return
    ubb, ut = ups[0]
    ds = mir.describe_switch(a, ut["target"])
    ok = False
    if ds:
        for tb, labs in ds[2].items():
            if True in labs:
                wblocks = [bb for b, bb, t in sites if b.key == ASSERT and callee_def(t) == "std::fs::write"]
                reach = a.reach_from(tb, without_blocks=tuple(wblocks))
                ok = bool(wblocks) and not any(a.term(x)["k"] == "return" for x in reach)
    chk.require(ok, R_WRITE, "Golden::assert|update mode always writes before returning", a.loc(ubb),
                "in update mode assert can return without having written the file",
                "true edge -> fs::write on every path to return")
    # Golden::new and everything else: covered by the enumeration above (no mutator outside assert)
    chk.ok(R_WRITE, "Golden::new|reaches no file mutation", P.body(NEW).loc(),
           "%d bodies of okane_golden enumerated, mutators only in Golden::assert" % len(golden_bodies(P)))


def update_switch(P, chk):
    b = P.body(UPD)
    bodies = P.with_closures(UPD)
    for x in bodies:
        chk.analysed(x)
    reads = []
    for gb in golden_bodies(P):
        for bb, t in gb.calls():
            if callee_names(t) & set(ENV_READS):
                reads.append((gb, bb, t))
            if callee_names(t) & set(ENV_WRITES):
                chk.fail(R_ENV, "%s|%s" % (gb.key, short(callee_def(t))), gb.loc(bb),
                         "the helper modifies the process environment")
    chk.add_sites(len(reads))
    ok = len(reads) == 1 and reads[0][0].key == UPD
    chk.require(ok, R_ENV, "okane_golden|environment read only by is_update_golden", b.loc(),
                "environment is read at %s" % [(r[0].key, short(callee_def(r[2]))) for r in reads],
                "one env read, in is_update_golden")
    if not ok:
        return
    rb, rbb, rt = reads[0]
    name = rt["args"][0].get("repr") if rt["args"] else None
    chk.require(name in ('"UPDATE_GOLDEN"',), R_ENV, "is_update_golden|variable name", rb.loc(rbb),
                "reads environment variable %s" % name, "UPDATE_GOLDEN")
    # a non-emptiness test of the value decides the result
    ok, detail = nonempty_decides(P, b, rbb)
    chk.require(ok, R_ENV, "is_update_golden|true only for a non-empty value", b.loc(), detail, detail)
    # consistency: both users go through it (helpers judged inlined into their caller)
    users = set()
    for gb in [view(P, ASSERT), view(P, NEW)] + [x for x in golden_bodies(P) if x.is_closure]:
        for bb, t in gb.calls():
            if UPD in callee_names(t):
                users.add(gb.key.split("::{closure")[0])
    chk.require({ASSERT, NEW} <= users, R_ENV, "is_update_golden|used by Golden::new and Golden::assert", b.loc(),
                "used by %s" % sorted(users), "same switch for the missing-file rule and the write rule")


def _from_site(body, operand, site, depth=0):
    """every root of operand is (transitively through receiver arguments) the call at `site`"""
    return all(r.kind == "call" and r.site == site for cn, r in q.chains(body, operand, stop=lambda r: r.kind == "call" and r.site == site)) \
        and bool(q.chains(body, operand))


def nonempty_decides(P, b, var_site):
    """Idioms (enumerated): (1) `!var(..).<unwrap_or_default|unwrap_or(..)|...>.is_empty()`;
    (2) var(..).<map_or|is_ok_and|is_some_and|map+unwrap_or>(false, |v| !v.is_empty());
    (3) match/if-let on the Result with the true outcome only behind !is_empty()."""
    empt = set(norm(x) for x in EMPTY_TESTS)
    # form 1 / 3: an emptiness test on the value in the function itself
    tests = [(bb, t) for bb, t in b.calls() if (callee_names(t) & empt or short(callee_def(t)) == "is_empty")
             and _from_site(b, t["args"][0], var_site)]
    if tests:
        tbb, tt = tests[0]
        # receiver chain must not substitute a non-empty default
        for cn, r in q.chains(b, tt["args"][0], stop=lambda r: r.kind == "call" and r.site == var_site):
            for n in cn:
                if short(n) in ("unwrap_or", "unwrap_or_else", "map", "and_then", "or", "or_else"):
                    return False, "the value tested for emptiness went through %s (a default could count as set)" % short(n)
        # every root of the return value: Not(is_empty) directly, or constants selected by the test
        rs = prov(b, {"l": 0, "p": []})
        direct = rs and all(r.kind == "call" and r.site == tbb and "not" in r.via for r in rs)
        if direct:
            return True, "returns !is_empty() of the UPDATE_GOLDEN value (unset -> default empty -> false)"
        # path form: `true` may only be assigned behind is_empty()==false
        okp = True
        seen_true = False
        for bb2, v, rv in q.ok_err_assignments(b):
            if v == "other" and rv.get("k") == "use" and rv["op"].get("k") == "const":
                if rv["op"].get("int") == 1:
                    seen_true = True
                    g = [(cn, lab) for cn, lab, ct in q.guard_calls(b, bb2) if ct is tt or (callee_names(ct) & empt)]
                    if not any(lab is False for cn, lab in g):
                        okp = False
        if seen_true and okp:
            return True, "true only behind is_empty()==false"
        return False, "the result is not decided by the emptiness test: %s" % sorted(mir.show_root(r) for r in rs)
    # form 2: closure
    for c in P.closures_of(UPD):
        ct = [(bb, t) for bb, t in c.calls() if callee_names(t) & empt or short(callee_def(t)) == "is_empty"]
        if not ct:
            continue
        cbb, ctt = ct[0]
        arg_ok = all(r.kind == "param" for r in prov(c, ctt["args"][0]))
        rs = prov(c, {"l": 0, "p": []})
        neg = rs and all(r.kind == "call" and r.site == cbb and "not" in r.via for r in rs)
        if not (arg_ok and neg):
            continue
        # the combinator taking the closure: default must be false
        for bb, t in b.calls():
            nm = short(callee_def(t))
            if nm in ("map_or", "is_ok_and", "is_some_and") and _from_site(b, t["args"][0], var_site):
                if nm == "map_or" and t["args"][1].get("int") != 0:
                    return False, "map_or default is not false"
                rs0 = prov(b, {"l": 0, "p": []})
                if rs0 and all(r.kind == "call" and r.site == bb and "not" not in r.via for r in rs0):
                    return True, "%s(|v| !v.is_empty()) of the UPDATE_GOLDEN value" % nm
        return False, "closure tests emptiness but its combinator is not one of map_or(false,..)/is_ok_and/is_some_and"
    return False, "no emptiness test of the UPDATE_GOLDEN value: an empty value counts as set"


def missing_golden(P, chk):
    bodies = P.with_closures(NEW)
    for x in bodies:
        chk.analysed(x)
    nb = bodies[0]
    # every Golden aggregate: path from the parameter, content from read_as_utf8 / the fallback
    aggs = [a for a in q.aggregates_of(P, G + "::Golden") if q.not_test(a[0])]
    chk.require(len(aggs) == 1 and aggs[0][0].key == NEW, R_NEW, "Golden|constructed only in Golden::new", nb.loc(),
                "Golden values are built in %s" % sorted(a[0].key for a in aggs), "one constructor")
    if not aggs or aggs[0][0].key != NEW:
        return
    ab, abb, aj, rv = aggs[0]
    fields = {f["name"]: f["op"] for f in rv["fields"]}
    okp = q.all_roots(nb, fields["path"], lambda r: q.is_param(r, "path") and not r.fields)
    chk.require(okp, R_NEW, "Golden::new|path field is the path parameter", nb.loc(abb),
                "Golden.path = %s" % mir.prov_strs(nb, fields["path"]), "path")
    cont = q.chains(nb, fields["content"])
    okc = bool(cont) and any(any(n == READ for n in cn) or (r.kind == "call" and r.name == READ) for cn, r in cont) and \
        all(any(n == READ for n in cn) or (r.kind == "call" and r.name in (READ, "std::string::String::new")) for cn, r in cont)
    chk.require(okc, R_NEW, "Golden::new|content comes from read_as_utf8(path)", nb.loc(abb),
                "Golden.content = %s" % mir.prov_strs(nb, fields["content"]), "read_as_utf8(&path) .. ?")
    reads = [(bb, t) for bb, t in nb.calls() if READ in callee_names(t)]
    okr = len(reads) == 1 and q.all_roots(nb, reads[0][1]["args"][0], lambda r: q.is_param(r, "path") and not r.fields)
    chk.require(okr, R_NEW, "Golden::new|reads the path it was given", nb.loc(), "read_as_utf8 is not applied to the path parameter",
                "read_as_utf8(&path)")
    # fallback values: any Ok(..) not carrying the file's content must be behind NotFound && update
    n_fallback = 0
    for b in bodies:
        for bb, v, rv2 in q.ok_err_assignments(b):
            if v != "Ok":
                continue
            if b.key == NEW and bb == abb:
                continue
            payload = rv2["fields"][0]["op"]
            if any(r.kind == "call" and r.name == READ for cn, r in q.chains(b, payload)):
                continue
            n_fallback += 1
            upd = is_update_true_edge(b, bb)
            nf = False
            for cn, lab, ct in q.guard_calls(b, bb):
                if callee_def(ct) == "std::cmp::PartialEq::eq" and lab is True or callee_def(ct) == "std::cmp::PartialEq::ne" and lab is False:
                    sides = [ct["args"][0], ct["args"][1]]
                    kinds = [any(r.kind == "call" and r.name == "std::io::Error::kind" for r in prov(b, s)) for s in sides]
                    consts = [[p for r in prov(b, s) if r.kind == "const" for p in const_promoted(b, s)] for s in sides]
                    if any(kinds) and any("std::io::ErrorKind::NotFound" in c for c in consts):
                        nf = True
            for roots, labs in q.variant_guards(b, bb):
                if labs == ("NotFound",) and any(r.kind == "call" and r.name == "std::io::Error::kind" for r in roots):
                    nf = True
            key = "%s|fallback Ok only for NotFound in update mode" % b.key
            chk.require(upd and nf, R_NEW, key, b.loc(bb),
                        "a Golden without file content is produced with update-mode guard=%s, NotFound guard=%s" % (upd, nf),
                        "kind()==NotFound && is_update_golden()")
            emp = q.all_roots(b, payload, lambda r: r.kind == "call" and r.name in ("std::string::String::new", "std::default::Default::default"))
            chk.require(emp, R_NEW, "%s|fallback content is empty" % b.key, b.loc(bb),
                        "fallback content is %s" % mir.prov_strs(b, payload), "String::new()")
    for cn, r in cont:
        if r.kind == "call" and r.name == "std::string::String::new" and r.site is not None:
            n_fallback += 1
            bb = r.site
            upd = is_update_true_edge(nb, bb)
            nf = False
            for cn2, lab, ct in q.guard_calls(nb, bb):
                if callee_def(ct) == "std::cmp::PartialEq::eq" and lab is True or callee_def(ct) == "std::cmp::PartialEq::ne" and lab is False:
                    sides = [ct["args"][0], ct["args"][1]]
                    kinds = [any(x.kind == "call" and x.name == "std::io::Error::kind" for x in prov(nb, sd)) for sd in sides]
                    consts = [const_promoted(nb, sd) for sd in sides]
                    if any(kinds) and any("std::io::ErrorKind::NotFound" in c for c in consts):
                        nf = True
            for roots, labs in q.variant_guards(nb, bb):
                if labs == ("NotFound",) and any(x.kind == "call" and x.name == "std::io::Error::kind" for x in roots):
                    nf = True
            chk.require(upd and nf, R_NEW, "%s|fallback content only for NotFound in update mode" % nb.key, nb.loc(bb),
                        "an empty Golden is produced with update-mode guard=%s, NotFound guard=%s" % (upd, nf), "kind()==NotFound && is_update_golden()")
    chk.require(n_fallback <= 1, R_NEW, "Golden::new|at most one fallback", nb.loc(), "%d fallback values" % n_fallback, "%d" % n_fallback)
    # every Err built in the closure on the non-update edge or passing the original error: nothing swallows errors
    swallow = []
    for b in bodies:
        for bb, t in b.calls():
            if short(callee_def(t)) in ("unwrap_or_default", "unwrap_or", "unwrap_or_else", "ok") and \
                    any(r.kind == "call" and r.name == READ for cn, r in q.chains(b, t["args"][0])):
                swallow.append((b, bb, short(callee_def(t))))
    chk.require(not swallow, R_NEW, "Golden::new|read errors are not defaulted away", nb.loc(),
                "read_as_utf8's error is discarded by %s" % [s[2] for s in swallow], "or_else(..)? only")


def const_promoted(b, operand):
    """promoted-constant descriptions reachable from operand (through refs)"""
    out = []
    seen = set()

    def walk(o, d=0):
        if d > 6:
            return
        if o.get("k") == "const":
            out.extend(o.get("promoted") or [])
            return
        if o.get("k") in ("copy", "move"):
            l = o["place"]["l"]
            if l in seen:
                return
            seen.add(l)
            for dk, dbb, di, dpl, payload in b.defs().get(l, []):
                if dk == "assign":
                    rv = payload
                    if rv["k"] in ("use", "cast"):
                        walk(rv["op"], d + 1)
                    elif rv["k"] in ("ref", "copyforderef"):
                        walk({"k": "copy", "place": rv["place"]}, d + 1)
    walk(operand)
    return out


def faithful_compare(P, chk):
    a = view(P, ASSERT)
    chk.analysed(a)
    rets = a.return_blocks()
    eqs = [(bb, t) for bb, t in a.calls() if callee_def(t) in ("std::cmp::PartialEq::eq", "std::cmp::PartialEq::ne")]
    chk.add_sites(len(eqs))
    good = []
    for bb, t in eqs:
        sides = [prov(a, t["args"][0]), prov(a, t["args"][1])]

        def is_got(rs):
            return bool(rs) and all(q.is_param(r, "got") and not r.fields and not (set(r.via) - {"φ"}) for r in rs)

        def is_want(rs):
            # want = got on the update edge, self.content (deref only) otherwise
            if not rs:
                return False
            for r in rs:
                via = set(r.via) - {"φ", "deref"}
                if via:
                    return False
                if not (q.is_param(r, "got") and not r.fields or q.is_param(r, "self", ("content",))):
                    return False
            return any(q.is_param(r, "self", ("content",)) for r in rs)
        if (is_got(sides[0]) and is_want(sides[1])) or (is_got(sides[1]) and is_want(sides[0])):
            good.append((bb, t))
    ok = len(good) >= 1
    chk.require(ok, R_CMP, "Golden::assert|compares got itself with the golden content", a.loc(),
                "no == between the unmodified `got` and self.content; comparisons: %s"
                % [[mir.prov_strs(a, t["args"][0]), mir.prov_strs(a, t["args"][1])] for bb, t in eqs],
                "want == got on the parameter itself (no trim / normalisation / prefix)")
    if not ok:
        return
    cbb, ct = good[0]
    is_eq = callee_def(ct) == "std::cmp::PartialEq::eq"
    ds = mir.describe_switch(a, ct["target"])
    okr = bool(ds)
    pan = False
    if ds:
        for tb, labs in ds[2].items():
            equal_edge = (True in labs) if is_eq else (False in labs)
            if not equal_edge:
                reach = a.reach_from(tb)
                if any(a.term(x)["k"] == "return" for x in reach):
                    okr = False
                pan = any(a.term(x)["k"] == "call" and (callee_def(a.term(x)) or "").startswith(("core::panicking", "std::rt::begin_panic", "std::rt::panic")) for x in reach)
        for rb in rets:
            if not a.must_pass_block(rb, cbb):
                okr = False
    chk.require(okr and pan, R_CMP, "Golden::assert|returns only after the comparison said equal; unequal panics", a.loc(cbb),
                "a normal return is possible without / despite the comparison (equal-edge-only=%s, unequal-panics=%s)" % (okr, pan),
                "eq true -> return; eq false -> panic")
    # want on the read edge is self.content, on the update edge got: per-edge definitions of the compared value
    sides = [ct["args"][0], ct["args"][1]]
    want_side = None
    for sd in sides:
        rs = prov(a, sd)
        if any(q.is_param(r, "self", ("content",)) for r in rs):
            want_side = sd
    okw = want_side is not None
    detail = []
    if okw:
        for dbb, src in q.phi_defs(a, want_side):
            if src is None or dbb is None:
                # single definition: must be self.content itself, chosen in read mode - then no update-mode value exists
                rs = prov(a, want_side)
                if not all(q.is_param(r, "self", ("content",)) or q.is_param(r, "got") for r in rs):
                    okw = False
                    detail.append("want = %s" % sorted(mir.show_root(r) for r in rs))
                continue
            srs = prov(a, src)
            if srs and all(q.is_param(r, "self", ("content",)) for r in srs):
                if not is_update_false_edge(a, dbb):
                    okw = False
                    detail.append("self.content chosen without is_update_golden()==false")
            elif srs and all(q.is_param(r, "got") for r in srs):
                if not is_update_true_edge(a, dbb):
                    okw = False
                    detail.append("want = got outside update mode (comparison would be vacuous)")
            else:
                okw = False
                detail.append("want = %s" % sorted(mir.show_root(r) for r in srs))
    chk.require(okw, R_CMP, "Golden::assert|want is the golden content unless updating", a.loc(),
                "; ".join(detail) or "the compared value never is self.content", "read mode: self.content; update mode: got")
    # nobody rewrites Golden.content after construction
    writers = []
    for b in golden_bodies(P):
        for i, blk in enumerate(b.blocks):
            for st in blk["stmts"]:
                if st["k"] == "assign" and any(e["k"] == "field" and e["name"] == "content" and norm(e.get("adt") or "") == G + "::Golden" for e in st["place"]["p"]):
                    writers.append(b.key)
        for bb, t in b.calls():
            for arg in t["args"]:
                if arg.get("k") in ("copy", "move"):
                    for dk, dbb, di, dpl, payload in b.defs().get(arg["place"]["l"], []):
                        if dk == "assign" and payload["k"] == "ref" and payload.get("mut") and \
                                any(e["k"] == "field" and e["name"] == "content" for e in payload["place"]["p"]):
                            writers.append(b.key)
    chk.require(not writers, R_CMP, "Golden.content|never modified after construction", a.loc(),
                "content is written / mutably borrowed in %s" % sorted(set(writers)), "immutable")


def crlf(P, chk):
    b = P.body(READ)
    # read_as_utf8, its closures and every local helper they reach (a refactoring may move the replace)
    keys = [k for k in P.reachable([READ]) if k in P.bodies and P.bodies[k].crate == "okane_golden"]
    bodies = [P.bodies[k] for k in sorted(keys)]
    for x in bodies:
        chk.analysed(x)
    reps = []
    for x in bodies:
        for bb, t in x.calls():
            if short(callee_def(t)) in ("replace", "replacen", "replace_range") and ("str" in (callee_def(t) or "") or "String" in (callee_def(t) or "")):
                reps.append((x, bb, t))
    ok = len(reps) == 1
    detail = "expected exactly one str::replace on the way from the file to Golden.content, found %d" % len(reps)
    if ok:
        x, bb, t = reps[0]
        frm = t["args"][1].get("repr")
        if frm is None:
            for r in prov(x, t["args"][1]):
                if r.kind == "const":
                    frm = r.name
        to = None
        for r in prov(x, t["args"][2]):
            if r.kind == "const":
                to = r.name
        ok = frm == '"\\r\\n"' and to == '"\\n"' and short(callee_def(t)) == "replace"
        detail = "replace(%s, %s)" % (frm, to)
        # applied to (a view of) the text handed in / just read
        ok = ok and all(r.kind in ("param", "capture") or (r.kind == "call" and r.name == "std::fs::read_to_string") for r in prov(x, t["args"][0]))
    chk.require(ok, R_CRLF, "read_as_utf8|CRLF -> LF, nothing else", b.loc(), detail, "s.replace(\"\\r\\n\", \"\\n\")")
    # result = map(read_to_string(filename), closure)
    rts = [(bb, t) for bb, t in b.calls() if callee_def(t) == "std::fs::read_to_string"]
    okf = len(rts) == 1 and q.all_roots(b, rts[0][1]["args"][0], lambda r: q.is_param(r, "filename"))
    rs = prov(b, {"l": 0, "p": []})
    okm = bool(rs) and bool(rts) and all(r.kind == "call" and r.name in ("std::result::Result::map", "std::result::Result::and_then") for r in rs)
    for r in rs:
        if okm and r.site is not None:
            okm = _from_site(b, b.term(r.site)["args"][0], rts[0][0])
    if not okm and rts and reps and reps[0][0].key == b.key:
        # `?` form: every Ok(..) carries the replaced text of what read_to_string returned; errors go through `?`
        oks = [(bb, rv) for bb, v, rv in q.ok_err_assignments(b) if v == "Ok"]
        rep_bb = reps[0][1]
        okm = bool(oks) and all(q.all_roots(b, rv["fields"][0]["op"], lambda r: r.kind == "call" and r.site == rep_bb) for bb, rv in oks) and \
            all(r.kind == "call" and r.site == rts[0][0] for r in prov(b, reps[0][2]["args"][0]))
    other = [short(callee_def(t)) for x in bodies for bb, t in x.calls()
             if short(callee_def(t)) in ("trim", "trim_end", "trim_start", "to_lowercase", "to_uppercase", "trim_matches",
                                         "trim_end_matches", "trim_start_matches", "strip_suffix", "strip_prefix", "lines",
                                         "truncate", "pop", "retain", "remove", "split_off", "drain", "to_ascii_lowercase",
                                         "to_ascii_uppercase", "from_utf8_lossy")]
    chk.require(okf and okm and not other, R_CRLF, "read_as_utf8|whole file, mapped once", b.loc(),
                "read_to_string(filename)=%s, mapped result=%s, other edits=%s" % (okf, okm, other),
                "read_to_string(filename).map(crlf->lf)")


def run(P, chk, tier):
    chk.rule(R_WRITE, "files are created / modified only in Golden::assert behind is_update_golden()==true, writing got to self.path")
    chk.rule(R_ENV, "is_update_golden is true only for a non-empty UPDATE_GOLDEN; nothing else reads the environment")
    chk.rule(R_NEW, "a missing golden file is an error unless updating; other read errors always propagate")
    chk.rule(R_CMP, "assert returns normally only behind want == got on the unmodified got; want is the file content unless updating")
    chk.rule(R_CRLF, "golden content is the file text with exactly CRLF -> LF applied")
    n = len(golden_bodies(P))
    chk.floor("non-test bodies in okane_golden", n, 5)
    who_may_write(P, chk)
    update_switch(P, chk)
    missing_golden(P, chk)
    faithful_compare(P, chk)
    crlf(P, chk)
