"""C01 — accepted transactions balance; unbalanced ones are rejected, not crashed on."""
from analysis import mir, q, panics
from analysis.mir import norm, callee, callee_def, callee_names, prov
from . import common, shared, surface

EXPLANATION = (
    "Static path rules over the MIR of the book-keeping balance check.  (1) Every assignment of "
    "Ok to check_balance's return place is reachable only under `is_zero()` of the *rounded* "
    "residual, or under maybe_pair()==Some together with both pair members tested non-zero and "
    "their signs tested different; every other return is Err(UnbalancedPostings).  (2) maybe_pair "
    "returns Some only under len()==2.  (3) On the branch where exactly one posting has no amount "
    "neither check_balance nor any Err construction is reachable.  (4) Every Result of a tracked "
    "error type produced in book_keeping is propagated (E9) up to main's exit(1).  (5) No unguarded "
    "panic source exists in the book-keeping / evaluation / price-insertion modules (E3), including "
    "the obligation that Exchange::try_from_syntax rejects zero rates, zero amounts and same-commodity "
    "rates (which makes posting_price_event's unreachable! unreachable).  The arithmetic of valuation "
    "and rounding is not decided."
)

BK = "okane_core::report::book_keeping"
AMT = "okane_core::report::eval::amount::Amount"

R_ACC = "C01.accept-path"
R_REJ = "C01.reject-path"
R_PAIR = "C01.maybe-pair"
R_ONE = "C01.one-omitted-accepted"
R_E9 = "E9.error-chain"
R_MAIN = "E9.main-exit"

SIGN_PREDS = {"rust_decimal::Decimal::is_sign_positive", "rust_decimal::Decimal::is_sign_negative"}


def member_roots(body, o):
    """which pair member (0/1) of maybe_pair()'s Some payload does operand o (a .value) denote"""
    out = set()
    for r in prov(body, o):
        if r.kind == "call" and r.name == AMT + "::maybe_pair" and len(r.fields) >= 4 and \
                r.fields[0] == "#Some" and r.fields[1] == "0" and r.fields[3] == "value":
            out.add(r.fields[2])
        else:
            out.add("?")
    return out


def _rounded(b, operand, site):
    """the operand is the residual after rounding: the result of Amount::round(balance), or the `balance` parameter
    itself once Amount::round_mut(&mut balance, ..) has run on every path to the site"""
    if q.all_roots(b, operand, lambda r: r.kind == "call" and r.name == AMT + "::round"):
        return True
    if q.all_roots(b, operand, lambda r: q.is_param(r, "balance") and not r.fields):
        for bb, t in mir.call_sites(b, [AMT + "::round_mut"]):
            if q.all_roots(b, t["args"][0], lambda r: q.is_param(r, "balance") and not r.fields) and b.must_pass_block(site, bb):
                return True
    return False


def check_accept_paths(P, chk):
    b = P.body(BK + "::check_balance")
    chk.analysed(b)
    rets = q.ok_err_assignments(b)
    n_ok = 0
    n_err = 0
    for bb, v, rv in rets:
        where = b.loc(bb)
        if v == "Ok":
            n_ok += 1
            atoms = mir.guards_at(b, bb)
            # form 1: rounded residual is zero
            form1 = False
            for cn, lab, ct in q.guard_calls(b, bb):
                if cn == AMT + "::is_zero" and lab is True:
                    if _rounded(b, ct["args"][0], bb):
                        form1 = True
            # form 2: implied exchange
            pair = any(a.kind == "variant" and a.label == ("Some",) and
                       any(r.kind == "call" and r.name == AMT + "::maybe_pair" for r in a.subject)
                       for a in atoms)
            nz = set()
            for cn, lab, ct in q.guard_calls(b, bb):
                if cn == "rust_decimal::Decimal::is_zero" and lab is False:
                    nz |= member_roots(b, ct["args"][0])
            sign = False
            for a in atoms:
                if a.kind != "cmp" or len(a.label) != 1:
                    continue
                op, lr, rr, (lo, ro) = a.subject
                differs = (op == "Ne" and a.label[0] is True) or (op == "Eq" and a.label[0] is False)
                if not differs:
                    continue
                sides = []
                for side in (lr, rr):
                    ms = set()
                    okside = bool(side)
                    for r in side:
                        if not (r.kind == "call" and r.name in SIGN_PREDS and r.site is not None):
                            okside = False
                            break
                        ms |= member_roots(b, b.term(r.site)["args"][0])
                        ms.add(r.name)
                    sides.append(ms if okside else None)
                if sides[0] and sides[1]:
                    preds = (sides[0] | sides[1]) & SIGN_PREDS
                    mem = ((sides[0] | sides[1]) - SIGN_PREDS)
                    if len(preds) == 1 and sides[0] - SIGN_PREDS == {"0"} and sides[1] - SIGN_PREDS == {"1"} or \
                            len(preds) == 1 and sides[0] - SIGN_PREDS == {"1"} and sides[1] - SIGN_PREDS == {"0"}:
                        sign = True
            form2 = pair and {"0", "1"} <= nz and sign
            key = "check_balance|Ok#%d" % n_ok
            if form1:
                chk.ok(R_ACC, key, where, "Ok under is_zero() of the rounded residual")
            elif form2:
                chk.ok(R_ACC, key, where, "Ok under maybe_pair()==Some, both members non-zero, signs differ")
            else:
                miss = []
                if pair:
                    if not {"0", "1"} <= nz:
                        miss.append("both pair members tested non-zero")
                    if not sign:
                        miss.append("opposite-sign test")
                chk.fail(R_ACC, key, where,
                         "an Ok return of check_balance is guarded neither by is_zero() of the rounded residual "
                         "nor by a complete implied-exchange test" + (" (missing: %s)" % ", ".join(miss) if miss else ""))
        elif v == "Err":
            ok = False
            for f in rv["fields"]:
                s = mir.operand_shape(b, f["op"])
                if "UnbalancedPostings" in s:
                    ok = True
            n_err += 1
            chk.require(ok, R_REJ, "check_balance|Err#%d is UnbalancedPostings" % n_err, where,
                        "check_balance returns an error other than UnbalancedPostings",
                        "Err(UnbalancedPostings(..))")
        else:
            chk.fail(R_REJ, "check_balance|return:%s" % v, where,
                     "check_balance's return value is written by something else than Ok(())/Err(..)")
    chk.floor("Ok returns of check_balance", n_ok, 2)
    # the rounded residual is what is tested and paired
    for bb, t in mir.call_sites(b, [AMT + "::maybe_pair"]):
        chk.require(_rounded(b, t["args"][0], bb),
                    R_ACC, "check_balance|maybe_pair-on-rounded", b.loc(bb),
                    "maybe_pair is not taken from the rounded residual", "maybe_pair(rounded residual)")
    for bb, t in mir.call_sites(b, [AMT + "::round"]):
        chk.require(q.all_roots(b, t["args"][0], lambda r: q.is_param(r, "balance")),
                    R_ACC, "check_balance|round-of-residual", b.loc(bb),
                    "round() is not applied to the residual parameter", "round(balance parameter)")


def check_maybe_pair(P, chk):
    b = P.body(AMT + "::maybe_pair")
    chk.analysed(b)
    n = 0
    for bb, v, rv in q.ok_err_assignments(b):
        if v != "Some":
            continue
        n += 1
        ok = False
        for rel, lo, ro in q.rel_in_force(b, bb):
            if rel == "Eq" and ro.get("int") == 2 and \
                    q.all_roots(b, lo, lambda r: r.kind == "call" and r.name == "std::collections::HashMap::len"):
                ok = True
        if not ok:
            # `match (it.next(), it.next(), it.next()) { (Some(a), Some(b), None) => Some(..) }`: exactly two elements
            nexts = [nb for nb, t in b.calls() if (callee_def(t) or "") == "std::iter::Iterator::next" and t["args"] and
                     q.chains(b, t["args"][0]) and all(q.is_param(r, "self") and tuple(r.fields) in ((), ("values",)) and
                                                       all(n.rsplit("::", 1)[-1] in ("iter", "into_iter", "values", "iter_mut") for n in cn)
                                                       for cn, r in q.chains(b, t["args"][0]))]
            order = sorted(nexts, key=lambda n: sum(1 for m in nexts if m != n and b.must_pass_block(n, m)))
            if len(order) == 3 and not any(n in blks for blks in b.loops().values() for n in nexts) and \
                    all(b.must_pass_block(order[i + 1], order[i]) for i in range(2)):
                g = {}
                for roots, labs in q.variant_guards(b, bb):
                    for r in roots:
                        if r.kind == "call" and r.site in order and len(labs) == 1:
                            g[r.site] = labs[0]
                ok = g.get(order[0]) == "Some" and g.get(order[1]) == "Some" and g.get(order[2]) == "None"
        chk.require(ok, R_PAIR, "maybe_pair|Some-only-when-len==2", b.loc(bb),
                    "maybe_pair can return Some without values.len() == 2 being established",
                    "Some only under len() == 2")
    chk.floor("Some returns of maybe_pair", n, 1)


def check_one_omitted(P, chk):
    b = P.body(BK + "::add_transaction")
    chk.analysed(b)
    cb = mir.call_sites(b, [BK + "::check_balance"])
    if len(cb) != 1:
        chk.anchor_missing("add_transaction: expected one call of check_balance, found %d" % len(cb))
        return
    cbb, ct = cb[0]
    # check_balance runs only when no posting was unfilled
    ok = False
    for roots, labs in q.variant_guards(b, cbb):
        if labs == ("None",) and any(r.kind == "agg" or (r.kind == "call" and r.name.endswith("Option::replace")) for r in roots):
            ok = True
        # `match unfilled.as_ref().map(|t| *t.as_undecorated()) { None => check_balance(..), Some(i) => .. }`
        if labs == ("None",) and any(r.kind == "call" and str(r.name).endswith("Option::map") and r.site is not None and
                                     any(x.kind == "agg" and "Option::" in str(x.name) for x in prov(b, b.term(r.site)["args"][0]))
                                     for r in roots):
            ok = True
    chk.require(ok, R_ONE, "add_transaction|check_balance-only-without-unfilled", b.loc(cbb),
                "check_balance is not confined to the branch where no posting was left unfilled",
                "check_balance under unfilled == None")
    # on the unfilled branch (after the loop) nothing can fail
    idx = mir.call_sites(b, ["std::ops::IndexMut::index_mut"])
    if not idx:
        chk.anchor_missing("add_transaction: postings[u] assignment not found")
        return
    ibb = idx[0][0]
    reach = b.reach_from(ibb)
    errs = [bb for bb, v, rv in q.ok_err_assignments(b) if v == "Err" or v.startswith("call:<std::result::Result")]
    bad = [bb for bb in errs if bb in reach]
    chk.require(not bad and cbb not in reach, R_ONE, "add_transaction|unfilled-branch-cannot-fail", b.loc(ibb),
                "an Err return or check_balance is reachable after the omitted amount was deduced",
                "no Err / check_balance reachable on the deduced-amount branch")


def bk_cone(P):
    out = []
    for b in P.bodies.values():
        m = mir.body_module(b)
        if m in (BK, "okane_core::report::balance", "okane_core::report::commodity",
                 "okane_core::report::price_db", "okane_core::report::transaction") or \
                m.startswith("okane_core::report::eval"):
            if q.not_test(b):
                out.append(b)
    return sorted(out, key=lambda b: b.key)


def valuation_precedence(P, chk):
    """a posting's balancing value is its lot price, else its cost, else its own amount - decided by Option-ness only"""
    b = P.body(BK + "::ComputedPosting::calculate_balance_amount")
    chk.analysed(b)
    exs = [(bb, t) for bb, t in b.calls() if (callee_def(t) or "").endswith("Exchange::exchange")]
    ok = len(exs) == 1
    detail = "expected exactly one Exchange::exchange call, found %d" % len(exs)
    if ok:
        bb, t = exs[0]
        recv = prov(b, t["args"][0])
        ok = len(recv) == 1
        detail = "the exchange applied can be any of %s (not simply lot-else-cost)" % sorted(mir.show_root(x) for x in recv)
        if ok:
            r = next(iter(recv))
            ok = r.kind == "call" and r.name == "std::option::Option::or" and r.site is not None and r.fields[:2] == ("#Some", "0")
            detail = "the exchange applied is %s" % sorted(mir.show_root(x) for x in recv)
            if ok:
                ot = b.term(r.site)
                a0 = prov(b, ot["args"][0])
                a1 = prov(b, ot["args"][1])
                ok = bool(a0) and all(q.is_param(x, "self", ("lot",)) for x in a0) and bool(a1) and all(q.is_param(x, "self", ("cost",)) for x in a1)
                detail = "Option::or(%s, %s)" % (sorted(mir.show_root(x) for x in a0), sorted(mir.show_root(x) for x in a1))
                # no other decision than Some/None of that value (and the `?` of the amount conversion) selects the result
                extra = []
                for s_ in sorted(b.live_blocks()):
                    ds = mir.describe_switch(b, s_)
                    if not ds or tables_is_flag(ds):
                        continue
                    kind, subject, labels = ds
                    if kind == "variant" and all(x.kind == "call" and x.site == r.site for x in subject):
                        continue
                    if kind == "variant" and set(sum((list(v) for v in labels.values()), [])) <= {"Continue", "Break"}:
                        continue
                    extra.append("%s at %s" % (kind, b.loc(s_)))
                if extra:
                    ok = False
                    detail = "the choice between lot price, cost and own amount also depends on %s" % extra
                amt = q.chains(b, t["args"][1])
                ok = ok and bool(amt) and all(q.is_param(x, "self", ("amount",)) and set(n.rsplit("::", 1)[-1] for n in cn) <= {"try_into", "into", "try_from"}
                                              for cn, x in amt)
        # the None arm returns the own amount
        none_ok = False
        for bb2, v, rv in q.ok_err_assignments(b):
            if v == "Ok":
                rs = prov(b, rv["fields"][0]["op"])
                if rs and all(q.is_param(x, "self", ("amount",)) and not x.via for x in rs):
                    g = [labs for roots, labs in q.variant_guards(b, bb2)]
                    none_ok = ("None",) in g
        ok = ok and none_ok
    chk.require(ok, R_ACC, "calculate_balance_amount|lot price, else cost, else own amount", b.loc(), detail,
                "self.lot.as_ref().or(self.cost.as_ref()) -> Some(x) => x.exchange(amount), None => amount")


def tables_is_flag(ds):
    kind, subject, labels = ds
    if kind == "const":
        return True
    if kind in ("bool", "int"):
        return bool(subject) and all(r.kind == "const" for r in subject)
    return False


def rounding_precision(P, chk):
    """Amount::round rounds each commodity's value to the precision stored for that same commodity"""
    cands = [b for k, b in P.bodies.items() if k.endswith("eval::amount::Amount::round_mut") or k.endswith("eval::amount::Amount::round")]
    rm = [b for b in cands if b.key.endswith("round_mut")]
    b = rm[0] if rm else (cands[0] if cands else None)
    if b is None:
        chk.anchor_missing("Amount::round_mut not found")
        return
    bodies = P.with_closures(b.key)
    gets = []
    for x in bodies:
        chk.analysed(x)
        for bb, t in x.calls():
            if (callee_def(t) or "").endswith("get_decimal_point") or (callee_def(t) or "").endswith("CommodityStore::get_decimal_point"):
                gets.append((x, bb, t))
    ok = len(gets) == 1
    detail = "expected one precision lookup in Amount::round_mut, found %d" % len(gets)
    if ok:
        x, bb, t = gets[0]
        key_roots = prov(x, t["args"][1])
        # the looked-up commodity is the key of the entry being rounded (loop element .0), the rounded value its .1
        rd = [(b2, t2) for b2, t2 in x.calls() if (callee_def(t2) or "").rsplit("::", 1)[-1] in ("round_dp_with_strategy", "round_dp", "rescale")]
        ok = bool(rd) and bool(key_roots)
        if ok:
            kr = next(iter(key_roots))
            ok = all(r.fields[-1:] == ("0",) for r in key_roots)
            for b2, t2 in rd:
                vr = prov(x, t2["args"][0])
                ok = ok and bool(vr) and all(r.fields[-1:] == ("1",) and (r.kind, r.name, r.site) == (kr.kind, kr.name, kr.site) for r in vr)
                pr = prov(x, t2["args"][1])
                ok = ok and bool(pr) and all(r.kind == "call" and r.site == bb and not (set(r.via) - {"φ"}) for r in pr)
        detail = "precision looked up for %s, applied to %s" % (sorted(mir.show_root(r) for r in key_roots),
                                                                [mir.prov_strs(x, t2["args"][0]) for b2, t2 in rd] if ok or rd else "?")
    chk.require(ok, R_ACC, "Amount::round_mut|each commodity rounded with its own declared precision", b.loc(), detail,
                "for (c, v) in values { v = v.round_dp(get_decimal_point(c)) }")


def run(P, chk, tier):
    chk.rule(R_ACC, "every Ok of check_balance is under is_zero(rounded residual) or a complete implied-exchange test (Some pair, both non-zero, signs differ)")
    chk.rule(R_REJ, "every other return of check_balance is Err(UnbalancedPostings)")
    chk.rule(R_PAIR, "maybe_pair returns Some only when exactly two commodities remain")
    chk.rule(R_ONE, "a transaction with exactly one omitted amount skips check_balance and cannot fail after deduction")
    chk.rule(R_E9, "every Result of a tracked error type produced in book_keeping is propagated (?, returned, Err arm returns Err) or tabled")
    chk.rule(R_MAIN, "main: Err of cli.run reaches process::exit(non-zero) after writing to stderr")
    check_accept_paths(P, chk)
    check_maybe_pair(P, chk)
    check_one_omitted(P, chk)
    # "rounded totals": the precision the residual is rounded to is the one declared for that commodity
    from . import C12
    chk.rule(C12.R_DECL, "a commodity's `format` (its rounding precision) is stored for the commodity being declared (shared with C12)")
    C12.format_target(P, chk)
    rounding_precision(P, chk)
    valuation_precedence(P, chk)
    table = common.load_table("err_chain.toml")
    entries = {e["key"]: e for e in table.get("site", [])}
    used = set()
    cone = bk_cone(P)
    chk.analysed(*cone)
    chk.floor("bodies in the book-keeping cone", len(cone), 150)
    bk_bodies = [b for b in cone if mir.body_module(b) == BK]
    n = shared.error_chain(P, chk, bk_bodies, R_E9, entries, used)
    chk.floor("Result-producing calls in book_keeping", n, 30)
    shared.main_exit(P, chk, R_MAIN)
    S = surface.Surface(P, chk)
    src = S.sources(cone)
    chk.floor("panic sources in the book-keeping cone", len(src), 8)
    S.finish(report_stale=False)
