"""Rules about the statement readers shared by C15 (one transaction per record) and C16 / C18."""
from analysis import mir, q
from analysis.mir import norm, callee, callee_def, callee_names, prov

R_ROWS = "E6.one-transaction-per-record"

CSV_IMPORT = "okane::import::csv::import"
# csv::ReaderBuilder methods the importer may use, and why they cannot lose or merge records
READER_CONFIG = {
    "new": "default reader: every line is a record, quoting per RFC 4180",
    "flexible": "records of different lengths are all delivered (a short one is reported by the importer itself)",
    "delimiter": "field separator taken from the configuration",
    "from_reader": "wraps the (head-skipped) input stream",
}


def short(n):
    return (n or "?").rsplit("::", 1)[-1]


def csv_reader(P, chk):
    b = P.body(CSV_IMPORT)
    chk.analysed(b)
    n = 0
    for x in P.with_closures(CSV_IMPORT):
        for bb, t in x.calls():
            cd = callee_def(t) or ""
            if cd.startswith("csv::Reader::") and short(cd) in ("read_record", "read_byte_record", "seek", "set_headers", "set_byte_headers", "into_inner"):
                chk.fail(R_ROWS, "csv::import|records consumed outside the record loop (%s)" % short(cd), x.loc(bb),
                         "csv::Reader::%s is used directly: records read or replaced here never reach the per-record loop "
                         "(and the csv crate skips empty lines, so counting `lines` this way is off)" % short(cd))
            if cd.startswith("csv::ReaderBuilder::"):
                n += 1
                m = short(cd)
                if m in READER_CONFIG:
                    chk.ok(R_ROWS, "csv::import|reader option %s" % m, x.loc(bb), "table: " + READER_CONFIG[m])
                else:
                    chk.fail(R_ROWS, "csv::import|reader option %s" % m, x.loc(bb),
                             "csv::ReaderBuilder::%s is not a reviewed reader option: options such as comment / trim / quoting / "
                             "escape / terminator make the reader drop, merge or rewrite statement records before the importer sees them" % m)
    chk.floor("csv reader configuration calls", n, 3)


def _loop_source(b, blks, pbb):
    """field names / callee names on the iterator chain of the loop's own next() call"""
    out = []
    for x in blks:
        t = b.term(x)
        if t["k"] == "call" and callee_def(t) == "std::iter::Iterator::next" and t["target"] is not None and b.must_pass_block(pbb, x):
            for cn, r in q.chains(b, t["args"][0]):
                out += [short(n) for n in cn] + list(r.fields)
            for r in prov(b, t["args"][0]):
                out += list(r.fields)
    return out


def record_loop(P, chk, key, label, skip_guards=(), only_if=(), not_record_loops=()):
    """in importer `key`: every loop iteration over records pushes exactly one transaction, except on paths that
    leave through `?` / return or pass a tabled skip guard.
    only_if: guards (callee short name, label) under which a push is *expected* - the walk then starts at that
    edge instead of the loop entry (an entry is booked itself only when it has no details);
    not_record_loops: field names identifying loops that do not iterate records (statements)."""
    b = P.body(key)
    chk.analysed(b)
    loops = b.loops()
    pushes = [(bb, t) for bb, t in b.calls() if callee_def(t) == "std::vec::Vec::push" and "Txn" in b.local_ty(t["args"][0]["place"]["l"])]
    if not pushes:
        chk.anchor_missing("%s: no Vec<Txn>::push found" % key)
        return
    imp = short(key.rsplit("::", 1)[0]) + "::import"
    n = 0
    for pbb, pt in pushes:
        inl = [h for h, blks in loops.items() if pbb in blks]
        if not inl:
            continue
        h = min(inl, key=lambda x: len(loops[x]))
        blks = loops[h]
        src = _loop_source(b, blks, pbb)
        if any(f in src for f in not_record_loops):
            continue
        n += 1
        skip_edges = []
        starts = [x for x in b.succs(h) if x in blks]
        started_at = "loop entry"
        for s_ in blks:
            ds = mir.describe_switch(b, s_)
            if not ds or ds[0] != "call":
                continue
            cn = short(ds[1][0])
            for tb, labs in ds[2].items():
                for gname, glab in skip_guards:
                    if cn == gname and glab in labs:
                        skip_edges.append((s_, tb))
                for gname, glab in only_if:
                    if cn == gname and glab in labs and b.must_pass_edge(pbb, s_, tb):
                        starts = [tb]
                        started_at = "%s()==%s" % (gname, glab)
        others = [o for o, ot in pushes if o != pbb and o in blks]
        bad = False
        detail = ""
        seen = set()
        stack = list(starts)
        while stack:
            x = stack.pop()
            if x in seen or x == pbb or x in others or x not in blks:
                continue
            seen.add(x)
            for y in b.succs(x):
                if (x, y) in skip_edges:
                    continue
                if y == h:
                    bad = True
                    detail = "an iteration can end at %s without pushing a transaction" % b.loc(x)
                stack.append(y)
        chk.require(not bad, R_ROWS, "%s|every %s becomes a transaction (push #%d)" % (imp, label, n), b.loc(pbb),
                    detail + " (silently skipped record)", "push on every path from %s that does not return an error%s"
                    % (started_at, "; tabled skip: " + ", ".join("%s()==%s" % g for g in skip_guards) if skip_guards else ""))
        nexts = [(x, b.term(x)) for x in blks if b.term(x)["k"] == "call" and callee_def(b.term(x)) == "std::iter::Iterator::next" and b.term(x)["target"] is not None]
        for nb, nt in nexts:
            if not b.must_pass_block(pbb, nb):
                continue
            names = [short(n2) for cn2, r in q.chains(b, nt["args"][0]) for n2 in cn2]
            badn = set(names) & {"filter", "skip", "take", "step_by", "filter_map", "skip_while", "take_while", "dedup", "dedup_by_key"}
            chk.require(not badn, R_ROWS, "%s|%s stream unfiltered (loop of push #%d)" % (imp, label, n), b.loc(nb),
                        "the %s are read through %s" % (label, sorted(badn)), "plain iteration: " + ",".join(names[:4]))
    chk.floor("%s: per-record push sites" % imp, n, 1)


UNARY = "okane_core::parse::expr::unary_amount"


def csv_number_sign(P, chk, rule):
    """numbers of CSV fields go through expr::unary_amount: an optional leading minus FLIPS the sign of the parsed
    number; without it the number keeps its own sign (`$-15.00` and `-$15.00` are both negative)"""
    bodies = P.with_closures(UNARY)
    for x in bodies:
        chk.analysed(x)
    setters = []
    for x in bodies:
        for bb, t in x.calls():
            if short(callee_def(t)) in ("set_sign_positive", "set_sign_negative", "set_sign", "abs", "neg", "negate"):
                setters.append((x, bb, t))
    ok = len(setters) == 1
    detail = "expected exactly one sign operation in unary_amount, found %s" % [short(callee_def(t)) for x, bb, t in setters]
    if ok:
        x, bb, t = setters[0]
        nm = short(callee_def(t))
        gated = any(short(cn) == "is_some" and lab is True and x.local_name(q.named_local(x, ct["args"][0]) or 0) == "negate"
                    for cn, lab, ct in q.guard_calls(x, bb))
        flips = nm in ("neg", "negate")
        if nm in ("set_sign_positive", "set_sign_negative"):
            rs = prov(x, t["args"][1])
            recv = q.named_local(x, t["args"][0])
            flips = bool(rs) and all(r.kind == "call" and short(r.name) in ("is_sign_positive", "is_sign_negative") and "not" in r.via
                                     and short(r.name)[8:] == nm[9:] and r.site is not None
                                     and q.named_local(x, x.term(r.site)["args"][0]) == recv for r in rs)
        ok = gated and flips
        detail = "sign operation %s: only under a leading minus=%s, flips the number's own sign=%s" % (nm, gated, flips)
    chk.require(ok, rule, "expr::unary_amount|a leading minus flips the number's own sign, nothing else touches it", P.body(UNARY).loc(), detail,
                "if negate.is_some() { value.set_sign_positive(!value.is_sign_positive()) }")
    # str_to_comma_decimal hands the field to it and returns the parsed value unchanged
    sc = P.body("okane::import::csv::str_to_comma_decimal")
    chk.analysed(sc)
    oks = [(bb, rv) for bb, v, rv in q.ok_err_assignments(sc) if v == "Ok"]
    good = False
    for bb, rv in oks:
        rs = prov(sc, rv["fields"][0]["op"])
        for r in rs:
            if r.kind == "agg" and r.name.endswith("Option::Some") and r.site is not None:
                for st in sc.blocks[r.site]["stmts"]:
                    if st["k"] == "assign" and st["rv"]["k"] == "aggregate" and st["rv"].get("variant") == "Some":
                        inner = prov(sc, st["rv"]["fields"][0]["op"])
                        if inner and all(y.fields[-2:] == ("value", "value") and not (set(y.via) - {"?", "φ"}) for y in inner):
                            good = True
    chk.require(good, rule, "csv::str_to_comma_decimal|returns the parsed number unchanged", sc.loc(),
                "the value handed back is not the parsed amount's own number", "Ok(Some(a.value.value))")
