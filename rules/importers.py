"""Rules about the statement readers shared by C15 (one transaction per record) and C16 / C18."""
from analysis import mir, q
from analysis.mir import norm, callee, callee_def, callee_names, prov

R_ROWS = "E6.one-transaction-per-record"

CSV_IMPORT = "okane::import::csv::import"
# csv::ReaderBuilder methods the importer may use, and why they cannot lose or merge records
READER_CONFIG = {
    "new": "default reader: every line is a record, quoting per RFC 4180",
    "flexible": "records of different lengths are all delivered (a short one is reported by the importer itself)",
    "delimiter": "field separator taken from the configuration",
    "from_reader": "wraps the (head-skipped) input stream",
    "has_headers": "the first record is the header the field map is built from",
}


def short(n):
    return (n or "?").rsplit("::", 1)[-1]


def csv_reader(P, chk):
    b = P.body(CSV_IMPORT)
    chk.analysed(b)
    n = 0
    for x in P.with_closures(CSV_IMPORT):
        for bb, t in x.calls():
            cd = callee_def(t) or ""
            if cd.startswith("csv::ReaderBuilder::"):
                n += 1
                m = short(cd)
                if m in READER_CONFIG:
                    chk.ok(R_ROWS, "csv::import|reader option %s" % m, x.loc(bb), "table: " + READER_CONFIG[m])
                else:
                    chk.fail(R_ROWS, "csv::import|reader option %s" % m, x.loc(bb),
                             "csv::ReaderBuilder::%s is not a reviewed reader option: options such as comment / trim / quoting / "
                             "escape / terminator make the reader drop, merge or rewrite statement records before the importer sees them" % m)
    chk.floor("csv reader configuration calls", n, 3)


def _loop_source(b, blks, pbb):
    """field names / callee names on the iterator chain of the loop's own next() call"""
    out = []
    for x in blks:
        t = b.term(x)
        if t["k"] == "call" and callee_def(t) == "std::iter::Iterator::next" and t["target"] is not None and b.must_pass_block(pbb, x):
            for cn, r in q.chains(b, t["args"][0]):
                out += [short(n) for n in cn] + list(r.fields)
            for r in prov(b, t["args"][0]):
                out += list(r.fields)
    return out


def record_loop(P, chk, key, label, skip_guards=(), only_if=(), not_record_loops=()):
    """in importer `key`: every loop iteration over records pushes exactly one transaction, except on paths that
    leave through `?` / return or pass a tabled skip guard.
    only_if: guards (callee short name, label) under which a push is *expected* - the walk then starts at that
    edge instead of the loop entry (an entry is booked itself only when it has no details);
    not_record_loops: field names identifying loops that do not iterate records (statements)."""
    b = P.body(key)
    chk.analysed(b)
    loops = b.loops()
    pushes = [(bb, t) for bb, t in b.calls() if callee_def(t) == "std::vec::Vec::push" and "Txn" in b.local_ty(t["args"][0]["place"]["l"])]
    if not pushes:
        chk.anchor_missing("%s: no Vec<Txn>::push found" % key)
        return
    imp = short(key.rsplit("::", 1)[0]) + "::import"
    n = 0
    for pbb, pt in pushes:
        inl = [h for h, blks in loops.items() if pbb in blks]
        if not inl:
            continue
        h = min(inl, key=lambda x: len(loops[x]))
        blks = loops[h]
        src = _loop_source(b, blks, pbb)
        if any(f in src for f in not_record_loops):
            continue
        n += 1
        skip_edges = []
        starts = [x for x in b.succs(h) if x in blks]
        started_at = "loop entry"
        for s_ in blks:
            ds = mir.describe_switch(b, s_)
            if not ds or ds[0] != "call":
                continue
            cn = short(ds[1][0])
            for tb, labs in ds[2].items():
                for gname, glab in skip_guards:
                    if cn == gname and glab in labs:
                        skip_edges.append((s_, tb))
                for gname, glab in only_if:
                    if cn == gname and glab in labs and b.must_pass_edge(pbb, s_, tb):
                        starts = [tb]
                        started_at = "%s()==%s" % (gname, glab)
        others = [o for o, ot in pushes if o != pbb and o in blks]
        bad = False
        detail = ""
        seen = set()
        stack = list(starts)
        while stack:
            x = stack.pop()
            if x in seen or x == pbb or x in others or x not in blks:
                continue
            seen.add(x)
            for y in b.succs(x):
                if (x, y) in skip_edges:
                    continue
                if y == h:
                    bad = True
                    detail = "an iteration can end at %s without pushing a transaction" % b.loc(x)
                stack.append(y)
        chk.require(not bad, R_ROWS, "%s|every %s becomes a transaction (push #%d)" % (imp, label, n), b.loc(pbb),
                    detail + " (silently skipped record)", "push on every path from %s that does not return an error%s"
                    % (started_at, "; tabled skip: " + ", ".join("%s()==%s" % g for g in skip_guards) if skip_guards else ""))
        nexts = [(x, b.term(x)) for x in blks if b.term(x)["k"] == "call" and callee_def(b.term(x)) == "std::iter::Iterator::next" and b.term(x)["target"] is not None]
        for nb, nt in nexts:
            if not b.must_pass_block(pbb, nb):
                continue
            names = [short(n2) for cn2, r in q.chains(b, nt["args"][0]) for n2 in cn2]
            badn = set(names) & {"filter", "skip", "take", "step_by", "filter_map", "skip_while", "take_while", "dedup", "dedup_by_key"}
            chk.require(not badn, R_ROWS, "%s|%s stream unfiltered (loop of push #%d)" % (imp, label, n), b.loc(nb),
                        "the %s are read through %s" % (label, sorted(badn)), "plain iteration: " + ",".join(names[:4]))
    chk.floor("%s: per-record push sites" % imp, n, 1)
