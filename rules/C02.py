"""C02 — balance assertions are enforced exactly and in file order."""
from analysis import mir, q, tables, panics
from analysis.mir import norm, callee, callee_def, callee_names, prov
from . import C04

EXPLANATION = (
    "Static order / provenance / decision rules.  In process_posting the assertion is evaluated on "
    "the very value Balance::add_posting_amount returned for that posting (no clone, rounding or "
    "other call in between), against the evaluated `= X` of the same posting; every Ok return of the "
    "amount-bearing arm lies under `no assertion` or under is_absolute_zero() of assert_balance's "
    "result, the other edge returns BalanceAssertionFailure whose spans come from that posting's "
    "account / constraint and whose computed text renders the same balance.  Amount::assert_balance "
    "returns zero() only under is_zero() of the whole balance (bare `= 0`) or is_zero() of "
    "`single.value - get_part(single.commodity)` (`= X C`), and get_part reads the map entry of that "
    "commodity.  Every balance mutator drops zero entries of the entry it updated (add_amount, "
    "add_posting_amount; Amount::set_partial removes on zero / inserts otherwise).  Postings are "
    "folded by a plain enumerate() loop over txn.posts.  The subtraction itself is not decided."
)

BK = "okane_core::report::book_keeping"
AMT = "okane_core::report::eval::amount::Amount"
BAL = "okane_core::report::balance::Balance"
R_ORD = "E6.assert-after-apply"
R_TAB = "E5.assert-balance-table"
R_ZERO = "E6.remove-zero-entries"
R_FILE = "E6.file-order"


def is_posting_field(r, field):
    return r.kind == "param" and r.name.endswith(":posting") and field in r.fields


def _ok_paths_checked(P, b0):
    """path by path (on the picture with closures and `?` written out): every way to the Ok of the amount arm either
    saw that the posting has no `= X`, or saw is_absolute_zero() of the assertion's difference hold"""
    from analysis import desugar
    try:
        b = desugar.desugared(P, b0.key, expand_try=True) if not getattr(b0, "desugared", None) else b0
        paths = mir.enumerate_paths(b, limit=60000)
    except mir.TooManyPaths:
        return False
    n = 0
    for p in paths:
        sh = p.shape
        if not (sh and sh[0] == "assign" and sh[2].get("k") == "aggregate" and sh[2].get("variant") == "Ok"):
            continue
        # amount arm: the posting's amount was seen to be Some
        if not any(a.kind == "variant" and tuple(a.label) == ("Some",) and any(is_posting_field(r, "amount") for r in a.subject) for a in p.atoms):
            continue
        n += 1
        ok = False
        for a in p.atoms:
            if a.kind == "variant" and tuple(a.label) == ("None",) and any(is_posting_field(r, "balance") for r in a.subject):
                ok = True
            if a.kind == "call" and a.subject[0] == AMT + "::is_absolute_zero" and tuple(a.label) == (True,):
                ct = b.term(a.subject[2])
                if q.all_roots(b, ct["args"][0], lambda r: r.kind == "call" and r.name == AMT + "::assert_balance"):
                    ok = True
        if not ok:
            return False
    return n > 0


def assertion_order(P, chk):
    b = P.body(BK + "::process_posting")
    chk.analysed(b)
    asserts = mir.call_sites(b, [AMT + "::assert_balance"])
    if len(asserts) != 1:
        chk.anchor_missing("process_posting: expected one assert_balance call, found %d" % len(asserts))
        return
    abb, at = asserts[0]
    recv, exp = at["args"]
    ok_recv = q.chain_ok(b, recv, lambda r: True, allowed={"add_posting_amount"}, required=("add_posting_amount",)) and \
        q.all_roots(b, recv, lambda r: r.kind == "call" and r.name == BAL + "::add_posting_amount" and
                    not [v for v in r.via if v not in ("φ",)])
    chk.require(ok_recv, R_ORD, "process_posting|assert on the balance returned by add_posting_amount", b.loc(abb),
                "assert_balance is applied to %s, not to the value add_posting_amount returned for this posting"
                % mir.prov_strs(b, recv), "receiver = add_posting_amount(..) result, unmodified")
    ok_exp = q.chain_ok(b, exp, lambda r: is_posting_field(r, "balance"), required=("eval_mut",))
    chk.require(ok_exp, R_ORD, "process_posting|expected = evaluated posting.balance", b.loc(abb),
                "the asserted value is %s" % mir.prov_strs(b, exp), "expected = posting.balance.eval_mut()?.try_into()?")
    # add_posting_amount gets this posting's account and computed amount
    apa = mir.call_sites(b, [BAL + "::add_posting_amount"])
    okapa = len(apa) == 1
    if okapa:
        t = apa[0][1]
        okapa = q.all_roots(b, t["args"][0], lambda r: q.is_param(r, "bal")) and \
            q.all_roots(b, t["args"][1], lambda r: q.is_param(r, "account")) and \
            any("amount" in r.fields for r in prov(b, t["args"][2]))
    chk.require(okapa, R_ORD, "process_posting|applies the posting to its account first", b.loc(),
                "add_posting_amount operands are not (bal, account, computed.amount)", "bal.add_posting_amount(account, computed.amount)")
    # Ok returns of the amount arm
    n = 0
    for bb, v, rv in q.ok_err_assignments(b):
        if v != "Ok":
            continue
        guards = q.variant_guards(b, bb)
        if not any(labs == ("Some",) and any(is_posting_field(r, "amount") for r in roots) for roots, labs in guards):
            continue
        n += 1
        # disjunction over paths: every path to this Ok uses the `no assertion` edge or the
        # `is_absolute_zero(assert_balance(..)) == true` edge
        edges = []
        for (sb, tb, kind, subject, labs) in q.switch_edges(b):
            if kind == "variant" and labs == ("None",) and any(is_posting_field(r, "balance") for r in subject):
                edges.append((sb, tb))
            if kind == "call" and subject[0] == AMT + "::is_absolute_zero" and labs == (True,):
                ct = b.term(subject[2])
                if q.all_roots(b, ct["args"][0], lambda r: r.kind == "call" and r.name == AMT + "::assert_balance"):
                    edges.append((sb, tb))
        okedge = q.must_pass_any_edge(b, bb, edges)
        if not okedge:
            okedge = _ok_paths_checked(P, b)
        chk.require(okedge, R_ORD, "process_posting|Ok only without assertion or with zero diff", b.loc(bb),
                    "a posting with an amount is accepted without its assertion having been found exact",
                    "Ok under (no `=`) or is_absolute_zero(assert_balance(..))")
    chk.floor("Ok returns of the amount arm", n, 1)
    # the failing edge: wherever a BalanceAssertionFailure is built (in process_posting itself or in a helper of it that
    # was folded in), it is built on the non-zero edge from this posting's data, and it leaves the function as its error
    built = []
    for i in sorted(b.live_blocks()):
        for st in b.blocks[i]["stmts"]:
            if st["k"] == "assign" and st["rv"]["k"] == "aggregate" and st["rv"].get("variant") == "BalanceAssertionFailure":
                built.append((i, st))
    returned = False
    for bb, st in built:
        agg = st["rv"]
        nz = any(cn == AMT + "::is_absolute_zero" and lab is False for cn, lab, ct in q.guard_calls(b, bb))
        f = {x["name"]: x["op"] for x in agg["fields"]}
        acc = q.chain_ok(b, f["account_span"], lambda r: is_posting_field(r, "account"), required=("span",))
        bsp = q.chain_ok(b, f["balance_span"], lambda r: is_posting_field(r, "balance"), required=("span",))
        # computed renders the same balance the assertion looked at
        disp = mir.call_sites(b, [AMT + "::as_inline_display"])
        comp_ok = any(panics.same_root_loose(b, t["args"][0], recv) for bb2, t in disp)
        fields_ok = acc and bsp and comp_ok
        chk.require(nz and fields_ok, R_ORD, "process_posting|failure carries this posting's spans and the computed balance", b.loc(bb),
                    "BalanceAssertionFailure is not built (on the non-zero edge) from posting.account.span(), the constraint's span() and the asserted balance"
                    " (non-zero edge=%s account span=%s constraint span=%s computed=%s)" % (nz, acc, bsp, comp_ok),
                    "Err(BalanceAssertionFailure{account_span, balance_span, computed}) on the non-zero edge")
        if not st["place"]["p"] and q.flows_to_return(b, st["place"]["l"]):
            returned = True
    chk.require(returned, R_ORD,
                "process_posting|has a BalanceAssertionFailure exit", b.loc(), "no BalanceAssertionFailure is ever returned", "present")


PASS_DEFAULT = ("unwrap_or_default", "unwrap_or", "copied", "cloned", "map_or", "unwrap_or_else", "deref", "clone")


def _held_in_commodity(b, op, depth=0):
    """op is the amount the balance holds in the asserted commodity: self.values.get(&expected.commodity), a copy of it,
    or zero when there is no entry"""
    rs = prov(b, op)
    if not rs or depth > 6:
        return False
    for r in rs:
        if r.kind == "const":
            import re
            ds = re.findall(r"\d+", re.sub(r"_[iu](?:size|\d+)", "", str(r.name)))
            if "ZERO" not in str(r.name) and not (ds and all(int(d) == 0 for d in ds)):
                return False
            continue
        if r.kind != "call" or r.site is None:
            return False
        t = b.term(r.site)
        last = str(r.name).rsplit("::", 1)[-1].split("<")[0]
        if str(r.name).endswith("HashMap::get") or (last == "get" and "HashMap" in str(r.name)):
            if not (q.all_roots(b, t["args"][0], lambda x: q.is_param(x, "self", ("values",))) and
                    q.all_roots(b, t["args"][1], lambda x: q.is_param(x, "expected") and x.fields[-1:] == ("commodity",))):
                return False
            continue
        if last == "default" and not t["args"]:
            continue
        if last in PASS_DEFAULT and t["args"] and _held_in_commodity(b, t["args"][0], depth + 1):
            continue
        return False
    return True


def assert_balance_table(P, chk):
    from analysis import inline
    P.body(AMT + "::assert_balance")
    # the lookup of the asserted commodity may live in a helper (get_part): judge assert_balance with it folded in
    b = inline.inlined(P, AMT + "::assert_balance", inline.only_policy(("::Amount::get_part",)))
    chk.analysed(b)
    rets = []
    for i in sorted(b.live_blocks()):
        t = b.term(i)
        if t["k"] == "call" and t["dest"]["l"] == 0 and not t["dest"]["p"]:
            rets.append((i, callee(t), t))
    kinds = {}
    for bb, c, t in rets:
        exp = None
        for roots, labs in q.variant_guards(b, bb):
            if any(q.is_param(r, "expected") for r in roots):
                exp = labs
        gz = [(cn, lab, ct) for cn, lab, ct in q.guard_calls(b, bb) if cn.endswith("::is_zero")]
        where = b.loc(bb)
        if c == AMT + "::zero":
            if exp == ("Zero",):
                ok = any(cn == AMT + "::is_zero" and lab is True and
                         q.all_roots(b, ct["args"][0], lambda r: q.is_param(r, "self")) for cn, lab, ct in gz)
                chk.require(ok, R_TAB, "assert_balance|`= 0` exact only when the whole balance is zero", where,
                            "zero() is returned for a bare `= 0` without self.is_zero() holding", "Zero arm: zero() under self.is_zero()")
                kinds["Zero/ok"] = True
            elif exp == ("Single",):
                ok = False
                for cn, lab, ct in gz:
                    if cn == "rust_decimal::Decimal::is_zero" and lab is True:
                        for r in prov(b, ct["args"][0]):
                            if r.kind == "call" and r.site is not None and callee_def(b.term(r.site)) == "std::ops::Sub::sub":
                                a0, a1 = b.term(r.site)["args"]
                                l_ok = q.all_roots(b, a0, lambda x: q.is_param(x, "expected") and x.fields[-1:] == ("value",))
                                if l_ok and _held_in_commodity(b, a1):
                                    ok = True
                chk.require(ok, R_TAB, "assert_balance|`= X C` exact only when X - balance[C] is zero", where,
                            "zero() is returned for `= X C` without (X - self.get_part(C)).is_zero() holding",
                            "Single arm: zero() under (single.value - get_part(single.commodity)).is_zero()")
                kinds["Single/ok"] = True
            else:
                chk.fail(R_TAB, "assert_balance|zero() outside the two arms", where, "zero() returned on an unrecognised arm %s" % (exp,))
        else:
            nz = any(lab is False for cn, lab, ct in gz)
            chk.require(nz and exp in (("Zero",), ("Single",)), R_TAB, "assert_balance|non-zero diff on the %s arm" % (exp[0] if exp else "?"), where,
                        "a non-zero difference (%s) is returned without the zero test having failed" % c, "diff returned on the !is_zero edge")
            kinds["%s/diff" % (exp[0] if exp else "?")] = True
    chk.require(set(kinds) >= {"Zero/ok", "Single/ok", "Zero/diff", "Single/diff"}, R_TAB, "assert_balance|four outcomes", b.loc(),
                "outcomes found: %s" % sorted(kinds), "zero / diff on each of the Zero and Single arms")
    # get_part (when the lookup lives in a helper of its own) reads the entry of that commodity
    g = P.maybe_body(AMT + "::get_part")
    if g is None:
        return
    chk.analysed(g)
    gets = mir.call_sites(g, ["std::collections::HashMap::get"])
    okg = len(gets) == 1 and q.all_roots(g, gets[0][1]["args"][0], lambda r: q.is_param(r, "self", ("values",))) and \
        q.all_roots(g, gets[0][1]["args"][1], lambda r: q.is_param(r, "commodity"))
    okg = okg and q.chain_ok(g, {"l": 0, "p": []}, lambda r: True, required=("get",))
    chk.require(okg, R_TAB, "Amount::get_part|values.get(commodity)", g.loc(), "get_part does not read self.values[commodity]",
                "self.values.get(&commodity).copied().unwrap_or_default()")


def amount_set_partial(P, chk):
    b = P.body(AMT + "::set_partial")
    chk.analysed(b)
    rem = mir.call_sites(b, ["std::collections::HashMap::remove"])
    ins = mir.call_sites(b, ["std::collections::HashMap::insert"])
    ok = len(rem) == 1 and len(ins) == 1
    detail = "expected one remove and one insert, found %d / %d" % (len(rem), len(ins))
    if ok:
        def zero_guard(bb, want):
            for cn, lab, ct in q.guard_calls(b, bb):
                if cn == "rust_decimal::Decimal::is_zero" and lab is want and \
                        q.all_roots(b, ct["args"][0], lambda r: q.is_param(r, "amount") and r.fields[-1:] == ("value",)):
                    return True
            return False
        ok = zero_guard(rem[0][0], True) and zero_guard(ins[0][0], False)
        detail = "remove must be under amount.value.is_zero(), insert under its negation"
    chk.require(ok, R_ZERO, "Amount::set_partial|zero assignment removes the entry", b.loc(), detail,
                "is_zero -> remove(commodity), else insert(commodity, value)")


def file_order(P, chk):
    b = P.body(BK + "::add_transaction")
    chk.analysed(b)
    pp = mir.call_sites(b, [BK + "::process_posting"])
    loops = b.loops()
    ok = len(pp) == 1 and any(pp[0][0] in blks for blks in loops.values())
    detail = "process_posting is not called once inside the posting loop"
    if ok:
        h = [h for h, blks in loops.items() if pp[0][0] in blks]
        blks = loops[min(h, key=lambda x: len(loops[x]))]
        nexts = [(bb, t) for bb in blks for t in [b.term(bb)] if t["k"] == "call" and callee_def(t) == "std::iter::Iterator::next"]
        ok = len(nexts) == 1
        if ok:
            names = set()
            for cn, r in q.chains(b, nexts[0][1]["args"][0]):
                names |= set(n.rsplit("::", 1)[-1] for n in cn)
                if not (r.kind == "param" and r.name.endswith(":txn") and "posts" in r.fields):
                    ok = False
                    detail = "the loop does not iterate txn.posts: %s" % mir.show_root(r)
            extra = names - {"iter", "enumerate", "into_iter", "deref", "as_ref", "next"}
            if extra:
                ok = False
                detail = "posting order is altered by %s" % sorted(extra)
            # the posting processed is the loop element
            parg = pp[0][1]["args"][4]
            if ok and not q.chain_ok(b, parg, lambda r: True, required=("next",)):
                ok = False
                detail = "process_posting is not given the loop's element"
    chk.require(ok, R_FILE, "add_transaction|postings folded in file order", b.loc(), detail, "for (i, posting) in txn.posts.iter().enumerate()")


def every_transaction_booked(P, chk):
    """every Txn entry the loader delivers is booked: on the Txn arm of ProcessAccumulator::process no path reaches a
    normal return without add_transaction (an assertion in a skipped transaction is never evaluated, and later ones
    are evaluated against a balance that misses its postings)"""
    b = P.body("okane_core::report::book_keeping::ProcessAccumulator::process")
    chk.analysed(b)
    adds = [(bb, t) for bb, t in b.calls() if (callee_def(t) or "").endswith("book_keeping::add_transaction")]
    ok = len(adds) == 1
    detail = "expected one add_transaction call in ProcessAccumulator::process, found %d" % len(adds)
    if ok:
        abb = adds[0][0]
        arm = None
        for s_ in sorted(b.live_blocks()):
            ds = mir.describe_switch(b, s_)
            if ds and ds[0] == "variant":
                for tb, labs in ds[2].items():
                    if list(labs) == ["Txn"] and any(q.is_param(r, "entry") for r in ds[1]):
                        arm = (s_, tb)
        ok = arm is not None
        detail = "no match arm for LedgerEntry::Txn"
        if ok:
            reach = b.reach_from(arm[1], without_blocks=(abb,))
            leaks = [x for x in reach if b.term(x)["k"] == "return"]
            # the match itself must not be bypassed either
            bypass = [x for x in b.reach_from(0, without_blocks=(arm[0],)) if b.term(x)["k"] == "return"]
            ok = not leaks and not bypass
            detail = "a Txn entry can return from process() without add_transaction (early return / skip)" if leaks else \
                "process() can return before looking at the entry kind"
    chk.require(ok, R_FILE, "ProcessAccumulator::process|every transaction is booked, in delivery order", b.loc(adds[0][0]) if adds else b.loc(), detail,
                "Txn(txn) => self.txns.push(add_transaction(..)?)")
    # and process() (the driver) books every delivered entry: the loader callback calls accum.process unconditionally
    drv = [x for x in P.closures_of("okane_core::report::book_keeping::process") if any((callee_def(t) or "").endswith("ProcessAccumulator::process") for bb, t in x.calls())]
    okd = len(drv) == 1
    if okd:
        x = drv[0]
        chk.analysed(x)
        cb = [bb for bb, t in x.calls() if (callee_def(t) or "").endswith("ProcessAccumulator::process")][0]
        okd = all(x.must_pass_block(r, cb) for r in x.return_blocks())
    chk.require(okd, R_FILE, "process|the loader callback hands every entry to the accumulator", "", "an entry can be dropped before book-keeping",
                "loader.load(|path, pctx, entry| accum.process(ctx, entry)..)")


def run(P, chk, tier):
    chk.rule(R_ORD, "assertion evaluated after applying the posting, on the balance that application returned, against that posting's `= X`; exactness decides Ok / BalanceAssertionFailure")
    chk.rule(R_TAB, "Amount::assert_balance returns zero() only under the zero test of the right quantity on each arm")
    chk.rule(R_ZERO, "every balance mutator removes zero entries of the entry it updated")
    chk.rule(R_FILE, "postings are folded by a plain enumerate() loop over txn.posts")
    assertion_order(P, chk)
    assert_balance_table(P, chk)
    C04.zero_entries(P, chk)
    amount_set_partial(P, chk)
    file_order(P, chk)
    every_transaction_booked(P, chk)
    # the balance an assertion is compared with also receives the inferred amounts: exactly the recorded ones
    from . import C03 as _c03
    chk.rule(_c03.R_DED, "an inferred posting adds to the running balance exactly the amount recorded on that posting (shared with C03)")
    _c03.deduced_amount(P, chk)
