"""C12 — aliases are transparent; alias conflicts are rejected."""
from analysis import mir, q, tables, panics
from analysis.mir import norm, callee, callee_def, callee_names, prov
from . import shared, common

EXPLANATION = (
    "Static decision tables and placement rules over the intern store.  Over the lookup state "
    "{absent, canonical, alias} of InternStore::get: insert_canonical = {insert, reuse the found "
    "canonical, Err(AlreadyAlias)}; insert_alias = {insert alias of the given canonical, "
    "Err(AlreadyCanonical), no-op}; ensure = resolve-or-insert-canonical; resolve / as_canonical "
    "return the canonical member on the alias arm; get builds Alias{canonical} from the stored "
    "canonical.  A record is written only inside the two *_impl functions, each reached only after a "
    "None lookup of the same key; FromInterned::from_interned is referenced only inside intern.rs "
    "(so every Account / Commodity value comes out of the store).  In ProcessAccumulator::process "
    "the Account and Commodity arms call insert_canonical, then - on every path, for every detail "
    "of the declaration, inside the loop - insert_alias(alias, that canonical) for each Alias "
    "detail, and both errors are propagated; the store facades delegate 1:1.  Every account name "
    "of a posting goes through ensure.  Equality of reports under substitution is not decided."
)

IS = "okane_core::report::intern::InternStore"
SV = "okane_core::report::intern::StoredValue"
BK = "okane_core::report::book_keeping"
R_TAB = "E5.intern-table"
R_WHO = "E6.who-may-write-records"
R_DECL = "E6.declarations-registered"
R_E9 = "E9.error-chain"
R_USE = "E7.names-resolve-through-the-store"


def lookup_state(body, bb, lookup="get"):
    """state of the InternStore lookup in force at bb: 'absent' | 'canonical' | 'alias' | None"""
    st = None
    for roots, labs in q.variant_guards(body, bb):
        from_get = any(r.kind == "call" and r.name in (IS + "::get", IS + "::resolve") for r in roots)
        if not from_get:
            continue
        if labs == ("None",):
            return "absent"
        if labs == ("Canonical",):
            st = "canonical"
        if labs == ("Alias",):
            st = "alias"
    return st


def table_by_paths(b, outcome):
    """{state: set of outcomes} over the enumerated paths of b; state from the lookup decisions taken on the path
    (flags set by `matches!` are followed by the path enumeration)"""
    out = {}
    try:
        paths = mir.enumerate_paths(b, limit=3000)
    except mir.TooManyPaths:
        return None
    for p in paths:
        st = None
        for a in p.atoms:
            if a.kind != "variant" or len(a.label) != 1:
                continue
            if not any(r.kind == "call" and r.name in (IS + "::get", IS + "::resolve") for r in a.subject):
                continue
            if a.label[0] == "None":
                st = "absent"
            elif a.label[0] == "Canonical":
                st = "canonical"
            elif a.label[0] == "Alias":
                st = "alias"
        o = outcome(p)
        if o is not None:
            out.setdefault(st, set()).add(o)
    return out


def tables_(P, chk):
    # insert_canonical
    b = P.body(IS + "::insert_canonical")
    chk.analysed(b)
    got = {}
    for bb, v, rv in q.ok_err_assignments(b):
        st = lookup_state(b, bb)
        if v == "Ok":
            pay = rv["fields"][0]["op"]
            ins_sites = [x for x, t_ in b.calls() if callee_def(t_) == "std::collections::HashMap::insert" or
                         IS + "::insert_canonical_impl" in callee_names(t_)]
            if q.all_roots(b, pay, lambda r: r.kind == "call" and r.name == IS + "::insert_canonical_impl"):
                got[st] = "insert"
            elif ins_sites and any(b.must_pass_block(bb, x) for x in ins_sites) and \
                    not any(r.kind == "call" and r.name == IS + "::get" for r in prov(b, pay)):
                got[st] = "insert"      # the record is written on every path to this Ok (helper folded in / merged helper)
            elif q.all_roots(b, pay, lambda r: r.kind == "call" and r.name == IS + "::get" and "#Canonical" in r.fields):
                got[st] = "reuse"
            else:
                got[st] = "Ok(%s)" % mir.prov_strs(b, pay)
        elif v == "Err":
            got[st] = "Err(" + mir.operand_shape(b, rv["fields"][0]["op"]).split("::")[-1].split("(")[0] + ")"
    want = {"absent": "insert", "canonical": "reuse", "alias": "Err(AlreadyAlias)"}
    chk.require(got == want, R_TAB, "insert_canonical|absent/canonical/alias", b.loc(), "insert_canonical behaves as %s" % got, str(want))
    # insert_alias
    b = P.body(IS + "::insert_alias")
    chk.analysed(b)
    # where the alias record is written: the *_impl helper, or records.insert itself when the helper was folded in
    writes = []
    for bb, t in b.calls():
        if IS + "::insert_alias_impl" in callee_names(t):
            writes.append((bb, t["args"][1], t["args"][2]))
        elif callee_def(t) == "std::collections::HashMap::insert" and len(t["args"]) == 3:
            key = t["args"][1]
            for r in prov(b, key):
                if r.kind == "call" and str(r.name).endswith("alloc_str") and r.site is not None:
                    key = b.term(r.site)["args"][-1]
            tgt = t["args"][2]
            for _ in range(6):
                l = mir._operand_local(tgt)
                d = mir.single_def(b, l) if l is not None and not tgt["place"]["p"] else None
                if not d or d[0] != "assign":
                    break
                rv = d[4]
                if rv["k"] == "use":
                    tgt = rv["op"]
                elif rv["k"] == "aggregate" and rv.get("agg") == "adt" and rv.get("variant") == "Some" and rv["fields"]:
                    tgt = rv["fields"][0]["op"]
                    break
                else:
                    break
            writes.append((bb, key, tgt))
    got = {}
    for bb, v, rv in q.ok_err_assignments(b):
        st = lookup_state(b, bb)
        if v == "Ok":
            ins = [x for x, _, _ in writes if b.must_pass_block(bb, x)]
            got[st] = "insert" if ins else "noop"
        elif v == "Err":
            got[st] = "Err(" + mir.operand_shape(b, rv["fields"][0]["op"]).split("::")[-1].split("(")[0] + ")"
    want = {"absent": "insert", "canonical": "Err(AlreadyCanonical)", "alias": "noop"}
    if got != want:
        wsites = set(x for x, _, _ in writes)

        def outcome(p):
            sh = p.shape
            if not sh or sh[0] != "assign" or sh[2].get("k") != "aggregate":
                return "?%s" % (sh[0] if sh else None)
            if sh[2].get("variant") == "Ok":
                return "insert" if wsites & set(p.blocks) else "noop"
            if sh[2].get("variant") == "Err":
                return "Err(" + mir.operand_shape(b, sh[2]["fields"][0]["op"]).split("::")[-1].split("(")[0] + ")"
            return "?"
        g2 = table_by_paths(b, outcome)
        if g2 is not None and {k: next(iter(v)) for k, v in g2.items() if len(v) == 1} == want and all(len(v) == 1 for v in g2.values()):
            got = dict(want)
    chk.require(got == want, R_TAB, "insert_alias|absent/canonical/alias", b.loc(), "insert_alias behaves as %s" % got, str(want))
    # the alias is recorded for the canonical passed in
    chk.require(len(writes) >= 1, R_TAB, "insert_alias|writes the alias record", b.loc(), "insert_alias never writes a record", "%d write(s)" % len(writes))
    for bb, key, target in writes:
        okc = q.chain_ok(b, target, lambda r: q.is_param(r, "canonical"), stop=True) and \
            q.all_roots(b, key, lambda r: q.is_param(r, "value"))
        chk.require(okc, R_TAB, "insert_alias|records (value -> canonical)", b.loc(bb),
                    "alias record written as (%s -> %s)" % (mir.prov_strs(b, key), mir.prov_strs(b, target)),
                    "insert_alias_impl(value, canonical.as_interned())")
    # ensure
    b = P.body(IS + "::ensure")
    chk.analysed(b)
    got = {}
    for i in sorted(b.live_blocks()):
        for st_ in b.blocks[i]["stmts"]:
            if st_["k"] == "assign" and st_["place"]["l"] == 0 and not st_["place"]["p"]:
                lab = [labs for roots, labs in q.variant_guards(b, i) if any(r.kind == "call" and r.name == IS + "::resolve" for r in roots)]
                got[lab[0] if lab else None] = "|".join(mir.prov_strs(b, st_["rv"].get("op", {"k": "other"})))
        t = b.term(i)
        if t["k"] == "call" and t["dest"]["l"] == 0:
            lab = [labs for roots, labs in q.variant_guards(b, i) if any(r.kind == "call" and r.name == IS + "::resolve" for r in roots)]
            got[lab[0] if lab else None] = "call:" + (callee(t) or "")
    none_v = got.get(("None",), "")
    if none_v != "call:" + IS + "::insert_canonical_impl":
        # the insert written in line / through a merged helper: on the None arm a record is written before the value is made
        ins_sites = [x for x, t_ in b.calls() if callee_def(t_) == "std::collections::HashMap::insert"]
        for i in sorted(b.live_blocks()):
            writes0 = [st_ for st_ in b.blocks[i]["stmts"] if st_["k"] == "assign" and st_["place"]["l"] == 0 and not st_["place"]["p"]]
            t_ = b.term(i)
            if writes0 or (t_["k"] == "call" and t_["dest"]["l"] == 0):
                lab = [labs for roots, labs in q.variant_guards(b, i) if any(r.kind == "call" and r.name == IS + "::resolve" for r in roots)]
                if lab and lab[0] == ("None",) and ins_sites and any(b.must_pass_block(i, x) for x in ins_sites):
                    none_v = "call:" + IS + "::insert_canonical_impl"
    ok = none_v == "call:" + IS + "::insert_canonical_impl" and "resolve" in got.get(("Some",), "") and len(got) == 2
    chk.require(ok, R_TAB, "ensure|resolve or insert canonical", b.loc(), "ensure behaves as %s" % got, "Some(found) -> found; None -> insert_canonical_impl(value)")
    # resolve = get()?.as_canonical()
    b = P.body(IS + "::resolve")
    chk.analysed(b)
    ac = mir.call_sites(b, [SV + "::as_canonical"])
    ok = len(ac) == 1 and q.chain_ok(b, ac[0][1]["args"][0], lambda r: r.kind == "call" and r.name == IS + "::get", stop=True)
    ok = ok and any(v == "Some" and q.all_roots(b, rv["fields"][0]["op"], lambda r: r.kind == "call" and r.name == SV + "::as_canonical")
                    for bb, v, rv in q.ok_err_assignments(b))
    chk.require(ok, R_TAB, "resolve|get()?.as_canonical()", b.loc(), "resolve does not return the canonical of what get() found", "Some(get(value)?.as_canonical())")
    # as_canonical
    b = P.body(SV + "::as_canonical")
    chk.analysed(b)
    got = {}
    for p in mir.enumerate_paths(b):
        lab = [a.label for a in p.atoms if a.kind == "variant"]
        fields = set()
        for r in prov(b, {"l": 0, "p": []}):
            pass
        sh = p.shape
        if sh and sh[0] == "assign":
            got[lab[0] if lab else None] = "|".join(mir.prov_strs(b, sh[2].get("op", {"k": "other"})))
    ok = "#Canonical.0" in got.get(("Canonical",), "") and "#Alias.canonical" in got.get(("Alias",), "")
    chk.require(ok, R_TAB, "StoredValue::as_canonical|alias -> its canonical", b.loc(), "as_canonical returns %s" % got, "Canonical(x) -> x; Alias{canonical,..} -> canonical")
    # get: Alias.canonical from the stored value, Canonical from the key
    b = P.body(IS + "::get")
    chk.analysed(b)
    ok = False
    detail = "Alias / Canonical not built"
    aggs = [s for s in q.aggregates_of(P, SV) if s[0].key == b.key]
    kinds = {}
    for body, bb, j, rv in aggs:
        f = {x["name"]: x["op"] for x in rv["fields"]}
        if rv["variant"] == "Alias":
            stored = any("1" in r.fields and r.kind == "call" and r.name.endswith("get_key_value") for cn, r in
                         q.chains(b, f["canonical"], stop=lambda r: r.kind == "call" and r.name.endswith("get_key_value")))
            kinds["Alias"] = stored and any(labs == ("Some",) for roots, labs in q.variant_guards(b, bb))
        if rv["variant"] == "Canonical":
            fromkey = any("0" in r.fields and r.kind == "call" and r.name.endswith("get_key_value") for cn, r in
                          q.chains(b, f["0"], stop=lambda r: r.kind == "call" and r.name.endswith("get_key_value")))
            kinds["Canonical"] = fromkey and any(labs == ("None",) for roots, labs in q.variant_guards(b, bb))
    chk.require(kinds == {"Alias": True, "Canonical": True}, R_TAB, "get|(key, None) canonical / (key, Some(c)) alias of c", b.loc(),
                "get builds %s" % kinds, "record None -> Canonical(key); Some(c) -> Alias{canonical: c}")
    gkv = mir.call_sites(b, ["std::collections::HashMap::get_key_value"])
    chk.require(len(gkv) == 1 and q.all_roots(b, gkv[0][1]["args"][1], lambda r: q.is_param(r, "value")), R_TAB,
                "get|looks up the given name", b.loc(), "get does not look up `value`", "records.get_key_value(value)")


def who_may(P, chk):
    ok, detail = shared.intern_impl_after_absent_lookup(P)
    chk.require(ok, R_WHO, "records.insert only in *_impl after an absent lookup of the same key", "", detail, detail)
    # from_interned referenced only in intern.rs
    bad = set()
    n = 0
    for b in P.bodies.values():
        if not q.not_test(b):
            continue
        for bb, t in b.calls(live_only=False):
            if (callee_def(t) or "").endswith("FromInterned::from_interned"):
                n += 1
                if b.file != "core/src/report/intern.rs":
                    bad.add(b.key)
        for bb, o in b.iter_operands():
            if o.get("k") == "const" and (norm(o.get("fn")) or "").endswith("FromInterned::from_interned") and b.file != "core/src/report/intern.rs":
                bad.add(b.key)
    chk.require(n > 0 and not bad, R_WHO, "FromInterned::from_interned only inside intern.rs", "",
                "from_interned is referenced from %s" % sorted(bad), "%d reference(s), all in intern.rs" % n)


def facades(P, chk):
    CS = "okane_core::report::commodity::CommodityStore"
    for m in ("ensure", "resolve", "insert_canonical", "insert_alias"):
        b = P.body(CS + "::" + m)
        chk.analysed(b)
        calls = [(bb, t) for bb, t in b.calls()]
        ok = len(calls) == 1 and callee(calls[0][1]) == IS + "::" + m and calls[0][1]["dest"]["l"] == 0
        if ok:
            t = calls[0][1]
            for k in range(1, len(t["args"])):
                ok = ok and q.all_roots(b, t["args"][k], lambda r, k=k: r.kind == "param" and r.name.startswith("%d:" % (k + 1)))
        chk.require(ok, R_TAB, "CommodityStore::%s|delegates 1:1" % m, b.loc(), "facade does not simply forward to InternStore::%s" % m, "self.intern.%s(args..)" % m)


def declarations(P, chk):
    b = P.body(BK + "::ProcessAccumulator::process")
    chk.analysed(b)
    loops = b.loops()
    for arm, can_fn, ali_fn, detail_adt in (
            ("Account", IS + "::insert_canonical", IS + "::insert_alias", "AccountDetail"),
            ("Commodity", "okane_core::report::commodity::CommodityStore::insert_canonical",
             "okane_core::report::commodity::CommodityStore::insert_alias", "CommodityDetail")):
        cans = [(bb, t) for bb, t in mir.call_sites(b, [can_fn])
                if any(labs == (arm,) for roots, labs in q.variant_guards(b, bb))]
        alis = [(bb, t) for bb, t in mir.call_sites(b, [ali_fn])
                if any(labs == (arm,) for roots, labs in q.variant_guards(b, bb))]
        key = "process|%s declaration" % arm
        if len(cans) != 1 or len(alis) != 1:
            chk.fail(R_DECL, key + " registers canonical and every alias", b.loc(),
                     "expected one insert_canonical and one insert_alias on the %s arm, found %d / %d" % (arm, len(cans), len(alis)))
            continue
        cbb, ct = cans[0]
        abb, at = alis[0]
        # canonical name = declaration's name
        okn = q.chain_ok(b, ct["args"][1], lambda r: q.is_param(r, "entry") and "name" in r.fields)
        # alias registered for the canonical returned by insert_canonical, inside a loop over details, on Alias
        okc = q.chain_ok(b, at["args"][2], lambda r: r.kind == "call" and r.site == cbb, stop=True,
                         allowed={"map_err", "map"})
        inloop = [h for h, blks in loops.items() if abb in blks]
        okl = bool(inloop)
        okv = any(labs == ("Alias",) for roots, labs in q.variant_guards(b, abb))
        oka = False
        if okl:
            h = min(inloop, key=lambda x: len(loops[x]))
            nx = [bb for bb in loops[h] if b.term(bb)["k"] == "call" and callee_def(b.term(bb)) == "std::iter::Iterator::next"]
            if len(nx) == 1:
                chain = q.chains(b, b.term(nx[0])["args"][0])
                names = set(n.rsplit("::", 1)[-1] for cn, r in chain for n in cn)
                okd = all(q.is_param(r, "entry") and "details" in r.fields for cn, r in chain)
                bad = names & {"filter", "skip", "take", "rev", "step_by", "take_while", "skip_while", "filter_map", "last", "nth"}
                oka = okd and not bad
                # alias string is the loop element's payload
                oka = oka and q.all_roots(b, at["args"][1], lambda r: r.kind == "call" and r.site == nx[0] and "#Alias" in r.fields)
                # the loop is entered on every path from the successful insert_canonical to an Ok return
                cont = [tb for (sb, tb, kind, subject, labs) in q.switch_edges(b)
                        if kind == "variant" and labs == ("Continue",) and
                        any(any(r2.kind == "call" and r2.site == cbb for cn, r2 in
                                q.chains(b, b.term(r.site)["args"][0], stop=lambda x: x.kind == "call" and x.site == cbb))
                            for r in subject if r.kind == "call" and r.site is not None and b.term(r.site)["args"])]
                reach_ok = True
                for tb in cont:
                    reach = b.reach_from(tb, without_blocks=(nx[0],))
                    if any(b.term(x)["k"] == "return" for x in reach):
                        reach_ok = False
                oka = oka and bool(cont) and reach_ok
        chk.require(okn and okc and okl and okv and oka, R_DECL, key + " registers canonical and every alias", b.loc(cbb),
                    "name from declaration=%s, alias->that canonical=%s, in details loop=%s, on Alias detail=%s, loop unavoidable & unfiltered=%s"
                    % (okn, okc, okl, okv, oka),
                    "canonical = insert_canonical(name)?; for d in details { Alias(a) => insert_alias(a, canonical)? }")


def format_target(P, chk):
    """a `format` sub-directive sets the display / rounding precision of the commodity being declared"""
    b = P.body(BK + "::ProcessAccumulator::process")
    can_fn = "okane_core::report::commodity::CommodityStore::insert_canonical"
    cans = [(bb, t) for bb, t in mir.call_sites(b, [can_fn]) if any(labs == ("Commodity",) for roots, labs in q.variant_guards(b, bb))]
    sf = [(bb, t) for bb, t in b.calls() if (callee_def(t) or "").endswith("CommodityStore::set_format")]
    ok = len(cans) == 1 and len(sf) == 1
    detail = "expected one insert_canonical and one set_format on the Commodity arm, found %d / %d" % (len(cans), len(sf))
    if ok:
        cbb, ct = cans[0]
        fbb, ft = sf[0]
        okt = q.chain_ok(b, ft["args"][1], lambda r: r.kind == "call" and r.site == cbb, stop=True, allowed={"map_err", "map"})
        okv = any(labs == ("Format",) for roots, labs in q.variant_guards(b, fbb))
        cs = q.chains(b, ft["args"][2], stop=lambda r: "#Format" in r.fields)
        okval = bool(cs) and all("#Format" in r.fields and "value" in r.fields for cn, r in cs)
        ok = okt and okv and okval
        detail = "format stored for the declared commodity=%s (target: %s), on the Format detail=%s, value is the format amount's number=%s" % (
            okt, mir.prov_strs(b, ft["args"][1]), okv, okval)
    chk.require(ok, R_DECL, "process|Commodity declaration: format belongs to the declared commodity", b.loc(sf[0][0]) if sf else b.loc(), detail,
                "set_format(canonical, format_amount.value)")


def names_resolve(P, chk):
    a = P.body(BK + "::add_transaction")
    # Posting.account comes from ensure(posting.account)
    aggs = [s for s in q.aggregates_of(P, "okane_core::report::transaction::Posting") if q.not_test(s[0]) and not s[0].derived]
    ok = bool(aggs)
    for body, bb, j, rv in aggs:
        f = {x["name"]: x["op"] for x in rv["fields"]}
        ok = ok and q.all_roots(body, f["account"], lambda r: r.kind == "call" and r.name == IS + "::ensure")
    chk.require(ok, R_USE, "report Posting.account = accounts.ensure(name)", a.loc(),
                "a report posting is built with an account that did not come from ensure()", "%d construction site(s)" % len(aggs))
    # commodities of evaluated amounts: from_expr_amount(_mut) resolve through the store
    EV = "okane_core::report::eval::evaluated::Evaluated"
    for fn, meth in ((EV + "::from_expr_amount_mut", "ensure"), (EV + "::from_expr_amount", "resolve")):
        bodies = P.with_closures(fn)
        hit = False
        for b in bodies:
            chk.analysed(b)
            for bb, t in b.calls():
                if (callee(t) or "").endswith("CommodityStore::" + meth):
                    hit = q.chain_ok(b, t["args"][1], lambda r: "commodity" in r.fields, stop=True) or hit
        chk.require(hit, R_USE, "%s|commodity via CommodityStore::%s" % (fn.rsplit("::", 1)[-1], meth), P.body(fn).loc(),
                    "the commodity of a written amount is not looked up through the store", "commodities.%s(amount.commodity)" % meth)


def run(P, chk, tier):
    chk.rule(R_TAB, "intern store decision tables over the lookup state {absent, canonical, alias}")
    chk.rule(R_WHO, "records are written only by the *_impl functions after an absent lookup; typed values are minted only inside intern.rs")
    chk.rule(R_DECL, "account / commodity declarations register the canonical name and every alias, on every path")
    chk.rule(R_E9, "InternError results are propagated")
    chk.rule(R_USE, "names written in postings and amounts are resolved through the store")
    tables_(P, chk)
    who_may(P, chk)
    facades(P, chk)
    declarations(P, chk)
    format_target(P, chk)
    names_resolve(P, chk)
    table = common.load_table("err_chain.toml")
    entries = {e["key"]: e for e in table.get("site", [])}
    bodies = [b for b in P.bodies.values() if q.not_test(b) and b.key.startswith("okane_core::report")]
    n = shared.error_chain(P, chk, bodies, R_E9, entries, set(), error_names=("InternError",))
    chk.floor("InternError-producing calls", n, 4)
