"""C15 — import emits ledger text that reads back as intended (partial)."""
from analysis import mir, q
from analysis import errchain as E
from analysis.mir import norm, callee, callee_def, callee_names, prov
from . import importers

EXPLANATION = (
    "Static flow / structure rules over Txn::to_double_entry, ImportCmd::run and display::rescale.  Line safety: every "
    "text that the importer places into a line-oriented field of the printed transaction (payee, code, comment, "
    "charge payee tag, posting accounts, commodities) is traced back to the Txn field / argument it comes from; the "
    "flow must pass a sanitiser (a local function that inspects the text for line breaks) - today none exists, so "
    "each flow is a listed finding.  Nothing lost: every field of Txn and Charge is read while building the "
    "transaction; the Transaction / Posting literals built there leave no field to a default except the tabled ones.  "
    "Numbers: rescale() asks for max(own scale, configured precision), never less than the value's own scale, and "
    "imported amounts are wrapped unformatted from the importer's Decimal without arithmetic.  Output: ImportCmd::run "
    "prints every imported transaction, in order, through the display context built from the configured precisions "
    "and propagates every error.  One transaction per record: the CSV reader is configured only with reviewed "
    "options (none that drops / merges / rewrites lines), and in every importer each loop iteration that does not "
    "fail pushes exactly one transaction (tabled exception: a CSV row with an empty date).  Equality of the re-read "
    "tree is not decided (value level)."
)

TXN = "okane::import::single_entry::Txn"
TODE = TXN + "::to_double_entry"
RUN = "okane::cmd::ImportCmd::run"
RESCALE = "okane_core::syntax::display::rescale"
SYN = "okane_core::syntax"

R_TEXT = "E7.line-safety"
R_FIELDS = "E8.nothing-dropped"
R_SCALE = "E7.scale-never-lowered"
R_OUT = "E6.every-transaction-printed"

LINE_FIELDS = {
    (SYN + "::Transaction", "payee"), (SYN + "::Transaction", "code"),
    (SYN + "::Posting", "account"),
    (SYN + "::Metadata", "0"), (SYN + "::MetadataValue", "0"), (SYN + "::Metadata", "key"),
    (SYN + "::expr::Amount", "commodity"),
}
TABLED_DEFAULTS = {
    ("Posting", "metadata"): "imported postings carry no metadata of their own except charges",
    ("Posting", "balance"): "only the statement account's posting asserts a balance",
    ("Posting", "clear_state"): None,
}


def short(n):
    return (n or "?").rsplit("::", 1)[-1]


def cone(P):
    """to_double_entry, its closures and the Txn helpers they call"""
    keys = set()
    work = [TODE]
    g = P.callgraph()
    while work:
        k = work.pop()
        if k in keys or k not in P.bodies:
            continue
        b = P.bodies[k]
        if not (k.startswith(TXN + "::") or k.startswith("okane::import::single_entry::")):
            continue
        keys.add(k)
        for c in P.closures_of(k):
            work.append(c.key)
        for n in g.get(k, ()):
            work.append(n)
    return [P.bodies[k] for k in sorted(keys)]


def is_sanitiser(P, key, _cache={}):
    """a local function (okane / okane_core, not a constructor) whose body looks at line breaks"""
    if key in _cache:
        return _cache[key]
    _cache[key] = False
    b = P.bodies.get(key)
    if b is None or key.startswith(SYN + "::"):
        return False
    hit = False
    for x in P.with_closures(key):
        for bb, o in x.iter_operands():
            if o.get("k") == "const":
                if o.get("char") in ("\n", "\r") or o.get("int") in (10, 13) and "u8" in (o.get("ty") or "") \
                        or (o.get("repr") or "") in ('"\\n"', '"\\r\\n"', '"\\r"'):
                    hit = True
        for bb, t in x.calls():
            if short(callee_def(t)) in ("lines", "is_control", "escape_default", "escape_debug"):
                hit = True
    _cache[key] = hit
    return hit


def text_sources(P, b, operand, depth=0, seen=None):
    """-> list of (source description, sanitised?) for a text operand, following calls' first arguments,
    closures' captures and helper functions' return values"""
    out = []
    seen = seen if seen is not None else set()
    for cn, r in q.chains(b, operand):
        san = any(is_sanitiser(P, n) for n in cn)
        if r.kind == "agg" and "std::borrow::Cow::" in r.name and r.site is not None and depth < 6:
            inner = None
            for st in b.blocks[r.site]["stmts"]:
                if st["k"] == "assign" and st["rv"]["k"] == "aggregate" and norm(st["rv"].get("adt") or "") == "std::borrow::Cow" and st["rv"]["fields"]:
                    inner = st["rv"]["fields"][0]["op"]
            if inner is not None:
                out += [(s_, ok or san) for s_, ok in text_sources(P, b, inner, depth + 1, seen)]
                continue
        if r.kind == "param":
            idx, nm = r.name.split(":", 1)
            flds = ".".join(f for f in r.fields if not f.startswith("#") and f != "[]")
            if nm == "self" and r.fields:
                out.append(("Txn.%s" % flds, san))
            elif b.is_closure and depth < 6 and P.closure_parents(b):
                # the closure's argument: elements of the receiver of the combinator it is handed to
                hit = False
                for parent in P.closure_parents(b):
                    for pbb, pt in parent.calls():
                        if any(x.kind in ("agg", "closure") and b.key in x.name for a in pt["args"] for x in prov(parent, a)) and pt["args"]:
                            hit = True
                            out += [(s_, ok or san) for s_, ok in text_sources(P, parent, pt["args"][0], depth + 1, seen)]
                if not hit:
                    out.append(("closure argument `%s`" % nm, san))
            elif b.key != TODE and depth < 6:
                # a helper's parameter: what its callers inside the cone pass
                hit = False
                for cb in cone(P):
                    for cbb, ct in cb.calls():
                        if b.key in callee_names(ct) and len(ct["args"]) >= int(idx) and (cb.key, cbb, idx, flds) not in seen:
                            seen.add((cb.key, cbb, idx, flds))
                            hit = True
                            sub = text_sources(P, cb, ct["args"][int(idx) - 1], depth + 1, seen)
                            out += [("%s%s" % (s_, "." + flds if flds and not s_.endswith(flds) else ""), ok or san) for s_, ok in sub]
                if not hit:
                    out.append(("argument `%s`%s of %s" % (nm, "." + flds if flds else "", short(b.key)), san))
            else:
                out.append(("argument `%s`" % nm, san))
        elif r.kind == "capture":
            out.append(("Txn.%s" % ".".join(f for f in r.fields if not f.startswith("#") and f != "[]") if r.name == "self" else "captured `%s`" % r.name, san))
        elif r.kind == "const":
            out.append(("literal %s" % r.name, True))
        elif r.kind == "call" and r.name in P.bodies and depth < 4 and (r.name, depth) not in seen:
            seen.add((r.name, depth))
            cb = P.bodies[r.name]
            sub = text_sources(P, cb, {"k": "copy", "place": {"l": 0, "p": []}}, depth + 1, seen)
            out += [(s, ok or san) for s, ok in sub]
        elif r.kind == "call":
            out.append(("result of %s" % short(r.name), san))
        else:
            out.append((mir.show_root(r), san))
    return out


def _config_root(b, r):
    """text that comes from the user's configuration, not from the statement"""
    if r.kind in ("param", "capture"):
        nm = r.name.split(":", 1)[-1]
        if nm in ("config", "config_entry") and r.fields:
            return True
    if r.kind == "call" and r.name.endswith("Extractor::extract") and r.fields[:1] in (("account",), ("conversion",)):
        return True   # the rule's own `account:` / `conversion:` (C17 checks the fragment plumbing)
    if r.kind == "call" and r.fields and "account" in r.fields and "select" in r.name:
        return True
    return False


def field_origin(P, field):
    """'config' if every value ever stored in Txn.<field> (first path component) is configuration text,
    'statement' otherwise; with the list of (caller, description)"""
    top = field.split(".")[0]
    setters = []
    for b in P.bodies.values():
        if not b.key.startswith(TXN + "::") or b.is_closure or not q.not_test(b):
            continue
        for i in sorted(b.live_blocks()):
            for st in b.blocks[i]["stmts"]:
                if st["k"] != "assign":
                    continue
                pr = st["place"]["p"]
                if any(e["k"] == "field" and e["name"] == top and norm(e.get("adt") or "") == TXN for e in pr):
                    setters.append((b, st["rv"], None))
                if st["rv"]["k"] == "aggregate" and norm(st["rv"].get("adt") or "") in (TXN, "okane::import::single_entry::Charge"):
                    for f in st["rv"]["fields"]:
                        if f["name"] == top or (top == "charges" and norm(st["rv"]["adt"]).endswith("Charge") and f["name"] == field.split(".")[-1]):
                            setters.append((b, None, f["op"]))
        for bb, t in b.calls():
            if short(callee_def(t)) in ("push", "insert") and t["args"] and \
                    any(q.is_param(r, "self", (top,)) for r in prov(b, t["args"][0])):
                setters.append((b, None, t["args"][-1]))
    seen = []
    allcfg = True
    for b, rv, op in setters:
        if op is None:
            if rv["k"] == "use":
                op = rv["op"]
            elif rv["k"] == "aggregate" and rv["fields"]:
                op = rv["fields"][0]["op"]
            else:
                continue
        params = set()
        for cn, r in q.chains(b, op):
            if r.kind == "param" and not r.name.endswith(":self"):
                params.add(int(r.name.split(":", 1)[0]))
            elif r.kind == "const" or (r.kind == "agg" and (r.name.endswith("::None") or "Vec" in r.name or "HashMap" in r.name)):
                pass
            elif r.kind == "agg" and "Charge" in r.name and r.site is not None:
                for st in b.blocks[r.site]["stmts"]:
                    if st["k"] == "assign" and st["rv"]["k"] == "aggregate" and norm(st["rv"].get("adt") or "").endswith("Charge"):
                        for f in st["rv"]["fields"]:
                            if f["name"] == field.split(".")[-1]:
                                for cn2, r2 in q.chains(b, f["op"]):
                                    if r2.kind == "param" and not r2.name.endswith(":self"):
                                        params.add(int(r2.name.split(":", 1)[0]))
        work = [(b, idx, 0) for idx in params]
        done = set()
        while work:
            fb, idx, depth = work.pop()
            if (fb.key, idx) in done:
                continue
            done.add((fb.key, idx))
            for cb, cbb, ct in q.callers_of(P, fb.key):
                if not q.not_test(cb) or len(ct["args"]) < idx:
                    continue
                cs = q.chains(cb, ct["args"][idx - 1], stop=lambda r, cb=cb: _config_root(cb, r))
                rs = [r for cn, r in cs]
                plain = {"as_ref", "as_deref", "ok_or", "ok_or_else", "unwrap_or", "map", "clone", "to_owned", "into_owned",
                         "as_str", "deref", "borrow", "cloned", "to_string", "into", "from", "branch", "as_mut"}
                plain_ok = all(set(short(n) for n in cn) <= plain for cn, r in cs)
                if rs and plain_ok and depth < 3 and cb.key.startswith(TXN + "::") and not cb.is_closure and \
                        all(r.kind == "param" and not r.name.endswith(":self") and not r.fields for r in rs):
                    # one Txn method handing its own argument to another: what *its* callers pass decides
                    for r in rs:
                        work.append((cb, int(r.name.split(":", 1)[0]), depth + 1))
                    continue
                cfg = bool(rs) and all(_config_root(cb, r) for r in rs) and plain_ok
                seen.append((cb.key, sorted(set(mir.show_root(r) for r in rs))[:2], cfg))
                if not cfg:
                    allcfg = False
    if not seen:
        return "statement", seen
    return ("config" if allcfg else "statement"), seen


def line_safety(P, chk):
    bodies = cone(P)
    for b in bodies:
        chk.analysed(b)
    flows = {}
    for b in bodies:
        # struct literals
        for i, blk in enumerate(b.blocks):
            if blk["cleanup"]:
                continue
            for st in blk["stmts"]:
                if st["k"] != "assign" or st["rv"]["k"] != "aggregate" or st["rv"].get("agg") != "adt":
                    continue
                adt = norm(st["rv"]["adt"])
                for f in st["rv"]["fields"]:
                    if (adt, f["name"]) not in LINE_FIELDS:
                        continue
                    if adt == SYN + "::Metadata" and st["rv"]["variant"] not in ("Comment", "KeyValueTag"):
                        continue
                    # fields copied from a `..new()` base are judged at the constructor call below
                    rs = prov(b, f["op"])
                    if rs and all(r.kind == "call" and r.fields and short(r.name) in ("new", "new_untracked") for r in rs):
                        continue
                    sink = "%s%s.%s" % (short(adt), "::" + st["rv"]["variant"] if st["rv"]["variant"] != short(adt) else "", f["name"])
                    for src, ok in text_sources(P, b, f["op"]):
                        flows.setdefault((sink, src), []).append((ok, b.loc(i)))
        # constructors taking the text
        for bb, t in b.calls():
            cd = callee_def(t) or ""
            if cd == SYN + "::Posting::new_untracked":
                for src, ok in text_sources(P, b, t["args"][0]):
                    flows.setdefault(("Posting.account", src), []).append((ok, b.loc(bb)))
            elif cd == SYN + "::Transaction::new":
                for src, ok in text_sources(P, b, t["args"][1]):
                    flows.setdefault(("Transaction.payee", src), []).append((ok, b.loc(bb)))
    chk.add_sites(sum(len(v) for v in flows.values()))
    # merge the commodity flows: one sink, several amount fields
    merged = {}
    for (sink, src), occ in flows.items():
        if sink == "Amount.commodity" and src.startswith("Txn."):
            merged.setdefault((sink, "Txn amounts"), []).extend(occ)
            merged.setdefault(("_src", sink), []).append(src)
        else:
            merged.setdefault((sink, src), []).extend(occ)
    n = 0
    for (sink, src), occ in sorted(merged.items()):
        if sink == "_src":
            continue
        key = "to_double_entry|%s <- %s" % (sink, src)
        if src.startswith("literal "):
            chk.ok(R_TEXT, key, occ[0][1], "constant text")
            continue
        origin = "statement"
        detail = ""
        if src.startswith("Txn.") and src != "Txn amounts":
            fld = src[4:]
            if fld == "charges" and sink.startswith("MetadataValue"):
                fld = "charges.payee"
            origin, seen = field_origin(P, fld)
            detail = "; ".join("%s passes %s" % (short(c.split("::{closure")[0]) if False else c.rsplit("::", 2)[-2] + "::" + c.rsplit("::", 1)[-1], v) for c, v, cfg in seen[:3])
        elif src.startswith("argument `src_account`"):
            callers = [c for c in q.callers_of(P, TODE) if q.not_test(c[0])]
            cfg = bool(callers)
            for cb, cbb, ct in callers:
                cs = q.chains(cb, ct["args"][1], stop=lambda r: "account" in r.fields)
                okc_ = bool(cs) and all("account" in r.fields and (_config_root(cb, r) or any(n.endswith("ConfigSet::select") for n in [x for cn2, r2 in q.chains(cb, ct["args"][1]) for x in cn2])) for cn, r in cs)
                if not okc_ and cb.is_closure:
                    # the call sits in a closure (try_for_each over the transactions): the account is a captured variable,
                    # judged where the closure is built
                    okc_ = True
                    rsx = q.roots_x(P, cb, ct["args"][1])
                    if not rsx:
                        okc_ = False
                    for body_x, r in rsx:
                        if r.kind == "call" and r.site is not None:
                            # config_set.select(path)?.ok_or_else(..)? .account
                            names_ = [str(r.name)] + [n for cn2, r2 in q.chains(body_x, body_x.term(r.site)["args"][0]) for n in cn2] \
                                if body_x.term(r.site)["args"] else [str(r.name)]
                            if not ("account" in r.fields and (_config_root(body_x, r) or any(n.endswith("ConfigSet::select") for n in names_))):
                                okc_ = False
                        elif not ("account" in r.fields and _config_root(body_x, r)):
                            okc_ = False
                if not okc_:
                    cfg = False
            origin = "config" if cfg else "statement"
            detail = "%d caller(s) pass the configured account" % len(callers)
        if origin == "config":
            chk.ok(R_TEXT, key, occ[0][1], "configuration text, not statement text: " + detail)
            continue
        n += 1
        ok = all(o for o, w in occ)
        chk.require(ok, R_TEXT, key, occ[0][1],
                    "%s reaches the line-oriented field %s without any check for line breaks or field delimiters: "
                    "statement text can break out of its field when the output is read back" % (src, sink),
                    "passes a sanitiser")
    chk.floor("statement-text flows into line-oriented fields", n, 4)


def nothing_dropped(P, chk):
    bodies = cone(P)
    reads = set()
    for b in bodies:
        reads |= mir.field_reads(b)
    for adt in (TXN, "okane::import::single_entry::Charge"):
        a = P.adt(adt)
        for f in a["variants"][0]["fields"]:
            chk.require((adt, f["name"]) in reads, R_FIELDS, "%s.%s is used when building the transaction" % (short(adt), f["name"]), "cli/src/import/single_entry.rs",
                        "to_double_entry never reads %s.%s: what the importers store there is not printed" % (short(adt), f["name"]), "read")
    # literals built there: which fields stay at their default
    b = P.body(TODE)
    n = 0
    for x in bodies:
        for k in (SYN + "::Transaction", SYN + "::Posting", SYN + "::PostingAmount"):
            for ab, abb, aj, rv in q.aggregates_of(P, k):
                if ab.key != x.key:
                    continue
                n += 1
                for f in rv["fields"]:
                    rs = prov(x, f["op"])
                    base = bool(rs) and all(r.kind == "call" and r.fields and short(r.name) in ("new", "new_untracked", "default") for r in rs)
                    if not base:
                        continue
                    # passthrough of a constructor argument is fine
                    ctor = None
                    for r in rs:
                        ctor = P.maybe_body(r.name)
                    passthrough = False
                    if ctor is not None:
                        for cb, cbb, cj, crv in q.aggregates_of(P, k):
                            if cb.key == ctor.key:
                                for cf in crv["fields"]:
                                    if cf["name"] == f["name"]:
                                        crs = prov(ctor, cf["op"])
                                        passthrough = bool(crs) and all(y.kind == "param" for y in crs)
                    key = "%s|%s.%s" % (short(x.key.split("::{closure")[0]), short(k), f["name"])
                    if passthrough:
                        chk.ok(R_FIELDS, key, x.loc(abb), "constructor argument")
                    elif (short(k), f["name"]) in TABLED_DEFAULTS and TABLED_DEFAULTS[(short(k), f["name"])]:
                        chk.ok(R_FIELDS, key, x.loc(abb), "table: " + TABLED_DEFAULTS[(short(k), f["name"])])
                    else:
                        chk.fail(R_FIELDS, key, x.loc(abb), "%s.%s of an imported transaction is left to its default" % (short(k), f["name"]))
    chk.floor("syntax literals built by to_double_entry", n, 6)


def scale_rule(P, chk):
    b = P.body(RESCALE)
    chk.analysed(b)
    rs_calls = [(bb, t) for bb, t in b.calls() if short(callee_def(t)) == "rescale"]
    ok = len(rs_calls) == 1
    detail = "expected one rescale call, found %d" % len(rs_calls)
    if ok:
        bb, t = rs_calls[0]
        tr = q.arith(b, t["args"][1])
        ok = tr[0] == "call" and short(tr[1]) == "max" and len(tr[3]) == 2
        detail = "requested scale is %s" % q.arith_str(tr)
        if ok:
            own = [a for a in tr[3] if a[0] == "call" and short(a[1]) == "scale"]
            ok = len(own) == 1
            if ok:
                # scale() of the value being rescaled (same local)
                st = b.term(own[0][2])
                ok = q.named_local(b, st["args"][0]) == q.named_local(b, t["args"][0])
                detail = "max() does not include the scale of the value being rescaled"
    chk.require(ok, R_SCALE, "display::rescale|scale = max(own scale, configured precision)", b.loc(), detail,
                "v.rescale(max(v.scale(), precision))")
    rs0 = prov(b, {"l": 0, "p": []})
    ok2 = bool(rs0) and all(r.kind == "param" and r.fields[:1] == ("value",) and set(r.via) <= {"clone", "φ"} for r in rs0)
    chk.require(ok2, R_SCALE, "display::rescale|returns the amount's own value, rescaled", b.loc(),
                "result is %s" % sorted(mir.show_root(r) for r in rs0), "x.value.clone() rescaled in place")
    # imported numbers are wrapped without arithmetic
    a = P.body("okane::import::single_entry::as_syntax_amount")
    chk.analysed(a)
    aggs = [x for x in q.aggregates_of(P, SYN + "::expr::Amount") if x[0].key == a.key]
    ok3 = len(aggs) == 1
    detail = "expected one Amount literal"
    if ok3:
        f = {x["name"]: x["op"] for x in aggs[0][3]["fields"]}
        cs = q.chains(a, f["value"])
        ok3 = bool(cs) and all(set(short(n) for n in cn) <= {"unformatted", "into_borrowed", "from", "into"} and r.kind == "param" for cn, r in cs)
        detail = "value = %s" % [(list(map(short, cn)), mir.show_root(r)) for cn, r in cs]
    chk.require(ok3, R_SCALE, "as_syntax_amount|value is the importer's Decimal, unformatted, unchanged", a.loc(), detail, "PrettyDecimal::unformatted(amount.value)")


def output_rule(P, chk):
    b = P.body(RUN)
    if not [1 for bb, t in b.calls() if TODE in callee_names(t)]:
        # `xacts.iter().try_for_each(|x| ..)`: judge run with the combinator written out as the loop it is
        from analysis import desugar
        b = desugar.desugared(P, RUN, closures_only=True)
    chk.analysed(b)
    imp = [(bb, t) for bb, t in b.calls() if callee_def(t) == "okane::import::import"]
    tde = [(bb, t) for bb, t in b.calls() if TODE in callee_names(t)]
    ok = len(imp) == 1 and len(tde) == 1
    if not ok:
        chk.anchor_missing("ImportCmd::run: expected one import::import and one to_double_entry call, found %d / %d" % (len(imp), len(tde)))
        return
    ibb, it = imp[0]
    tbb, tt = tde[0]
    loops = b.loops()
    inl = [h for h, blks in loops.items() if tbb in blks]
    ok = len(inl) == 1
    detail = "to_double_entry is not called inside exactly one loop"
    if ok:
        nexts = [(x, b.term(x)) for x in loops[inl[0]] if b.term(x)["k"] == "call" and callee_def(b.term(x)) == "std::iter::Iterator::next"]
        ok = len(nexts) == 1
        if ok:
            cs = q.chains(b, nexts[0][1]["args"][0], stop=lambda r: r.kind == "call" and r.site == ibb)
            names = [short(n) for cn, r in cs for n in cn]
            bad = set(names) & {"rev", "skip", "take", "filter", "step_by", "filter_map", "take_while", "skip_while", "dedup"}
            ok = not bad and bool(cs) and all(r.kind == "call" and r.site == ibb for cn, r in cs)
            detail = "transactions are traversed through %s" % names
            ok = ok and q.all_roots(b, tt["args"][0], lambda r: r.kind == "call" and r.site == nexts[0][0])
    chk.require(ok, R_OUT, "ImportCmd::run|every imported transaction, in order", b.loc(tbb), detail, "for xact in xacts")
    # printed through the context built from the configured precisions
    wr = [(bb, t) for bb, t in b.calls() if short(callee_def(t)) == "as_display"]
    okw = len(wr) == 1 and tbb in b.reach_from(0) and wr[0][0] in b.reach_from(tbb)
    if okw:
        wbb, wt = wr[0]
        okw = any(r.kind == "call" and r.site == tbb for r in prov(b, wt["args"][1]))
        ctxl = q.named_local(b, wt["args"][0])
        aggs = [x for x in q.aggregates_of(P, SYN + "::display::DisplayContext") if x[0].key == RUN]
        okc = len(aggs) == 1
        if okc:
            cs = q.chains(b, aggs[0][3]["fields"][0]["op"], stop=lambda r: "commodity" in r.fields)
            okc = bool(cs) and all(any(short(n) == "collect" for n in cn) and not set(short(n) for n in cn) & {"filter", "take", "skip"} for cn, r in cs) and \
                all("commodity" in r.fields and "format" in r.fields for cn, r in cs)
            if not okc:
                # the map filled by an explicit loop: for (c, spec) in &config.format.commodity { m.insert(c.clone(), spec.precision) }
                ml = q.named_local(b, aggs[0][3]["fields"][0]["op"])
                ins = [(bb, t) for bb, t in b.calls() if short(callee_def(t)) == "insert" and "HashMap" in (callee_def(t) or "")
                       and q.named_local(b, t["args"][0]) == ml]
                lp = b.loops()
                okc = len(ins) == 1 and ml is not None
                if okc:
                    ibb2, it2 = ins[0]
                    hs = [h for h, blks in lp.items() if ibb2 in blks]
                    okc = bool(hs)
                    if okc:
                        blks = lp[min(hs, key=lambda h: len(lp[h]))]
                        nx2 = [x for x in blks if b.term(x)["k"] == "call" and callee_def(b.term(x)) == "std::iter::Iterator::next"]
                        okc = len(nx2) == 1
                        if okc:
                            cs2 = q.chains(b, b.term(nx2[0])["args"][0], stop=lambda r: "commodity" in r.fields)
                            okc = bool(cs2) and all("commodity" in r.fields and "format" in r.fields for cn, r in cs2) and \
                                not set(short(n) for cn, r in cs2 for n in cn) & {"filter", "take", "skip", "filter_map", "rev", "step_by"} and \
                                q.all_roots(b, it2["args"][1], lambda r: r.kind == "call" and r.site == nx2[0]) and \
                                q.all_roots(b, it2["args"][2], lambda r: r.kind == "call" and r.site == nx2[0] and r.fields[-1:] == ("precision",))
                            # every iteration inserts
                            for (u, v) in b.back_edges():
                                if v in hs and u in b.reach_from(v, without_blocks=(ibb2,)) and u != v:
                                    okc = False
        okw = okw and okc
    chk.require(okw, R_OUT, "ImportCmd::run|printed with the configured precisions", b.loc(), "the transaction is not written through DisplayContext{precisions from config.format.commodity}",
                "writeln!(w, ctx.as_display(&xact))")
    # errors propagate
    for (bb, t), what in ((tde[0], "to_double_entry"),):
        uses = E.consumption(P, b, bb)
        bad = [u for u in uses if u.kind not in E.GOOD]
        chk.require(not bad, R_OUT, "ImportCmd::run|%s error propagated" % what, b.loc(bb), "; ".join(u.detail for u in bad), "`?`")
    wf = [(bb, t) for bb, t in b.calls() if short(callee_def(t)) == "write_fmt" and bb in loops.get(inl[0] if inl else -1, ())]
    okp = bool(wf)
    for bb, t in wf:
        uses = E.consumption(P, b, bb)
        if [u for u in uses if u.kind not in E.GOOD]:
            okp = False
    chk.require(okp, R_OUT, "ImportCmd::run|write errors propagated", b.loc(), "a failed write of a transaction is ignored", "writeln!(..)?")


def run(P, chk, tier):
    chk.rule(R_TEXT, "statement text reaches line-oriented ledger fields only through a sanitiser")
    chk.rule(R_FIELDS, "every Txn / Charge field is used and no printed field is left to a default")
    chk.rule(R_SCALE, "printed scale is max(own scale, configured precision); imported values are wrapped unchanged")
    chk.rule(R_OUT, "ImportCmd::run prints every imported transaction in order with the configured precisions and propagates errors")
    line_safety(P, chk)
    nothing_dropped(P, chk)
    scale_rule(P, chk)
    output_rule(P, chk)
    chk.rule(importers.R_ROWS, "each importer turns every statement record into exactly one transaction; reader options cannot drop records")
    importers.csv_reader(P, chk)
    importers.csv_number_sign(P, chk, R_SCALE)
    importers.record_loop(P, chk, importers.CSV_IMPORT, "CSV record", skip_guards=(("is_empty", True),))
    importers.record_loop(P, chk, "okane::import::iso_camt053::import", "entry / detail", only_if=(("is_empty", True),),
                          not_record_loops=("statements",))
    importers.record_loop(P, chk, "okane::import::viseca::import", "statement entry")
