"""Byte ranges handed to the snippet renderer must be char boundaries (C06 panic surface, C14).

annotate_snippets slices the source text with the range it is given: a bound that is not a char
boundary panics inside the dependency.  Offsets produced by the parser (token starts, with_span
ranges, str::len) are boundaries, and so are differences / min / max of such offsets relative to a
slice that itself starts at one.  What is *not* is an offset plus or minus a literal number of
bytes, unless the result is filtered through is_char_boundary.  The rule follows every range that
reaches a `span(..)` call of annotate_snippets back to where its bounds are computed and rejects
constant-offset arithmetic that is not so filtered."""
from analysis import mir, q
from analysis.mir import norm, callee, callee_def, callee_names, prov

R_SPAN = "E3.char-boundary"


def short(n):
    return (n or "?").rsplit("::", 1)[-1]


def closure_calls_boundary_test(P, b, operand):
    for r in prov(b, operand):
        c = None
        if r.kind == "closure":
            c = P.bodies.get(r.name)
        elif r.kind == "agg" and r.name.startswith("closure:"):
            c = P.bodies.get(r.name[len("closure:"):])
        if c is not None and any(short(callee_def(t)) == "is_char_boundary" for bb, t in c.calls()):
            return True
    if operand.get("k") == "const" and operand.get("closure"):
        c = P.bodies.get(norm(operand["closure"]))
        if c is not None and any(short(callee_def(t)) == "is_char_boundary" for bb, t in c.calls()):
            return True
    return False


def unsafe_nodes(P, b, tree, out, depth=0):
    """collect `offset +/- constant` nodes not below a boundary-filtering search"""
    k = tree[0]
    if k in ("add", "sub", "mul"):
        l, r = tree[1], tree[2]
        if l[0] == "const" or r[0] == "const":
            if not (l[0] == "const" and r[0] == "const"):
                out.append(q.arith_str(tree))
        unsafe_nodes(P, b, l, out, depth + 1)
        unsafe_nodes(P, b, r, out, depth + 1)
    elif k == "call":
        name = short(tree[1])
        if name in ("find", "rfind", "position", "rposition", "find_map", "skip_while", "take_while", "filter"):
            t = b.term(tree[2])
            if any(closure_calls_boundary_test(P, b, a) for a in t["args"][1:]):
                return
        if name in ("checked_add", "checked_sub", "saturating_add", "saturating_sub", "wrapping_add", "wrapping_sub"):
            if any(a[0] == "const" for a in tree[3]) and not all(a[0] == "const" for a in tree[3]):
                out.append(q.arith_str(tree))
        if name in ("floor_char_boundary", "ceil_char_boundary"):
            return
        for a in tree[3]:
            unsafe_nodes(P, b, a, out, depth + 1)
    elif k == "phi":
        for a in tree[1]:
            unsafe_nodes(P, b, a, out, depth + 1)
    elif k == "try":
        unsafe_nodes(P, b, tree[1], out, depth + 1)


def range_aggregates(b, operand, depth=0, seen=None):
    """Range aggregates (bb, rvalue) an operand may hold, following uses / clones inside the body;
    plus unresolved roots (params / fields / calls) for inter-procedural continuation"""
    aggs, rest = [], []
    for r in prov(b, operand):
        if r.kind == "agg" and r.name.startswith("std::ops::Range") and r.site is not None:
            for st in b.blocks[r.site]["stmts"]:
                if st["k"] == "assign" and st["rv"]["k"] == "aggregate" and norm(st["rv"].get("adt") or "").startswith("std::ops::Range"):
                    aggs.append((r.site, st["rv"]))
        else:
            rest.append(r)
    return aggs, rest


class _Tracer:
    def __init__(self, P):
        self.P = P
        self.fn_cache = {}
        self.field_cache = {}

    def operand(self, wb, op, depth=0):
        """-> (bad, srcs) for a Range-valued operand of body wb"""
        P = self.P
        bad, srcs = [], []
        aggs, rest = range_aggregates(wb, op)
        for abb, rv in aggs:
            for f in rv["fields"]:
                tree = q.arith(wb, f["op"])
                u = []
                unsafe_nodes(P, wb, tree, u)
                srcs.append("%s.%s=%s" % (short(wb.key), f["name"], q.arith_str(tree)[:80]))
                for x in u:
                    bad.append("%s: bound `%s` computed as %s" % (wb.key, f["name"], x))
        for r in rest:
            if depth > 4:
                continue
            if r.kind in ("param", "capture") and r.fields and not r.fields[-1].startswith("#"):
                b2, s2 = self.field(r.fields[-1], depth)
                bad += b2
                srcs += s2
            elif r.kind == "call" and r.name in P.bodies:
                b2, s2 = self.function(r.name, depth)
                bad += b2
                srcs += s2
        return bad, srcs

    def function(self, key, depth):
        if key in self.fn_cache:
            return self.fn_cache[key]
        self.fn_cache[key] = ([], [])
        cb = self.P.bodies[key]
        res = self.operand(cb, {"k": "copy", "place": {"l": 0, "p": []}}, depth + 1)
        self.fn_cache[key] = res
        return res

    def field(self, fld, depth):
        if fld in self.field_cache:
            return self.field_cache[fld]
        self.field_cache[fld] = ([], [])
        bad, srcs = [], []
        for ab in self.P.bodies.values():
            if not q.not_test(ab):
                continue
            for i, blk in enumerate(ab.blocks):
                if blk["cleanup"]:
                    continue
                for st in blk["stmts"]:
                    if st["k"] == "assign" and st["rv"]["k"] == "aggregate" and st["rv"].get("agg") == "adt":
                        for f in st["rv"]["fields"]:
                            if f["name"] == fld and f["op"].get("k") in ("copy", "move") and \
                                    "Range<usize>" in ab.local_ty(f["op"]["place"]["l"]):
                                b2, s2 = self.operand(ab, f["op"], depth + 1)
                                bad += b2
                                srcs += s2
        self.field_cache[fld] = (bad, srcs)
        return bad, srcs


def check(P, chk, floor=8):
    chk.rule(R_SPAN, "ranges given to the snippet renderer are built from parser offsets without unfiltered +/- constant byte arithmetic")
    sinks = []
    for b in P.bodies.values():
        if not q.not_test(b) or not b.crate.startswith("okane_core"):
            continue
        for bb, t in b.calls():
            cd = callee_def(t) or ""
            if "annotate_snippets" in cd and short(cd) == "span":
                sinks.append((b, bb, t))
    chk.add_sites(len(sinks))
    chk.floor("snippet span call sites", len(sinks), floor)
    tr = _Tracer(P)
    n = 0
    for b, bb, t in sorted(sinks, key=lambda s: (s[0].key, s[1])):
        chk.analysed(b)
        n += 1
        bad, srcs = tr.operand(b, t["args"][1])
        key = "%s|span #%d" % (b.key, n)
        chk.require(not bad, R_SPAN, key, b.loc(bb), "; ".join(sorted(set(bad))[:2]) +
                    " (a multi-byte character at that position makes the renderer slice inside it and panic)",
                    "; ".join(srcs[:3]) or "bounds are parser offsets")
