"""C13 — same input, same output: runs are deterministic.

E4: every iteration over a hash-ordered container in the three crates is followed to its
consumer and must be order-insensitive by a checked idiom or a reviewed table entry;
ambient nondeterminism APIs are enumerated and must be tabled.
"""
from analysis import mir, q, hashorder as H, panics
from analysis.mir import norm, callee, callee_def, callee_names, prov
from . import common

EXPLANATION = (
    "Static hash-order flow analysis over MIR: every call that produces an iterator over a std "
    "HashMap/HashSet (directly, through a local wrapper type, or through a local function returning "
    "one) is an origin; the iterator value is followed through the typed adaptor chain to its "
    "consumer, which is fingerprinted by the calls it makes per element and by how it can leave "
    "early.  The consumer must be order-insensitive by a checked idiom (order-free reduction, "
    "collect into a map/set, collect-then-sort, single element under a len<=1 guard, returned to "
    "callers that are themselves tracked) or by a reviewed table entry keyed on that fingerprint; "
    "anything else is a violation or a listed known finding.  Calls to ambient nondeterminism "
    "APIs (clock, environment, randomness, directory listing, threads) must be tabled."
)

R_ORD = "E4.hash-order"
R_AMB = "E4.ambient"

FLOOR_ORIGINS = 30

IMPURE = ("push", "insert", "write", "fmt", "extend", "entry", "assign", "append", "?", "exit", "print")

SORTS = set(norm(x) for x in (
    "core::slice::sort", "std::slice::sort", "std::slice::sort_by", "std::slice::sort_by_key",
    "core::slice::sort_unstable", "core::slice::sort_unstable_by", "core::slice::sort_unstable_by_key",
    "std::slice::sort_by_cached_key", "core::slice::<impl [T]>::sort_unstable",
))

AMBIENT = {
    "std::time::SystemTime::now": "clock", "std::time::Instant::now": "clock",
    "chrono::Local::now": "clock", "chrono::Utc::now": "clock", "chrono::offset::Local::now": "clock",
    "chrono::offset::Utc::now": "clock",
    "std::env::var": "env", "std::env::var_os": "env", "std::env::vars": "env", "std::env::args": "env",
    "std::env::args_os": "env", "std::env::current_dir": "env", "std::env::temp_dir": "env",
    "std::fs::read_dir": "dirlist", "std::thread::spawn": "thread", "std::process::id": "pid",
    "std::collections::hash_map::RandomState::new": "random", "std::hash::RandomState::new": "random",
    "std::thread::current": "thread", "env_logger::init": "env", "clap::Parser::parse": "env",
    "clap::Parser::try_parse": "env",
}
AMBIENT = {norm(k): v for k, v in AMBIENT.items()}


def fp_pure(fp):
    return not any(any(m in x for m in IMPURE) for x in fp)


def len_le_one_guard(body, site, map_operand):
    """a fact `map.len() <= 1` (or len in {0,1}) holds on every path to site"""
    def is_len_of_map(o):
        for r in prov(body, o):
            if not (r.kind == "call" and r.name in ("std::collections::HashMap::len", "std::collections::HashSet::len") and r.site is not None):
                return False
            if not panics.same_root_loose(body, body.term(r.site)["args"][0], map_operand):
                return False
        return bool(prov(body, o))
    for rel, lo, ro in q.rel_in_force(body, site):
        c = ro.get("int") if ro.get("k") == "const" else None
        if c is not None and is_len_of_map(lo):
            if (rel == "Le" and c <= 1) or (rel == "Lt" and c <= 2) or (rel == "Eq" and c <= 1):
                return True
        c = lo.get("int") if lo.get("k") == "const" else None
        if c is not None and is_len_of_map(ro):
            if (rel == "Ge" and c <= 1) or (rel == "Gt" and c <= 2) or (rel == "Eq" and c <= 1):
                return True
    for a in mir.guards_at(body, site):
        if a.kind == "call" and a.subject[0] in ("std::collections::HashMap::len", "std::collections::HashSet::len"):
            ct = body.term(a.subject[2])
            if panics.same_root_loose(body, ct["args"][0], map_operand):
                if a.label and all(str(x) in ("0", "1") for x in a.label):
                    return True
    return False



# calls a sort key / comparator may make without merging distinct elements
KEY_PROJECTIONS = {"as_str", "as_ref", "deref", "borrow", "clone", "as_path", "to_owned", "to_string", "as_bytes", "as_os_str",
                   "cmp", "partial_cmp", "then", "then_with", "reverse", "into", "from", "as_deref", "as_undecorated", "0", "1"}


def sort_key_lossy(P, body, t):
    """for sort_by_key / sort_by / sort_by_cached_key: a key or comparator that transforms the element (lower-casing,
    length, prefix, ...) can make distinct elements compare equal; ties then keep the incoming (hash) order"""
    if P is None or len(t["args"]) < 2:
        return None
    cb = None
    a = t["args"][1]
    if a.get("k") == "const" and a.get("closure"):
        cb = P.bodies.get(norm(a["closure"]))
    else:
        for r in prov(body, a):
            if r.kind == "closure":
                cb = P.bodies.get(r.name)
            elif r.kind == "agg" and r.name.startswith("closure:"):
                cb = P.bodies.get(r.name[len("closure:"):])
    if cb is None:
        return None
    for bb, ct in cb.calls():
        nm = (callee_def(ct) or "?").rsplit("::", 1)[-1]
        if nm not in KEY_PROJECTIONS:
            return "sort key / comparator calls %s" % nm
    return None


def collect_then_sort(body, collect_bb, P=None):
    """the Vec produced at collect_bb is sorted before any other use (incl. being returned)"""
    def from_collect(o):
        rs = prov(body, o)
        return bool(rs) and all(r.kind == "call" and r.site == collect_bb and not r.fields for r in rs)

    def mentions_collect(o):
        return any(r.kind == "call" and r.site == collect_bb for r in prov(body, o))

    sorts = []
    others = []
    for bb, t in body.calls():
        if bb == collect_bb:
            continue
        if not any(mentions_collect(a) for a in t["args"]):
            continue
        cn = callee_names(t)
        if cn & mir._transparent():
            continue
        if cn & SORTS and from_collect(t["args"][0]):
            why = sort_key_lossy(P, body, t)
            if why:
                return None   # a key that can tie leaves tied elements in hash order
            sorts.append(bb)
        else:
            others.append(bb)
    if not sorts:
        return None
    for u in others:
        if not any(body.must_pass_block(u, s) for s in sorts):
            return None
    # returned?
    if any(r.kind == "call" and r.site == collect_bb for r in prov(body, {"l": 0, "p": []})):
        for rb in body.return_blocks():
            if not any(body.must_pass_block(rb, s) for s in sorts):
                return None
    return "collected into a Vec that is sorted (%s) before any other use" % ", ".join(
        sorted(set(panics.short_callee(callee(body.term(s))) for s in sorts)))


def classify(P, o, cons, adts):
    """-> reason if a checked idiom makes this consumer order-insensitive, else None"""
    body = o.body
    kind = cons.kind
    if kind == "returned":
        if H.is_hash_ty(body.local_ty(0), adts):
            return "returned as a hash-ordered iterator type; every caller is tracked as an origin"
        return None
    if kind == "unused" and o.dest_ty == "retain":
        t = body.term(o.bb)
        fp = set()
        for a in t["args"]:
            if a.get("k") == "const" and a.get("closure"):
                cb = P.bodies.get(norm(a["closure"]))
                if cb:
                    fp |= H.effect_fingerprint(P, cb, cb.live_blocks(), 1)
        if fp_pure(fp):
            return "retain with a side-effect-free predicate"
        return None
    if kind == "for":
        # for (k, v) in &map { other.insert(k, ..) }: the only effect of the loop is filling a keyed container, whose
        # content does not depend on the order of insertion (the keys come from a map: they are distinct)
        fp = set(cons.fingerprint or ())
        inserts = {x for x in fp if x in ("HashMap::insert", "BTreeMap::insert", "HashSet::insert", "BTreeSet::insert")}
        if inserts and fp_pure(fp - inserts):
            # the key inserted is the iterated element's own key (through clone / as_str / to_string only)
            keyed = True
            n_ins = 0
            for bb, t in body.calls():
                if any((callee_def(t) or "").endswith(x) for x in inserts) and len(t["args"]) >= 2:
                    n_ins += 1
                    rs = prov(body, t["args"][1])
                    if not rs or not all(r.kind == "call" and str(r.name).endswith("::next") for r in rs):
                        keyed = False
            if keyed and n_ins:
                return "the loop only inserts the iterated keys into a keyed container (%s)" % ", ".join(sorted(inserts))
        return None
    if kind.startswith("call:"):
        meth = cons.detail.split("->")[0]
        if meth in H.ORDER_FREE and fp_pure(cons.fingerprint):
            return "order-free reduction `%s` with side-effect-free closure" % meth
        if meth in ("collect", "from_iter"):
            tgt = body.local_ty(body.term(cons.bb)["dest"]["l"])
            if tgt.startswith(("std::collections::HashMap<", "std::collections::HashSet<",
                               "std::collections::BTreeMap<", "std::collections::BTreeSet<")):
                return "collected into a keyed container (" + tgt.split("<")[0].rsplit("::", 1)[-1] + ")"
            if tgt.startswith("std::vec::Vec<"):
                return collect_then_sort(body, cons.bb, P)
        return None
    if kind == "next-once":
        t = body.term(o.bb)
        if t["args"] and len_le_one_guard(body, cons.bb, t["args"][0]):
            return "single element taken under a len() <= 1 guard on the same map"
        why = exactly_taken_guard(body, o.bb, cons.bb)
        if why:
            return why
        return None
    return None


def exactly_taken_guard(body, origin_bb, next_bb):
    """`match (it.next(), it.next()) { (Some(x), None) => use(x), .. }`: the element taken at next_bb is only looked at
    where the following next() on the same iterator returned None (the container then holds exactly the elements taken,
    so which one came first cannot matter); an element that is never looked at only tells whether there is one"""
    def from_origin(op):
        cs = q.chains(body, op, stop=lambda r: r.kind == "call" and r.site == origin_bb)
        return bool(cs) and all(r.kind == "call" and r.site == origin_bb for cn, r in cs)
    nexts = [bb for bb, t in body.calls() if (callee_def(t) or "") == "std::iter::Iterator::next" and t["args"] and from_origin(t["args"][0])]
    if next_bb not in nexts or any(bb in blks for blks in body.loops().values() for bb in nexts):
        return None
    later = [n for n in nexts if n != next_bb and body.must_pass_block(n, next_bb)]

    def reads_payload(op):
        return any(r.kind == "call" and r.site == next_bb and r.fields[:1] == ("#Some",) and len(r.fields) >= 2 for r in prov(body, op))
    readers = []
    for i in sorted(body.live_blocks()):
        blk = body.blocks[i]
        for st in blk["stmts"]:
            if st["k"] != "assign":
                continue
            rv = st["rv"]
            ops = [rv.get(k) for k in ("op", "l", "r", "x") if isinstance(rv.get(k), dict)] + [f["op"] for f in rv.get("fields", [])]
            if rv["k"] in ("ref", "copyforderef") and "place" in rv:
                ops.append({"k": "copy", "place": rv["place"]})
            if rv["k"] == "discriminant":
                continue
            if any(o_.get("k") in ("copy", "move") and o_["place"]["p"] and reads_payload(o_) for o_ in ops):
                readers.append(i)
    def reaches(op, depth=0):
        """the operand is the next() result or something computed from it by calls taking it as first argument"""
        for r in prov(body, op):
            if r.kind == "call" and r.site == next_bb:
                return True
            if r.kind == "call" and r.site is not None and depth < 6 and body.term(r.site)["args"] and \
                    reaches(body.term(r.site)["args"][0], depth + 1):
                return True
        return False
    for i, t in body.calls():
        if i == next_bb:
            continue
        nm = (callee_def(t) or "").rsplit("::", 1)[-1]
        if nm in ("is_some", "is_none"):
            continue
        if any(a.get("k") in ("copy", "move") and reaches(a) for a in t["args"]):
            readers.append(i)       # handed to a combinator / `?` / a conversion: what it holds matters there
    if not readers:
        return "the element taken is never looked at (only whether there is one)"
    if not later:
        return None
    # only sound for ONE element: with two elements taken and looked at, which of them came first is hash order again
    for other in nexts:
        if other == next_bb:
            continue
        for i in sorted(body.live_blocks()):
            for st in body.blocks[i]["stmts"]:
                if st["k"] != "assign" or st["rv"]["k"] == "discriminant":
                    continue
                rv = st["rv"]
                ops = [rv.get(k) for k in ("op", "l", "r", "x") if isinstance(rv.get(k), dict)] + [f["op"] for f in rv.get("fields", [])]
                if rv["k"] in ("ref", "copyforderef") and "place" in rv:
                    ops.append({"k": "copy", "place": rv["place"]})
                for o_ in ops:
                    if o_.get("k") in ("copy", "move") and o_["place"]["p"] and any(
                            r.kind == "call" and r.site == other and r.fields[:1] == ("#Some",) and len(r.fields) >= 2 for r in prov(body, o_)):
                        return None
    for i in readers:
        ok = False
        for a in mir.guards_at(body, i):
            if a.kind == "variant" and tuple(a.label) == ("None",) and any(r.kind == "call" and r.site in later for r in a.subject):
                ok = True
        if not ok:
            return None
    return "the element is only looked at where the following next() on the same iterator returned None (exactly one element)"


# an enumeration of origins and consumers: the written-out views add nothing to it
PRIMARY_VIEW_ONLY = True


def _family_key(k):
    import re
    parts = k.split("|")
    if len(parts) < 3:
        return k
    parts[1] = re.sub(r"::(iter_mut|values_mut|values|keys|into_iter|drain|into_values|into_keys)$", "::iter", parts[1])
    # the same container reached through a wrapper of its iterator (Amount::iter over self.values)
    parts[1] = "*::" + parts[1].rsplit("::", 1)[-1]
    parts = [p for p in parts if not p.startswith("via ")]
    # `for x in it { f(x) }` and `it.for_each(|x| f(x))` are the same consumer; the closure's own return is not an effect
    parts = ["for:loop" if p in ("call:Iterator::for_each:for_each", "call:Iterator::try_for_each:try_for_each") else p for p in parts]
    parts = ["{" + ",".join(x for x in p[1:-1].split(",") if x not in ("return", "λreturn", "exit")) + "}" if p.startswith("{") and p.endswith("}") else p
             for p in parts]
    return re.sub(r"#\d+$", "", "|".join(parts))


def run(P, chk, tier):
    chk.rule(R_ORD, "every hash-order origin reaches only order-insensitive consumers (checked idiom or reviewed table entry keyed on the consumer fingerprint)")
    chk.rule(R_AMB, "every call to an ambient nondeterminism API is tabled")
    table = common.load_table("hash_order.toml")
    entries = {e["key"]: e for e in table.get("site", [])}
    amb_entries = {e["key"]: e for e in table.get("ambient", [])}
    used = set()
    adts = H.hash_adts(P)
    bodies = sorted((b for b in P.bodies.values() if q.not_test(b)), key=lambda b: b.key)
    chk.analysed(*bodies)
    orig = H.origins(P, bodies, adts)
    chk.floor("hash-order origins", len(orig), FLOOR_ORIGINS)
    chk.add_sites(len(orig))
    chk.extra["hash_ordered_local_types"] = sorted(adts)
    seen = {}
    for o in sorted(orig, key=lambda o: (o.body.key, o.bb)):
        conss = H.follow(P, o.body, o.bb, adts)
        # the positional adaptors only matter together with the final consumer
        finals = [c for c in conss if c.kind != "positional-adaptor"]
        positional = sorted(set(c.detail for c in conss if c.kind == "positional-adaptor"))
        for c in finals:
            desc = "%s|%s|%s:%s" % (o.body.key, o.callee_name, c.kind, c.detail if c.kind != "for" else "loop")
            if positional:
                desc += "|via " + "+".join(positional)
            if c.fingerprint:
                desc += "|{" + ",".join(c.fingerprint) + "}"
            n = seen.get(desc, 0) + 1
            seen[desc] = n
            key = desc if n == 1 else "%s#%d" % (desc, n)
            where = o.body.loc(c.bb)
            why = None if positional and c.kind != "next-once" else classify(P, o, c, adts)
            if positional and c.kind == "next-once":
                why = None
            if why:
                chk.ok(R_ORD, key, where, "idiom: " + why)
                continue
            e = entries.get(key)
            if e is not None:
                used.add(key)
                chk.ok(R_ORD, key, where, "table: " + e["reason"])
                continue
            # the reviewed fact is about what the consumer does with the elements; it does not depend on which
            # projection of the map is iterated (iter / values / keys / *_mut) nor on how the same elements are reached
            # (zip+skip or two next() calls)
            e2 = [k for k in entries if _family_key(k) == _family_key(key)]
            if e2:
                used.add(e2[0])
                chk.ok(R_ORD, key, where, "table (same consumer, other projection of the container: %s): %s" % (e2[0].split("|")[1], entries[e2[0]]["reason"]))
                continue
            chk.fail(R_ORD, key, where,
                     "order of a hash-ordered container reaches an order-sensitive or unreviewed consumer (%s %s)"
                     % (c.kind, c.detail))
    # ambient nondeterminism
    namb = 0
    for b in bodies:
        for bb, t in b.calls():
            for n in callee_names(t):
                if n in AMBIENT:
                    namb += 1
                    key = "%s|%s" % (b.key, n)
                    e = amb_entries.get(key)
                    if e is not None:
                        used.add(key)
                        chk.ok(R_AMB, key, b.loc(bb), "table: " + e["reason"])
                    else:
                        chk.fail(R_AMB, key, b.loc(bb), "unreviewed use of ambient %s API %s" % (AMBIENT[n], n))
                    break
    chk.floor("ambient API calls", namb, 3)
    stale = sorted((set(entries) | set(amb_entries)) - used)
    if stale:
        chk.note("stale table entries: %d" % len(stale))
    chk.extra["stale_table_entries"] = stale
