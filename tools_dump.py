#!/usr/bin/env python3
"""debug helper: ./tools_dump.py <substring of fn key> — readable MIR dump from the facts"""
import sys, os
sys.path.insert(0, os.path.dirname(os.path.abspath(__file__)))
from analysis import mir

def pl(b, p):
    s = "_%d" % p["l"]
    nm = b.local_name(p["l"])
    if nm: s += "{%s}" % nm
    for e in p["p"]:
        k = e["k"]
        if k == "deref": s = "(*%s)" % s
        elif k == "field": s += "." + e["name"]
        elif k == "downcast": s += " as %s" % e["variant"]
        elif k == "index": s += "[_%d]" % e["l"]
        else: s += "[%s]" % k
    return s

def op(b, o):
    if o["k"] in ("copy", "move"): return ("" if o["k"]=="copy" else "move ") + pl(b, o["place"])
    if o["k"] == "const":
        if o.get("fn"): return "fn " + mir.norm(o.get("fn_resolved") or o["fn"])
        if o.get("closure"): return "closure " + mir.norm(o["closure"])
        return "const " + str(o.get("repr"))
    return "?"

def rv(b, r):
    k = r["k"]
    if k in ("use","repeat"): return op(b, r["op"])
    if k == "cast": return "%s as %s" % (op(b, r["op"]), mir.norm(r["ty"]))
    if k == "ref": return ("&mut " if r["mut"] else "&") + pl(b, r["place"])
    if k in ("copyforderef","rawptr"): return k + " " + pl(b, r["place"])
    if k == "binop": return "%s(%s, %s)" % (r["op"], op(b, r["l"]), op(b, r["r"]))
    if k == "unop": return "%s(%s)" % (r["op"], op(b, r["x"]))
    if k == "discriminant": return "discriminant(%s) %s" % (pl(b, r["place"]), r.get("variants"))
    if k == "aggregate":
        return "%s { %s }" % (mir.agg_name(r), ", ".join("%s: %s" % (f["name"], op(b, f["op"])) for f in r["fields"]))
    return k

def dump(b):
    print("fn %s  [%s:%d-%d] argc=%d kind=%s impl_trait=%s derived=%s exp=%s" % (b.key, b.file, b.line, b.line_hi, b.argc, b.kind, b.impl_trait, b.derived, b.exp))
    for i, l in enumerate(b.locals):
        print("   let _%d%s: %s" % (i, "{%s}" % l["name"] if l["name"] else "", mir.norm(l["ty"])))
    live = b.live_blocks()
    for i, blk in enumerate(b.blocks):
        if blk["cleanup"]: continue
        print(" bb%d%s:" % (i, "" if i in live else " (dead)"))
        for st in blk["stmts"]:
            if st["k"] == "assign": print("     %s = %s   // L%d" % (pl(b, st["place"]), rv(b, st["rv"]), st["line"]))
            else: print("     setdiscr %s = %s" % (pl(b, st["place"]), st["variant"]))
        t = blk["term"]; k = t["k"]; sp = t["span"]
        tail = "   // L%d %s" % (sp["line"], sp["exp"] or "")
        if k == "call":
            print("     %s = %s(%s) -> bb%s%s" % (pl(b, t["dest"]), mir.callee(t) or "indirect " + op(b, t["f"]["indirect"]), ", ".join(op(b, a) for a in t["args"]), t["target"], tail))
        elif k == "switch":
            print("     switch %s [%s, otherwise bb%d]%s" % (op(b, t["discr"]), ", ".join("%s->bb%d" % (v, x) for v, x in t["targets"]), t["otherwise"], tail))
        elif k == "assert":
            print("     assert(%s == %s, %s %s) -> bb%d%s" % (op(b, t["cond"]), t["expected"], t["kind"], t.get("binop",""), t["target"], tail))
        elif k == "drop": print("     drop(%s) -> bb%d" % (pl(b, t["place"]), t["target"]))
        elif k == "goto": print("     goto bb%d" % t["target"])
        else: print("     %s%s" % (k, tail))

if __name__ == "__main__":
    P = mir.Program.load()
    pat = sys.argv[1]
    exact = [b for b in P.bodies.values() if b.key == pat]
    for b in (exact or sorted((b for b in P.bodies.values() if pat in b.key), key=lambda b: b.key)):
        dump(b); print()
